#!/bin/bash
# usage: try_mutant.sh <patch.diff> <Cxx> [tier]   -- apply to /repo, run the check, always undo
p="$1"; pid="$2"; tier="${3:-quick}"
if [ -n "$(git -C /repo status --porcelain --untracked-files=no)" ]; then echo "REFUSING: /repo has uncommitted changes (they would be lost by the final checkout)"; exit 3; fi
cd /repo && git apply "$p" || { echo "PATCH DOES NOT APPLY"; exit 3; }
out=$(mktemp -d /tmp/try_out_XXXX); cd /verif && VERIF_OUT=$out ./check "$pid" --tier "$tier" 2>&1 | grep -v "WARNING conda" | grep -E "VIOLATION|KNOWN-FINDING|MACHINERY|clause=|^C[0-9]+ " | head -12
rc=${PIPESTATUS[0]}
git -C /repo checkout -- . ; rm -rf "$out"; git -C /repo status --short | head -3
echo "exit=$rc"
