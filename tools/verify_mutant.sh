#!/bin/bash
# usage: verify_mutant.sh <mutant_dir containing patch.diff demo.py> <workdir>
# confirms: patch applies; demo FAILS with patch; pinned baseline suite passes with patch; demo PASSES without patch.
# writes <mutant_dir>/verified.json ; removes the worktree.
m="$1"; wt="$2"
/verif/tools/mkworktree.sh "$wt" >/dev/null || exit 2
res() { echo "{\"applies\": $1, \"demo_fails_with_patch\": $2, \"baseline_missing\": \"$3\", \"demo_passes_without_patch\": $4}" > "$m/verified.json"; cat "$m/verified.json"; }
if ! git -C "$wt" apply "$m/patch.diff"; then res false false na false; git -C /repo worktree remove --force "$wt"; exit 1; fi
(cd "$wt" && PYTHONPATH="$wt" timeout 900 /venv/bin/python "$m/demo.py" >"$m/demo_with.log" 2>&1); d1=$?
bl=$(cd "$wt" && /verif/tools/baseline.py "$wt" 2>&1 | grep -o 'missing=[0-9]*' | head -1)
git -C "$wt" checkout -- . 
(cd "$wt" && PYTHONPATH="$wt" timeout 900 /venv/bin/python "$m/demo.py" >"$m/demo_without.log" 2>&1); d2=$?
res true $([ $d1 -ne 0 ] && echo true || echo false) "$bl" $([ $d2 -eq 0 ] && echo true || echo false)
git -C /repo worktree remove --force "$wt"
