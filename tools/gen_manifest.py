#!/usr/bin/env python3
"""Regenerate MANIFEST.json from tools/manifest_entries.json (claimed checks) — everything else is not_applicable."""
import json, os
R = os.path.dirname(os.path.dirname(os.path.abspath(__file__)))
props = [json.loads(l) for l in open(os.path.join(R, 'properties.jsonl'))]
ent = json.load(open(os.path.join(R, 'tools', 'manifest_entries.json')))
checks, na = [], []
for p in props:
    pid = p['id']
    e = ent['checks'].get(pid)
    if e is None:
        na.append({'property_id': pid, 'reason': ent['not_applicable'].get(pid, 'check not built yet (build in progress; see DESIGN.md §9)')})
        continue
    checks.append({
        'property_id': pid,
        'quick_cmd': f'./check {pid} --tier quick',
        'thorough_cmd': f'./check {pid} --tier thorough',
        'evidence_file': f'/verif/evidence/{pid}.json',
        'replay_cmd_template': f'./check {pid} --replay {{path}}',
        'engine': 'tlc-harness',
        'level_claimed': {'category': 'model_checking', 'text': e['text'], 'design_ref': f'DESIGN.md §5.{pid}'},
        'level_note': e['note'],
        'technique': e['technique'],
    })
m = {
    'version': 1,
    'setup_cmd': './check --setup',
    'hooks': {'guard': 'PHOTUTILS_VERIF',
              'enable': 'every check exports PHOTUTILS_VERIF=1 to the interpreters it spawns; photutils is an editable install, so /repo\'s working tree is what runs (no rebuild step)',
              'baseline_off_cmd': 'cd /repo && env -u PHOTUTILS_VERIF /venv/bin/python -m pytest -ra -q -p no:cacheprovider --timeout=900 --continue-on-collection-errors',
              'source_commits': ent.get('hook_commits', []), 'add_only': True},
    'engines': [{'name': 'tlc-harness', 'path': '/verif/check', 'serves_properties': sorted(ent['checks']),
                 'kind_free_text': 'TLA+ specifications in /verif/spec model-checked by TLC; conformance by (a) replaying TLC-generated behaviours/cases into photutils and comparing the projected state after every step with the spec state, (b) TLC validating traces recorded from photutils (batched trace specs), (c) a binding self-test that corrupts an accepted trace and requires rejection'}],
    'checks': checks,
    'notes': ent.get('notes', ''),
    'not_applicable': na,
}
json.dump(m, open(os.path.join(R, 'MANIFEST.json'), 'w'), indent=1)
print(f'{len(checks)} checks, {len(na)} not_applicable')
