#!/bin/bash
# usage: mkworktree.sh <dir>   -- scratch git worktree of /repo HEAD, usable for import + pytest
set -e
d="$1"
git -C /repo worktree add --detach "$d" HEAD >/dev/null 2>&1
cp /repo/photutils/geometry/*.so "$d/photutils/geometry/"
cp /repo/photutils/*.so "$d/photutils/" 2>/dev/null || true
cp /repo/photutils/version.py "$d/photutils/"
echo "$d"
