#!/usr/bin/env python3
"""Confirm seeded changes against the current /repo HEAD in a scratch worktree and try the checks against them.
usage: install_seeded.py <src_dir with Cxx/mN/{patch.diff,demo.py,notes.md}> [Cxx/mN ...]
For each mutant: worktree of HEAD -> apply patch (3-way if needed) -> demo must FAIL -> pinned baseline must pass -> revert -> demo must PASS.
Kept mutants are written to /verif/seeded/<Cxx>_<mN>/ (patch.diff rebased on HEAD, demo.py, meta.json).  The listed checks are then run
with PYTHONPATH=<worktree with the change> and VERIF_OUT=<scratch> (so /repo and /verif/evidence are never touched)."""
import json, os, shutil, subprocess, sys, tempfile
SRC = sys.argv[1]
ONLY = set(sys.argv[2:])
PREFIX = os.environ.get('SEED_PREFIX', '')        # e.g. r2 for the second round: seeded/C01_r2m1
ALSO = {  # other checks worth trying per mutant (besides its own property)
    'C01/m2': ['C09'], 'C03/m2': ['C09'], 'C05/m2': ['C04'], 'C13/m2': ['C10'], 'C17/m2': ['C10'], 'C10/m2': ['C17'], 'C11/m1': ['C10'], 'C10/m1': ['C11'],
    'C19/m2': ['C09'], 'C09/m2': ['C01'], 'C02/m1': ['C01'], 'C01/m1': ['C02'], 'C15/m2': ['C03', 'C17'], 'C03/m1': ['C17'], 'C16/m1': ['C03'],
    'C18/m2': ['C09'], 'C07/m1': ['C10'], 'C12/m2': ['C18'],
}
if PREFIX == 'r8':
    ALSO = {'C02/m1': ['C09']}
if PREFIX == 'r7':
    ALSO = {'C02/m2': ['C09', 'C10'], 'C18/m2': ['C12'], 'C19/m1': ['C15']}
if PREFIX == 'r6':
    ALSO = {'C01/m1': ['C10'], 'C09/m2': ['C10'], 'C15/m1': ['C18'], 'C20/m1': ['C15']}
if PREFIX == 'r5':
    ALSO = {'C01/m1': ['C09'], 'C07/m2': ['C05'], 'C03/m2': ['C01'], 'C20/m1': ['C09']}
if PREFIX == 'r4':
    ALSO = {'C01/m2': ['C02', 'C09'], 'C04/m2': ['C10'], 'C07/m1': ['C08']}
if PREFIX == 'r3':
    ALSO = {'C05/m1': ['C06'], 'C16/m1': ['C08'], 'C09/m1': ['C18'], 'C09/m2': ['C19'], 'C10/m2': ['C17'], 'C15/m1': ['C10']}
if PREFIX == 'r2':
    ALSO = {'C02/m2': ['C09'], 'C14/m2': ['C15'], 'C15/m1': ['C11'], 'C11/m1': ['C15'], 'C10/m2': ['C15'], 'C17/m1': ['C10'], 'C13/m2': ['C09']}


def sh(cmd, **kw):
    return subprocess.run(cmd, shell=True, capture_output=True, text=True, **kw)


def main():
    items = sorted(f'{p}/{m}' for p in os.listdir(SRC) if p.startswith('C') for m in os.listdir(os.path.join(SRC, p)) if m.startswith('m'))
    for it in items:
        if ONLY and it not in ONLY:
            continue
        src = os.path.join(SRC, it)
        pid, mn = it.split('/')
        dst = f'/verif/seeded/{pid}_{PREFIX}{mn}'
        wt = tempfile.mkdtemp(prefix='wt_seed_', dir='/tmp'); os.rmdir(wt)
        sh(f'/verif/tools/mkworktree.sh {wt}')
        meta = {'property': pid, 'round': PREFIX or 'r1', 'source': 'independent sub-agent given only the property text and a scratch worktree', 'head': sh('git -C /repo rev-parse --short HEAD').stdout.strip()}
        try:
            patch = os.path.join(src, 'patch_rebased.diff') if os.path.exists(os.path.join(src, 'patch_rebased.diff')) else os.path.join(src, 'patch.diff')
            r = sh(f'git -C {wt} apply {patch}')
            if r.returncode != 0:
                r = sh(f'git -C {wt} apply --3way {patch}')
            if r.returncode != 0:
                meta['kept'] = False; meta['reason'] = 'patch no longer applies to the repaired tree: ' + r.stderr[-200:]
                os.makedirs(dst, exist_ok=True); json.dump(meta, open(f'{dst}/meta.json', 'w'), indent=1)
                print(it, 'DOES NOT APPLY'); continue
            sh(f'git -C {wt} reset -q')
            diff = sh(f'git -C {wt} diff').stdout
            env = dict(os.environ, PYTHONPATH=wt)
            d1 = subprocess.run(['/venv/bin/python', os.path.join(src, 'demo.py')], cwd=wt, env=env, capture_output=True, text=True, timeout=1800)
            bl = sh(f'/verif/tools/baseline.py {wt}', cwd=wt).stdout
            missing = [l for l in bl.splitlines() if 'missing=' in l]
            sh(f'git -C {wt} checkout -- .')
            d2 = subprocess.run(['/venv/bin/python', os.path.join(src, 'demo.py')], cwd=wt, env=env, capture_output=True, text=True, timeout=1800)
            meta.update(demo_fails_with_change=d1.returncode != 0, baseline=missing[-1] if missing else 'n/a', demo_passes_without_change=d2.returncode == 0)
            meta['kept'] = bool(meta['demo_fails_with_change'] and meta['demo_passes_without_change'] and 'missing=0' in meta['baseline'])
            if not meta['kept']:
                meta['reason'] = 'not a valid seeded change on the repaired tree (e.g. neutralised by a fix: commit, or demo no longer discriminates)'
            os.makedirs(dst, exist_ok=True)
            open(f'{dst}/patch.diff', 'w').write(diff)
            shutil.copy(os.path.join(src, 'demo.py'), f'{dst}/demo.py')
            notes = open(os.path.join(src, 'notes.md')).read() if os.path.exists(os.path.join(src, 'notes.md')) else ''
            meta['needs_to_manifest'] = notes[:1500]
            meta['ran'] = ['git apply patch.diff in a scratch worktree of HEAD', 'PYTHONPATH=<worktree> python demo.py (with change: must fail)',
                           '/verif/tools/baseline.py <worktree> (pinned suite, must report missing=0)', 'git checkout; demo again (must pass)']
            # try the checks
            meta['checks'] = {}
            if meta['kept']:
                sh(f'git -C {wt} apply {dst}/patch.diff')
                out = tempfile.mkdtemp(prefix='seed_out_', dir='/tmp')
                for chk in [pid] + ALSO.get(it, []):
                    r = subprocess.run(['./check', chk, '--tier', 'quick'], cwd='/verif', env=dict(os.environ, PYTHONPATH=wt, VERIF_OUT=out), capture_output=True, text=True, timeout=3600)
                    clauses = sorted({l.split('clause=')[1].split(' sig=')[0] for l in r.stdout.splitlines() if 'clause=' in l})
                    meta['checks'][chk] = {'exit': r.returncode, 'detected': r.returncode == 1, 'clauses': clauses[:6]}
                shutil.rmtree(out, ignore_errors=True)
            json.dump(meta, open(f'{dst}/meta.json', 'w'), indent=1)
            print(it, 'kept' if meta['kept'] else 'DROPPED', {k: v['detected'] for k, v in meta['checks'].items()})
        finally:
            sh(f'git -C /repo worktree remove --force {wt}')
            shutil.rmtree(wt, ignore_errors=True)


main()
