#!/venv/bin/python
"""Run the pinned baseline suite in <dir> (default /repo) with the hook guard OFF and compare
with /root/.vp/BASELINE.json stable_pass.  Exit 0 iff every stable_pass test passed."""
import json, os, subprocess, sys, tempfile, xml.etree.ElementTree as ET
d = sys.argv[1] if len(sys.argv) > 1 else '/repo'
extra = sys.argv[2:]
base = json.load(open('/root/.vp/BASELINE.json'))
env = dict(os.environ); env.pop('PHOTUTILS_VERIF', None)
with tempfile.TemporaryDirectory() as td:
    xml = os.path.join(td, 'j.xml')
    cmd = ['/venv/bin/python', '-m', 'pytest', '-ra', '-q', '-p', 'no:cacheprovider', '--timeout=900',
           '--continue-on-collection-errors', '--junitxml=' + xml, '-n', '16'] + extra
    r = subprocess.run(cmd, cwd=d, env=env, capture_output=True, text=True)
    passed = set()
    for tc in ET.parse(xml).getroot().iter('testcase'):
        if not any(ch.tag in ('failure', 'error', 'skipped') for ch in tc):
            passed.add(f"{tc.get('classname')}::{tc.get('name')}")
missing = [t for t in base['stable_pass'] if t not in passed]
print(f"stable_pass={len(base['stable_pass'])} passed_now={len(passed)} missing={len(missing)}")
for m in missing[:40]:
    print("  NOT PASSING:", m)
sys.exit(1 if missing else 0)
