#!/usr/bin/env python3
"""Write the prompts for a round of independent seeded-change agents: tools/mk_mutant_prompts.py <round> <outdir>
Each prompt holds ONLY the property text, the agent's own scratch worktree path and the ideas already used in earlier rounds (taken from
seeded/*/meta.json); nothing about /verif's checks."""
import glob, json, os, re, sys
ROOT = os.path.dirname(os.path.dirname(os.path.abspath(__file__)))
rnd, out = sys.argv[1], sys.argv[2]
os.makedirs(out, exist_ok=True)
used = {}
for f in sorted(glob.glob(os.path.join(ROOT, 'seeded', '*', 'meta.json'))):
    m = json.load(open(f))
    txt = ' '.join(m.get('needs_to_manifest', '').split())[:230]
    if txt:
        used.setdefault(m['property'], []).append(txt)
# not yet installed rounds: MUT_NOTE_DIRS=/tmp/mutants2_in[:...] holds Cxx/mN/notes.md
for d in filter(None, os.environ.get('MUT_NOTE_DIRS', '').split(':')):
    for f in sorted(glob.glob(os.path.join(d, 'C*', 'm*', 'notes.md'))):
        pid = f.split(os.sep)[-3]
        txt = ' '.join(open(f).read().split())[:230]
        if txt and txt not in used.get(pid, []):
            used.setdefault(pid, []).append(txt)
for line in open(os.path.join(ROOT, 'properties.jsonl')):
    p = json.loads(line)
    pid = p['id']
    wt = f'/tmp/mut{rnd}_{pid}'
    q = (p.get('quantifier') or {}).get('text', '')
    anchors = ', '.join((p.get('anchors') or {}).get('files', []))
    ideas = '\n'.join(f'  - {t}' for t in used.get(pid, [])) or '  (none)'
    open(os.path.join(out, pid + '.txt'), 'w').write(f"""You are helping test a verification framework by producing realistic *seeded defects* (mutants) for the open-source Python library astropy/photutils. You have your own scratch git worktree of the library at {wt} (compiled extensions are already in place; run Python with `/venv/bin/python` from inside {wt} so that `import photutils` resolves to this worktree - verify with `python -c "import photutils; print(photutils.__file__)"`). Work ONLY inside {wt} and {wt}.out. Never touch /repo or /verif (do not read /verif either). There is no network.

The semantic property to break:

  id: {pid}
  title: {p['title']}
  statement: {p['statement']}
  quantified over: {q}
  code anchors (where the mechanisms live): {anchors}

TASK. Produce TWO different, independent source changes (mutants) to photutils (pure-Python files only; the Cython .pyx files cannot be rebuilt) such that each one:
  1. breaks the property above (a real behavioural violation of the statement, not a crash on import and not a cosmetic change);
  2. still imports/compiles, and the existing pinned test suite still passes completely. To check: `cd {wt} && /venv/bin/python /tmp/muttools/baseline.py {wt}` must print `missing=0` (takes ~2-3 min; it runs the whole suite and compares with the pinned list of 1731 passing tests). While iterating you can run just the relevant sub-package tests first, e.g. `/venv/bin/python -m pytest -q -p no:cacheprovider -n 4 photutils/<subpkg>`;
  3. is *subtle*: it needs something specific to manifest - an unusual input (edge of image, tie, NaN, non-consecutive labels, particular dtype/shape), a multi-step sequence of operations / particular order of reads and calls, a particular worker-completion order, or two cooperating sites that each look fine alone. It must NOT be something ordinary use would expose at once (the existing tests pass, remember). Prefer realistic slips a maintainer could make in a refactor (off-by-one, wrong slice reused, cache not invalidated, in-place op on a view, stale attribute, wrong comparison operator on a boundary, a mask applied at the wrong stage...). The two mutants should touch different mechanisms, and at least one of them should live in a code path or file that the earlier ideas below did NOT touch (read the anchors and their helpers for less obvious places: option combinations, rarely used keyword arguments, helper modules under photutils/utils).
  4. comes with a demonstration: a small standalone Python program `demo.py` that uses only the public photutils API, exits 0 (prints PASS) on the unmodified code and exits 1 (prints FAIL and what went wrong) with the mutant applied. The demo must assert the *property as stated* (not an implementation detail).

IDEAS ALREADY USED in earlier rounds (do NOT repeat these or close variants; pick different mechanisms, files and trigger conditions):
{ideas}

DELIVERABLES, written to {wt}.out/m1/ and {wt}.out/m2/ :
  - patch.diff   : output of `git -C {wt} diff` for that mutant alone (apply-able with `git apply`)
  - demo.py      : the demonstration program
  - notes.md     : 5-10 lines: what was changed, why it violates the property, what specific condition is needed for it to manifest, and the outputs you observed (baseline.py result with the mutant; demo.py result with and without the mutant). Start notes.md with a one-line title `# {pid} / mN - <what the change does>`.
IMPORTANT: never use `git stash` (the stash is shared with other worktrees of the same repository and other agents are working concurrently) - to set a change aside use `git diff > file; git checkout -- .` and `git apply file`. The demo must be runnable as `PYTHONPATH=<tree> /venv/bin/python demo.py` and should print photutils.__file__ first (a script outside the tree otherwise imports /repo's copy). Known pre-existing quirks of the tree must be avoided by the demo so that it PASSES on the unmodified code.
Procedure per mutant: edit files in {wt}; run demo (must FAIL); run baseline.py (must print missing=0); save `git diff` to patch.diff; then `git -C {wt} checkout -- .` and run demo again (must PASS). Keep only mutants that satisfy all of this; if an idea makes existing tests fail, discard it and try another. Do not edit or add tests inside the library. Leave the worktree clean (checked out) when you finish. Your final message should list for each mutant: files touched, one-line description, condition to manifest, and confirmation of the three runs.
""")
print('written', out)
