#!/bin/bash
# usage: try_mutant_wt.sh <patch.diff> <Cxx> [tier]   -- apply the patch in a scratch worktree of /repo HEAD and run the check against that tree
# (PYTHONPATH=<worktree>, VERIF_OUT=<scratch>): /repo and /verif/evidence are never touched, so this can run next to other checks.
p="$1"; pid="$2"; tier="${3:-quick}"
wt=$(mktemp -d /tmp/wt_try_XXXX); rmdir "$wt"
/verif/tools/mkworktree.sh "$wt" >/dev/null 2>&1
git -C "$wt" apply "$p" || { echo "PATCH DOES NOT APPLY"; git -C /repo worktree remove --force "$wt"; exit 3; }
out=$(mktemp -d /tmp/try_out_XXXX)
cd /verif && PYTHONPATH="$wt" VERIF_OUT=$out ./check "$pid" --tier "$tier" 2>&1 | grep -v "WARNING conda" | grep -E "VIOLATION|KNOWN-FINDING|MACHINERY|clause=|^C[0-9]+ " | head -12
rc=${PIPESTATUS[0]}
git -C /repo worktree remove --force "$wt"; rm -rf "$wt" "$out"
echo "exit=$rc"
