"""known_findings.json: committed, never written at run time.
entry: {id, property, status: "known"|"fixed", match: {clause?, sig: {k: v,...}}, what, commit?}
A violation matches a *known* entry iff clause equals (when given) and every sig item of the entry equals the violation's."""
import json, os
ROOT = os.path.dirname(os.path.dirname(os.path.abspath(__file__)))


def load():
    p = os.path.join(ROOT, 'known_findings.json')
    if not os.path.exists(p):
        return []
    return json.load(open(p))['findings']


def _norm(x):
    return json.loads(json.dumps(x, default=str))


def match(known, pid, v):
    sig = _norm(v['sig'])
    for k in known:
        if k.get('property') != pid or k.get('status') != 'known':
            continue
        m = k.get('match', {})
        if 'clause' in m and m['clause'] != v['clause']:
            continue
        if all(sig.get(a) == b for a, b in _norm(m.get('sig', {})).items()):
            return k
    return None
