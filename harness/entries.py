"""Entry-point catalogue (DESIGN Appendix B): one adapter per public photutils entry point, taking a dict of caller-owned inputs
(data, error, mask, bkg, thr, kernel, footprint, segm, table, model ...) and returning a canonicalisable result.  Used by
C10 (inputs untouched), C15 (representation independence) and C03 (translation covariance)."""
import warnings
import numpy as np

SHAPE = (30, 36)
SRC = [(9.0, 8.0, 60.0, 1.8, 1.4), (22.0, 12.0, 90.0, 1.5, 1.5), (14.0, 21.0, 40.0, 2.2, 1.6), (29.0, 23.0, 75.0, 1.6, 2.0),
       (26.5, 15.0, 60.0, 1.3, 1.3)]        # the last one blends with the second (so that deblending has something to split); not in _positions()


def base_scene(seed=0, integer=True):
    """integer-valued (so that every dtype holds the same numbers) scene with four sources on a small gradient"""
    y, x = np.mgrid[:SHAPE[0], :SHAPE[1]]
    d = 3.0 + 0.05 * x + 0.02 * y
    for (cx, cy, a, sx, sy) in SRC:
        d = d + a * np.exp(-0.5 * (((x - cx) / sx) ** 2 + ((y - cy) / sy) ** 2))
    d = d + np.random.default_rng(seed).normal(0, 0.4, SHAPE)
    if integer:
        d = np.round(d)
    err = np.round(1.0 + np.sqrt(np.abs(d)) / 2.0) if integer else 1.0 + np.sqrt(np.abs(d)) / 2.0
    mask = np.zeros(SHAPE, dtype=bool)
    mask[4:6, 30:33] = True
    mask[20, 13] = True
    bkg = np.full(SHAPE, 3.0)
    return {'data': d, 'error': err, 'mask': mask, 'bkg': bkg}


def _segm(inp):
    from photutils.segmentation import detect_sources
    d = np.asarray(getattr(inp['data'], 'value', inp['data']), dtype=float)
    d = np.where(np.isfinite(d), d, 0.0)
    with warnings.catch_warnings():
        warnings.simplefilter('ignore')
        return detect_sources(d, 12.0, 5)


def _positions():
    return [(c[0], c[1]) for c in SRC[:4]]


def _strip(v):
    return getattr(v, 'value', v)


def _tab(t):
    return t


# ----- each adapter: f(inp) -> result ; `uses` lists the input keys handed to photutils ------------------------------------
def e_aperture_photometry(inp):
    from photutils.aperture import CircularAnnulus, CircularAperture, aperture_photometry
    ap = inp.get('apertures') or [CircularAperture(_positions(), 3.0), CircularAnnulus(_positions(), 4.0, 6.0)]
    return aperture_photometry(inp['data'], ap, error=inp.get('error'), mask=inp.get('mask'), method=inp.get('method', 'exact'))


def e_aperture_photometry_subpixel(inp):
    from photutils.aperture import CircularAperture, EllipticalAperture, aperture_photometry
    ap = [CircularAperture(_positions(), 4.3), EllipticalAperture(_positions(), 4.0, 2.5, theta=0.3)]
    return [aperture_photometry(inp['data'], ap, error=inp.get('error'), mask=inp.get('mask'), method='subpixel', subpixels=k) for k in (1, 3)]


def e_do_photometry(inp):
    from photutils.aperture import EllipticalAperture
    ap = EllipticalAperture(_positions() + [(-4.0, 3.0), (0.2, 29.4)], 4.0, 2.0, theta=0.4)
    return list(ap.do_photometry(inp['data'], error=inp.get('error'), mask=inp.get('mask'), method='subpixel', subpixels=4)) + \
        [ap.area_overlap(inp['data'], mask=inp.get('mask'))]


def e_aperture_mask(inp):
    from photutils.aperture import RectangularAperture
    m = RectangularAperture((9.0, 8.0), 5.0, 3.0, theta=0.3).to_mask(method='exact')
    return [m.cutout(inp['data']), m.multiply(inp['data']), m.get_values(inp['data'], mask=inp.get('mask')), m.to_image(SHAPE)]


def e_aperture_stats(inp):
    from astropy.stats import SigmaClip
    from photutils.aperture import ApertureStats, CircularAperture
    ap = inp.get('aperture5') or CircularAperture(_positions() + [(1.0, 1.0)], 4.0)
    sc = (inp.get('sigma_clip_obj') or SigmaClip(3.0)) if inp.get('sigclip') else None
    st = ApertureStats(inp['data'], ap, error=inp.get('error'), mask=inp.get('mask'), sigma_clip=sc, local_bkg=inp.get('local_bkg'))
    out = {p: getattr(st, p) for p in st.properties if p not in ('sky_centroid', 'sky_centroid_icrs')}
    if inp.get('local_bkg') is None and sc is None:
        # integer-valued local backgrounds (scalar and per aperture), as read from an integer table column
        d = inp['data']
        un = getattr(d, 'unit', None)
        for tag, lb in (('lbi', np.array([1, 2, 0, 3, 1][:len(ap)])), ('lbs', 2)):
            st2 = ApertureStats(d, ap, error=inp.get('error'), mask=inp.get('mask'), local_bkg=lb if un is None else lb * un)
            out.update({f'{tag}_{p}': getattr(st2, p) for p in ('sum', 'mean', 'min', 'max', 'xcentroid', 'std')})
    return out


def e_background2d(inp):
    from photutils.background import Background2D
    out = []
    # box sizes: dividing the image, full-width strips, height-1 boxes, remainders on both axes, box == image
    for box in ((10, 12), (10, 36), (1, 12), (7, 8), (30, 36)) + ((inp['box_size_arr'],) if inp.get('box_size_arr') is not None else ()):
        kw = {k2: inp[k1] for k1, k2 in (('bkg_estimator', 'bkg_estimator'), ('bkgrms_estimator', 'bkgrms_estimator'), ('sigma_clip_obj', 'sigma_clip'),
                                         ('interpolator', 'interpolator')) if inp.get(k1) is not None}      # caller-owned helper objects (C10)
        b = Background2D(inp['data'], box, mask=inp.get('mask'), coverage_mask=inp.get('coverage_mask'), filter_size=3,
                         exclude_percentile=30.0, **kw)
        out += [b.background, b.background_rms, b.background_mesh, b.background_rms_mesh, b.background_median, b.background_rms_median, b.npixels_mesh]
    # a region without coverage, filled with a value that is neither 0 nor non-finite (a bare number must be accepted for an image with units too) and that every
    # integer representation can hold (the maps are returned in the dtype of an integer image: -1 cannot be stored in an unsigned one)
    cm = inp.get('coverage_mask')
    if cm is None:
        cm = np.zeros(SHAPE, dtype=bool); cm[:4, :5] = True; cm[-3:, -7:] = True
    b = Background2D(inp['data'], (10, 12), mask=inp.get('mask'), coverage_mask=cm, fill_value=7.0, filter_size=3, exclude_percentile=30.0)
    out += [b.background, b.background_rms, b.background_mesh, b.npixels_mesh]
    return out


def e_local_background(inp):
    from photutils.background import LocalBackground
    x = [p[0] for p in _positions()]; y = [p[1] for p in _positions()]
    return LocalBackground(4, 8)(inp['data'], x, y, mask=inp.get('mask'))


def e_bkg_estimators(inp):
    import photutils.background as B
    out = []
    for cls in ('MeanBackground', 'MedianBackground', 'ModeEstimatorBackground', 'MMMBackground', 'SExtractorBackground', 'BiweightLocationBackground',
                'StdBackgroundRMS', 'MADStdBackgroundRMS', 'BiweightScaleBackgroundRMS'):
        est = getattr(B, cls)()
        out.append(est(inp['data']))
        out.append(est(inp['data'], axis=1))
        raw = getattr(B, cls)(sigma_clip=None)          # without clipping the statistic runs on the caller's array itself
        out.append(raw(inp['data']))
        out.append(raw(inp['data'], axis=0))
    return out


def e_stats_large(inp):
    """the same statistics on many pixels with a large pedestal (where the precision of the accumulator matters)"""
    import photutils.background as B
    from photutils.segmentation import detect_threshold
    d = inp['data']
    unit = getattr(d, 'unit', None)
    a = np.asarray(_strip(d))
    big = np.tile(a, (22, 18))
    big = big + np.asarray(3000, dtype=big.dtype)
    if isinstance(d, np.ma.MaskedArray):
        big = np.ma.MaskedArray(big)
    if unit is not None:
        big = big * unit
    out = [B.MeanBackground()(big), B.StdBackgroundRMS()(big), B.MedianBackground()(big), B.MADStdBackgroundRMS()(big),
           B.MeanBackground(sigma_clip=None)(big), B.StdBackgroundRMS(sigma_clip=None)(big)]
    out.append(detect_threshold(big, 2.0)[0, 0])
    if np.asarray(_strip(big)).dtype.kind in 'iu':      # integer input: documented integer-rounded maps (covered by the background2d entry)
        big = big.astype(float)
    b = B.Background2D(big, (330, 324), filter_size=1, bkg_estimator=B.MeanBackground(), exclude_percentile=60.0)
    out += [b.background_mesh, b.background_rms_mesh]
    # a pedestal that is huge compared with the noise: any hidden single-precision step would show in the RMS
    if np.asarray(_strip(big)).dtype == np.float32:      # single precision cannot hold this scene: promoted first (no claim for f4 here)
        big = big.astype(np.float64)
    ped = (big - np.asarray(3000, dtype=np.asarray(_strip(big)).dtype) * (unit if unit is not None else 1)) * 0.001 + 200000.0 * (unit if unit is not None else 1)
    if str(np.asarray(_strip(d)).dtype) == '>f8':
        ped = ped.astype('>f8')
    b2 = B.Background2D(ped, (330, 324), filter_size=1, bkg_estimator=B.MeanBackground(), exclude_percentile=60.0)
    out += [b2.background_mesh - 200000.0 * (unit if unit is not None else 1), b2.background_rms_mesh * 1000.0]
    return out


def e_aperture_mask_edge(inp):
    from photutils.aperture import CircularAnnulus, CircularAperture, RectangularAperture
    out = []
    for ap in (CircularAperture((0.5, 12.0), 3.0), RectangularAperture((35.0, 29.0), 5.0, 3.0, theta=0.3), CircularAnnulus((20.0, 0.0), 2.0, 4.0)):
        for method in ('center', 'exact'):
            m = ap.to_mask(method=method)
            out += [m.cutout(inp['data']), m.cutout(inp['data'], fill_value=7.0, copy=True), m.multiply(inp['data'])]
    return out


def _wcs():
    from astropy.wcs import WCS
    w = WCS(naxis=2)
    w.wcs.crpix = [18.0, 15.0]; w.wcs.cdelt = [-2e-4, 2e-4]; w.wcs.crval = [40.0, -10.0]; w.wcs.ctype = ['RA---TAN', 'DEC--TAN']
    return w


def e_sky_apertures(inp):
    import astropy.units as u
    from photutils.aperture import (SkyCircularAnnulus, SkyCircularAperture, SkyEllipticalAnnulus, SkyEllipticalAperture, SkyRectangularAnnulus,
                                    SkyRectangularAperture, aperture_photometry)
    w = _wcs()
    sky = w.pixel_to_world([p[0] for p in _positions()], [p[1] for p in _positions()])
    a = 0.72 * u.arcsec
    aps = [SkyCircularAperture(sky, 3 * a), SkyCircularAnnulus(sky, 3 * a, 5 * a), SkyEllipticalAperture(sky, 4 * a, 2 * a, theta=20 * u.deg),
           SkyEllipticalAnnulus(sky, 2 * a, 5 * a, 3 * a, theta=20 * u.deg), SkyRectangularAperture(sky, 5 * a, 3 * a, theta=-30 * u.deg),
           SkyRectangularAnnulus(sky, 3 * a, 6 * a, 4 * a, theta=10 * u.deg)]
    t = aperture_photometry(inp['data'], aps, error=inp.get('error'), mask=inp.get('mask'), wcs=w)
    return [t, [ap.to_pixel(w).positions for ap in aps[:2]]]


def e_annuli(inp):
    from photutils.aperture import ApertureStats, EllipticalAnnulus, RectangularAnnulus
    out = []
    for ap in (EllipticalAnnulus(_positions(), 2.0, 5.0, 3.0, theta=0.5), RectangularAnnulus(_positions() + [(0.0, 0.0)], 3.0, 6.0, 4.0, theta=-0.2)):
        out += list(ap.do_photometry(inp['data'], error=inp.get('error'), mask=inp.get('mask'))) + [ap.area_overlap(inp['data'], mask=inp.get('mask'))]
        st = ApertureStats(inp['data'], ap, error=inp.get('error'), mask=inp.get('mask'))
        out += [st.sum, st.median, st.centroid]
    return out


def e_fit_gaussian(inp):
    from photutils.psf import fit_2dgaussian, fit_fwhm
    xy = _positions()
    r = fit_2dgaussian(_sub(inp), xypos=xy, fwhm=3.5, fix_fwhm=False, fit_shape=(7, 7), mask=inp.get('mask'), error=inp.get('error'))
    return [r.results, fit_fwhm(_sub(inp), xypos=xy, fit_shape=(7, 7), mask=inp.get('mask'), error=inp.get('error'))]


def e_psf_matching(inp):
    from photutils.psf.matching import CosineBellWindow, SplitCosineBellWindow, TopHatWindow, TukeyWindow, HanningWindow, create_matching_kernel, resize_psf
    d = inp['data']
    (x1, y1), (x2, y2) = [(int(round(p[0])), int(round(p[1]))) for p in _positions()[1:3]]
    a, b = d[y1 - 5:y1 + 6, x1 - 5:x1 + 6], d[y2 - 5:y2 + 6, x2 - 5:x2 + 6]
    out = [create_matching_kernel(a, b, window=wd) for wd in (None, CosineBellWindow(0.35), SplitCosineBellWindow(0.4, 0.3), TopHatWindow(0.5), TukeyWindow(0.4), HanningWindow())]
    return out + [resize_psf(a, 0.1, 0.05), resize_psf(b, 0.1, 0.2, order=1)]


def e_datasets(inp):
    from photutils.datasets import apply_poisson_noise
    d = inp['data']
    nonneg = np.abs(_strip(d)) if not hasattr(d, 'unit') else np.abs(d)
    return [apply_poisson_noise(nonneg, seed=5)]


def e_harmonics(inp):
    from photutils.isophote import fit_first_and_second_harmonics, fit_upper_harmonic
    phi = np.linspace(0.0, 2 * np.pi, SHAPE[1], endpoint=False)
    row = np.asarray(_strip(inp['data']))[8]
    rr = inp['data'][8]
    a = fit_first_and_second_harmonics(phi, rr)
    b = fit_upper_harmonic(phi, rr, 3)
    return [a[0], b[0]]


def e_interpolators(inp):
    from photutils.background import Background2D, BkgIDWInterpolator, BkgZoomInterpolator
    out = []
    for it in (BkgIDWInterpolator(), BkgZoomInterpolator(order=1), BkgZoomInterpolator(clip=False)):
        b = Background2D(inp['data'], (6, 6), mask=inp.get('mask'), filter_size=3, interpolator=it, exclude_percentile=50.0)
        out += [b.background, b.background_rms]
    return out


def e_segment_cutouts(inp):
    segm = inp['segm']
    out = []
    for sg in segm.segments[:3]:
        out += [sg.make_cutout(inp['data']), sg.make_cutout(inp['data'], masked_array=True), sg.data_ma]
    return out


def e_plotting(inp):
    """drawing helpers: they take an `origin` to shift what is drawn - the shift must be applied to a copy"""
    import matplotlib
    matplotlib.use('Agg')
    import matplotlib.pyplot as plt
    from photutils.aperture import CircularAnnulus, CircularAperture, EllipticalAperture, RectangularAperture
    from photutils.background import Background2D
    from photutils.segmentation import SourceCatalog
    fig, ax = plt.subplots()
    out = []
    try:
        aps = list(inp.get('apertures') or [CircularAperture(_positions(), 3.0), CircularAnnulus(_positions(), 4.0, 6.0)])
        if inp.get('aperture5') is not None:
            aps.append(inp['aperture5'])
        aps += inp.get('apertures_more') or [EllipticalAperture(_positions()[0], 4.0, 2.0, theta=0.3), RectangularAperture(_positions(), 4.0, 2.0)]
        for ap in aps:
            out.append(len(ap.plot(ax=ax, origin=(3.0, 2.5), color='r')))
            out.append(len(np.atleast_1d(ap._to_patch(origin=(1.0, -2.0)))))
            bb = ap.bbox
            for b in (bb if isinstance(bb, list) else [bb]):
                b.plot(ax=ax, origin=(2.0, 1.0)); b.as_artist()
        data = np.asarray(_strip(inp['data']), dtype=float)
        segm = inp.get('segm') or _segm(inp)
        segm.imshow(ax=ax); segm.imshow_map(ax=ax)
        cat = SourceCatalog(data, segm)
        out.append(len(cat.plot_kron_apertures(ax=ax, origin=(2.0, 1.0))))
        out.append(len(cat.plot_circular_apertures(3.0, ax=ax, origin=(2.0, 1.0))))
        out.append(len(cat.make_kron_apertures()))
        Background2D(data, (10, 12), mask=inp.get('mask')).plot_meshes(ax=ax, outlines=True)
    finally:
        plt.close(fig)
    return out


def e_detect_threshold(inp):
    from photutils.segmentation import detect_threshold
    return [detect_threshold(inp['data'], 2.0, background=inp.get('bkg'), error=inp.get('error'), mask=inp.get('mask')),
            detect_threshold(inp['data'], 3.0, mask=inp.get('mask'))]


def e_detect_sources(inp):
    from photutils.segmentation import detect_sources
    s = detect_sources(inp['data'], inp.get('thr', 12.0), 5, mask=inp.get('mask'))
    return None if s is None else [s.data, s.labels, s.areas]


def e_deblend(inp):
    from photutils.segmentation import deblend_sources
    segm = inp['segm']
    s = deblend_sources(inp['data'], segm, 5, nlevels=16, contrast=0.001, progress_bar=False)
    return [s.data, sorted((int(k), [int(c) for c in v]) for k, v in s.deblended_labels_inverse_map.items())]


def e_source_finder(inp):
    from photutils.segmentation import SourceFinder
    s = SourceFinder(npixels=5, progress_bar=False)(inp['data'], inp.get('thr', 12.0), mask=inp.get('mask'))
    return None if s is None else s.data


def e_source_catalog(inp):
    from photutils.segmentation import SourceCatalog
    cat = SourceCatalog(inp['data'], inp['segm'], error=inp.get('error'), mask=inp.get('mask'), background=inp.get('bkg'),
                        convolved_data=inp.get('convolved'), localbkg_width=inp.get('localbkg_width', 0), detection_cat=inp.get('detection_cat'))
    out = {p: getattr(cat, p) for p in cat.properties if not p.startswith('sky_')}
    out['_circ'] = cat.circular_photometry(3.0)
    out['_kron'] = cat.kron_photometry((2.5, 1.4))
    out['_ff'] = cat.fluxfrac_radius(0.5)
    out['_cut'] = [c.data if c is not None else None for c in cat.make_cutouts((7, 7))]
    out['_table'] = cat.to_table()
    return out


def e_source_mask(inp):
    return [inp['segm'].make_source_mask(size=3), inp['segm'].make_source_mask(footprint=inp.get('footprint', np.ones((3, 3), dtype=bool)))]


def e_find_peaks(inp):
    from photutils.centroids import centroid_com
    from photutils.detection import find_peaks
    extra = []
    if inp.get('border_width_arr') is not None:
        extra = [find_peaks(inp['data'], inp.get('thr', 12.0), box_size=3, border_width=inp['border_width_arr'], mask=inp.get('mask'))]
    from photutils.centroids import centroid_1dg
    # (a centroid function that takes the error cutout: the error array travels through find_peaks and centroid_sources)
    extra = extra + [find_peaks(inp['data'], inp.get('thr', 12.0), box_size=7, mask=inp.get('mask'), centroid_func=centroid_1dg, error=inp.get('error'), npeaks=3)]
    return extra + [find_peaks(inp['data'], inp.get('thr', 12.0), box_size=5, mask=inp.get('mask')),
            find_peaks(inp['data'], inp.get('thr', 12.0), footprint=inp.get('footprint', np.ones((3, 5), dtype=bool)), mask=inp.get('mask'),
                       centroid_func=centroid_com, error=inp.get('error'), npeaks=3)]


def _sub(inp):
    d = inp['data']
    return d - (3.0 * getattr(d, 'unit', 1)) if hasattr(d, 'unit') else d - 3.0


def e_daofinder(inp):
    from photutils.detection import DAOStarFinder
    return DAOStarFinder(inp.get('thr', 10.0), 3.5)(inp['data'], mask=inp.get('mask'))


def e_iraffinder(inp):
    from photutils.detection import IRAFStarFinder
    return IRAFStarFinder(inp.get('thr', 10.0), 3.5)(inp['data'], mask=inp.get('mask'))


def e_starfinder(inp):
    from photutils.detection import StarFinder
    k = inp.get('kernel')
    if k is None:
        y, x = np.mgrid[:7, :7]
        k = np.exp(-0.5 * (((x - 3) / 1.5) ** 2 + ((y - 3) / 1.5) ** 2))
    return StarFinder(inp.get('thr', 10.0), k)(inp['data'], mask=inp.get('mask'))


def _cut(inp):
    return inp['data'][2:15, 3:16], (None if inp.get('mask') is None else inp['mask'][2:15, 3:16]), (None if inp.get('error') is None else inp['error'][2:15, 3:16])


def e_centroids(inp):
    from photutils.centroids import centroid_1dg, centroid_2dg, centroid_com, centroid_quadratic
    d, m, e = _cut(inp)
    extra = []
    if inp.get('fit_boxsize_arr') is not None:      # caller-owned size arrays, larger than the cutout (they are clipped to it)
        extra = [centroid_quadratic(d, mask=m, fit_boxsize=inp['fit_boxsize_arr'], search_boxsize=inp['search_boxsize_arr'])]
    return [centroid_com(d, mask=m), centroid_quadratic(d, mask=m), centroid_1dg(d, error=e, mask=m), centroid_2dg(d, error=e, mask=m)] + extra


def e_centroid_sources(inp):
    from photutils.centroids import centroid_2dg, centroid_sources
    x = [round(p[0]) for p in _positions()]; y = [round(p[1]) for p in _positions()]
    fp = np.ones((7, 7), dtype=bool); fp[0, 0] = fp[6, 6] = False
    return [centroid_sources(inp['data'], x, y, box_size=7, mask=inp.get('mask')),
            centroid_sources(inp['data'], x, y, footprint=inp.get('footprint7', fp), mask=inp.get('mask'), error=inp.get('error'), centroid_func=centroid_2dg)]


def e_profiles(inp):
    from photutils.profiles import CurveOfGrowth, RadialProfile
    rp = RadialProfile(inp['data'], (22.0, 12.0), np.arange(0, 8), error=inp.get('error'), mask=inp.get('mask'))
    cg = CurveOfGrowth(inp['data'], (22.0, 12.0), np.arange(1, 8), error=inp.get('error'), mask=inp.get('mask'))
    out = [rp.profile, rp.profile_error, rp.area, rp.data_profile, rp.data_radius, cg.profile, cg.profile_error, cg.area]
    rp.normalize(); cg.normalize('sum')
    out += [rp.profile, cg.profile]
    # documented: unnormalize() restores the original state - values AND units
    rp.unnormalize(); cg.unnormalize()
    unit = lambda v: str(getattr(v, 'unit', ''))  # noqa
    return out + [rp.profile, cg.profile, rp.profile_error, bool(unit(rp.profile) == unit(out[0]) and unit(cg.profile) == unit(out[5]))]


def _psf_model():
    from photutils.psf import CircularGaussianPRF
    return CircularGaussianPRF(fwhm=3.8)


def _init_table(inp):
    from astropy.table import Table
    if inp.get('table') is not None:
        return inp['table']
    t = Table()
    t['x'] = [p[0] + 0.2 for p in _positions()]
    t['y'] = [p[1] - 0.1 for p in _positions()]
    return t


def e_psf_photometry(inp):
    from photutils.background import LocalBackground
    from photutils.psf import PSFPhotometry, SourceGrouper
    model = inp.get('model') or _psf_model()
    ph = PSFPhotometry(model, (7, 7), grouper=inp.get('grouper') or SourceGrouper(10), localbkg_estimator=inp.get('localbkg_est') or LocalBackground(5, 9),
                       aperture_radius=4, finder=inp.get('finder'), fitter=inp.get('fitter') or __import__('astropy.modeling.fitting', fromlist=['x']).TRFLSQFitter())
    res = ph(inp['data'], mask=inp.get('mask'), error=inp.get('error'), init_params=_init_table(inp))
    return [res, ph.make_model_image(SHAPE, psf_shape=(9, 9)), ph.make_residual_image(inp['data'], psf_shape=(9, 9))]


def e_iterative_psf(inp):
    from photutils.detection import DAOStarFinder
    from photutils.psf import IterativePSFPhotometry
    model = inp.get('model') or _psf_model()
    thr = 10.0 * getattr(inp['data'], 'unit', 1)
    ph = IterativePSFPhotometry(model, (7, 7), DAOStarFinder(thr, 3.5), aperture_radius=4, maxiters=2)
    res = ph(_sub(inp), mask=inp.get('mask'), error=inp.get('error'))
    return [res, ph.make_model_image(SHAPE, psf_shape=(9, 9))]


def e_grouper(inp):
    from photutils.psf import SourceGrouper
    x = inp.get('xarr', np.array([p[0] for p in _positions()] + [10.0, 23.5]))
    y = inp.get('yarr', np.array([p[1] for p in _positions()] + [9.0, 12.5]))
    return SourceGrouper(4.0)(x, y)


def e_psf_models(inp):
    from astropy.nddata import NDData
    import photutils.psf as P
    y, x = np.mgrid[:9, :11]
    xx = inp.get('xgrid', x.astype(float)); yy = inp.get('ygrid', y.astype(float))
    out = []
    for m in (P.CircularGaussianPRF(flux=3, x_0=5.2, y_0=4.1, fwhm=2.5), P.GaussianPRF(flux=3, x_0=5.2, y_0=4.1, x_fwhm=2.5, y_fwhm=3.0, theta=90),
              P.CircularGaussianPSF(flux=3, x_0=5.2, y_0=4.1, fwhm=2.5), P.MoffatPSF(flux=3, x_0=5.2, y_0=4.1), P.AiryDiskPSF(flux=3, x_0=5.2, y_0=4.1, radius=3)):
        out.append(m(xx, yy))
    psfdata = inp.get('psfdata')
    if psfdata is None:
        psfdata = np.exp(-0.5 * (((x - 5) / 1.5) ** 2 + ((y - 4) / 1.5) ** 2))
    im = P.ImagePSF(psfdata, x_0=5.3, y_0=3.8, flux=2.0)
    out.append(im(xx, yy)); out.append(im(xx, yy))
    return out


def e_make_model_image(inp):
    from astropy.table import Table
    from photutils.datasets import make_model_image
    t = inp.get('params')
    if t is None:
        t = Table()
        t['x_0'] = [p[0] for p in _positions()]; t['y_0'] = [p[1] for p in _positions()]; t['flux'] = [100.0, 200.0, 50.0, 80.0]
        t['local_bkg'] = [1.0, 0.0, 2.0, 0.5]
    return make_model_image(SHAPE, inp.get('model') or _psf_model(), t, model_shape=(9, 9))


def e_isophote(inp):
    from photutils.isophote import Ellipse, EllipseGeometry, build_ellipse_model
    y, x = np.mgrid[:41, :41]
    img = inp.get('galaxy')
    if img is None:
        img = 200.0 * np.exp(-np.sqrt(((x - 20.3) ** 2 + ((y - 19.8) / 0.7) ** 2)) / 5.0)
    g = inp.get('geometry') or EllipseGeometry(20.0, 20.0, 6.0, 0.2, 1.4)
    iso = Ellipse(img, g).fit_image(sma0=6.0, minsma=3.0, maxsma=9.0, step=0.4)
    return [[(i.sma, i.x0, i.y0, i.eps, i.pa, i.intens) for i in iso], build_ellipse_model(img.shape, iso) if len(iso) > 2 else None]


def galaxy_counts():
    """an integer-valued (detector counts, peak 20000: fits int16) elliptical galaxy"""
    y, x = np.mgrid[:121, :121]
    pa, eps = 0.7, 0.3
    xr = (x - 60.3) * np.cos(pa) + (y - 59.6) * np.sin(pa); yr = -(x - 60.3) * np.sin(pa) + (y - 59.6) * np.cos(pa)
    return np.rint(20000.0 * np.exp(-np.sqrt(xr ** 2 + (yr / (1 - eps)) ** 2) / 25.0))


def e_isophote_fit(inp):
    """isophote fits of the image as it arrives (all integration modes; the area modes sum pixels)"""
    from photutils.isophote import Ellipse, EllipseGeometry
    img = inp.get('galaxy')
    if img is None:
        img = galaxy_counts()
    out = []
    for mode in ('bilinear', 'mean', 'median', 'nearest_neighbor'):
        # (out to sma ~ 50: the sectors of the area modes hold 10 - 20 pixels of a few thousand counts each)
        iso = Ellipse(img, EllipseGeometry(60.6, 59.3, 20.0, 0.25, 0.8)).fit_image(sma0=20.0, minsma=12.0, maxsma=52.0, step=0.3, integrmode=mode)
        out.append([(i.sma, i.x0, i.y0, i.eps, i.pa, i.intens, i.rms, i.stop_code, i.ndata) for i in iso])
    return out


def e_calc_total_error(inp):
    import astropy.units as u
    from photutils.utils import calc_total_error
    d, e = inp['data'], inp.get('error')
    if hasattr(d, 'unit'):      # count units are required: adu data with a gain in electron / adu
        return calc_total_error(d.value * u.adu, e.value * u.adu, 2.0 * u.electron / u.adu)
    g = inp.get('gain_map')
    return calc_total_error(d, e, inp.get('gain', 2.0) if g is None else g)


def e_utils(inp):
    from photutils.utils import CutoutImage, ShepardIDWInterpolator
    c = CutoutImage(inp['data'], (8, 9), (7, 9), mode='partial')
    pos = np.array(_positions()); vals = np.array([1.0, 2.0, 3.0, 4.0])
    f = ShepardIDWInterpolator(inp.get('idw_pos', pos), inp.get('idw_vals', vals))
    return [c.data, c.bbox_original.shape, f([[10.0, 10.0], [20.0, 20.0]])]


def e_morphology(inp):
    from photutils.morphology import data_properties, gini
    d, m, _ = _cut(inp)
    p = data_properties(d, mask=m)
    whole = inp['data']
    return [gini(d, mask=m), gini(whole), gini(whole, mask=inp.get('mask')), p.xcentroid, p.ycentroid, p.semimajor_sigma, p.orientation]


def e_image_depth(inp):
    from photutils.utils import ImageDepth
    d = np.asarray(_strip(inp['data']), dtype=float)
    mask = inp.get('mask')
    if mask is None:
        mask = inp.get('emptymask')
    dep = ImageDepth(2.0, nsigma=3.0, napers=40, niters=2, mask_pad=1, seed=3, progress_bar=False)
    return list(dep(d, mask))


def weights_uncertainty(arr):
    """An NDData uncertainty of uncertainty_type 'weights' (extract_stars uses such an array directly as weights)."""
    from astropy.nddata import NDUncertainty

    class WeightsUncertainty(NDUncertainty):
        @property
        def uncertainty_type(self):
            return 'weights'

        def _data_unit_to_uncertainty_unit(self, value):
            return None

        def _propagate_add(self, other_uncert, result_data, correlation):
            return None
        _propagate_subtract = _propagate_multiply = _propagate_divide = _propagate_add
    return WeightsUncertainty(arr, copy=False)


def e_epsf(inp):
    from astropy.nddata import NDData, StdDevUncertainty
    from astropy.table import Table
    from photutils.psf import EPSFBuilder, extract_stars
    d = np.asarray(_strip(inp['data']), dtype=float)
    nd = inp.get('nddata')
    if nd is None:
        nd = NDData(d, uncertainty=StdDevUncertainty(np.asarray(_strip(inp['error']), dtype=float)), mask=inp.get('mask'))
    t = inp.get('stars_table')
    if t is None:
        t = Table(); t['x'] = [p[0] for p in _positions()]; t['y'] = [p[1] for p in _positions()]
    stars = extract_stars(nd, t, size=9)
    epsf, fitted = EPSFBuilder(oversampling=1, maxiters=2, progress_bar=False)(stars)
    return [epsf.data, [s.cutout_center for s in fitted]]


ENTRIES = {
    'aperture_photometry': dict(f=e_aperture_photometry, uses=['data', 'error', 'mask']),
    'do_photometry': dict(f=e_do_photometry, uses=['data', 'error', 'mask']),
    'aperture_photometry_subpixel': dict(f=e_aperture_photometry_subpixel, uses=['data', 'error', 'mask']),
    'aperture_mask': dict(f=e_aperture_mask, uses=['data', 'mask']),
    'aperture_mask_edge': dict(f=e_aperture_mask_edge, uses=['data']),
    'stats_large': dict(f=e_stats_large, uses=['data']),
    'aperture_stats': dict(f=e_aperture_stats, uses=['data', 'error', 'mask']),
    'background2d': dict(f=e_background2d, uses=['data', 'mask']),
    'local_background': dict(f=e_local_background, uses=['data', 'mask']),
    'bkg_estimators': dict(f=e_bkg_estimators, uses=['data']),
    'detect_threshold': dict(f=e_detect_threshold, uses=['data', 'bkg', 'error', 'mask']),
    'detect_sources': dict(f=e_detect_sources, uses=['data', 'mask']),
    'deblend_sources': dict(f=e_deblend, uses=['data', 'segm']),
    'source_finder': dict(f=e_source_finder, uses=['data', 'mask']),
    'source_catalog': dict(f=e_source_catalog, uses=['data', 'segm', 'error', 'mask', 'bkg']),
    'source_mask': dict(f=e_source_mask, uses=['segm']),
    'find_peaks': dict(f=e_find_peaks, uses=['data', 'mask', 'error']),
    'daofinder': dict(f=e_daofinder, uses=['data', 'mask']),
    'iraffinder': dict(f=e_iraffinder, uses=['data', 'mask']),
    'starfinder': dict(f=e_starfinder, uses=['data', 'mask']),
    'centroids': dict(f=e_centroids, uses=['data', 'mask', 'error']),
    'centroid_sources': dict(f=e_centroid_sources, uses=['data', 'mask', 'error']),
    'profiles': dict(f=e_profiles, uses=['data', 'error', 'mask']),
    'psf_photometry': dict(f=e_psf_photometry, uses=['data', 'mask', 'error']),
    'iterative_psf': dict(f=e_iterative_psf, uses=['data', 'mask', 'error']),
    'grouper': dict(f=e_grouper, uses=[]),
    'psf_models': dict(f=e_psf_models, uses=[]),
    'make_model_image': dict(f=e_make_model_image, uses=[]),
    'isophote': dict(f=e_isophote, uses=[]),
    'calc_total_error': dict(f=e_calc_total_error, uses=['data', 'error', 'gain_map']),
    'utils': dict(f=e_utils, uses=['data']),
    'morphology': dict(f=e_morphology, uses=['data', 'mask']),
    'image_depth': dict(f=e_image_depth, uses=['data', 'mask']),
    'epsf': dict(f=e_epsf, uses=['data', 'error', 'mask']),
    'epsf_weights': dict(f=e_epsf, uses=['data', 'error', 'mask']),
    'sky_apertures': dict(f=e_sky_apertures, uses=['data', 'error', 'mask']),
    'annuli': dict(f=e_annuli, uses=['data', 'error', 'mask']),
    'fit_gaussian': dict(f=e_fit_gaussian, uses=['data', 'error', 'mask']),
    'psf_matching': dict(f=e_psf_matching, uses=['data']),
    'datasets': dict(f=e_datasets, uses=['data']),
    'harmonics': dict(f=e_harmonics, uses=['data']),
    'interpolators': dict(f=e_interpolators, uses=['data', 'mask']),
    'segment_cutouts': dict(f=e_segment_cutouts, uses=['data', 'segm']),
    'plotting': dict(f=e_plotting, uses=['data', 'segm', 'mask']),
    'isophote_fit': dict(f=e_isophote_fit, uses=['galaxy']),
}


def run_entry(name, inp):
    """returns ('ok', result) or ('raise', ExcTypeName)"""
    with warnings.catch_warnings():
        warnings.simplefilter('ignore')
        try:
            return 'ok', ENTRIES[name]['f'](inp)
        except Exception as e:  # noqa
            return 'raise', type(e).__name__ + ': ' + str(e)[:120]
