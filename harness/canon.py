"""canonical, hashable projection of photutils values: arrays / lists / Quantity / MaskedArray / tables / None -> digest.
Two values are 'the same' iff their digests are equal (dtype, shape, bytes with NaN payload normalised, unit, mask)."""
import hashlib
import numpy as np


def canon(v):
    """nested tuple of leaves"""
    try:
        import astropy.units as u
        from astropy.table import Table
        from astropy.coordinates import SkyCoord
    except Exception:  # pragma: no cover
        u = Table = SkyCoord = None
    if v is None:
        return ('none',)
    if isinstance(v, (bool, np.bool_)):
        return ('bool', bool(v))
    if isinstance(v, (int, np.integer)):
        return ('int', int(v))
    if isinstance(v, (float, np.floating)):
        return ('float', 'nan' if np.isnan(v) else repr(float(v)))
    if isinstance(v, str):
        return ('str', v)
    if Table is not None and isinstance(v, Table):
        return ('table', tuple((name, canon(v[name])) for name in v.colnames))
    if SkyCoord is not None and isinstance(v, SkyCoord):
        return ('skycoord', canon(np.asarray(v.spherical.lon.deg)), canon(np.asarray(v.spherical.lat.deg)))
    if u is not None and isinstance(v, u.Quantity):
        return ('quantity', str(v.unit), canon(np.asarray(v.value)))
    if isinstance(v, np.ma.MaskedArray):
        return ('masked', canon(np.asarray(v.filled(0) if v.dtype.kind in 'fiub' else v.data)), canon(np.ma.getmaskarray(v)))
    if isinstance(v, np.ndarray):
        if v.dtype == object:
            return ('objarray', tuple(canon(x) for x in v.ravel().tolist()), v.shape)
        a = np.ascontiguousarray(v)
        if a.dtype.kind == 'f':
            a = np.where(np.isnan(a), np.nan, a)           # normalise NaN payloads / sign
            a = a + 0.0                                      # -0.0 stays -0.0; fine (bitwise identity wanted)
        return ('array', a.dtype.str, a.shape, hashlib.sha1(a.tobytes()).hexdigest())
    if isinstance(v, dict):
        return ('dict', tuple(sorted((str(k), canon(x)) for k, x in v.items())))
    if isinstance(v, (list, tuple)):
        return ('seq', tuple(canon(x) for x in v))
    if hasattr(v, 'colnames') and hasattr(v, '__getitem__'):   # Column-like
        return canon(np.asarray(v))
    if hasattr(v, '__dict__'):
        return ('obj', type(v).__name__, canon({k: x for k, x in vars(v).items() if not k.startswith('__')}))
    return ('repr', repr(v))


def digest(v):
    return hashlib.sha1(repr(canon(v)).encode()).hexdigest()


def close(a, b, rtol=1e-9, atol=1e-12):
    """structural comparison with tolerance on float leaves (for FIXED comparisons)"""
    ca, cb = canon(a), canon(b)
    return _close(a, b, rtol, atol) if ca != cb else True


def _close(a, b, rtol, atol):
    try:
        import astropy.units as u
        if isinstance(a, u.Quantity) or isinstance(b, u.Quantity):
            if not (isinstance(a, u.Quantity) and isinstance(b, u.Quantity)) or a.unit != b.unit:
                return False
            a, b = a.value, b.value
        from astropy.table import Table
        if isinstance(a, Table):
            return isinstance(b, Table) and a.colnames == b.colnames and all(_close(np.asarray(a[c]), np.asarray(b[c]), rtol, atol) for c in a.colnames)
    except Exception:  # noqa
        pass
    if isinstance(a, (list, tuple)) and isinstance(b, (list, tuple)):
        return len(a) == len(b) and all(_close(x, y, rtol, atol) for x, y in zip(a, b))
    try:
        a = np.asarray(a, dtype=float); b = np.asarray(b, dtype=float)
        return a.shape == b.shape and bool(np.allclose(a, b, rtol=rtol, atol=atol, equal_nan=True))
    except Exception:  # noqa
        return canon(a) == canon(b)
