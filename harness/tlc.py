"""Thin driver around TLC / SANY: run a module+cfg from /verif/spec, parse counts, PrintT records, errors, coverage."""
import json, os, re, shutil, subprocess, tempfile, time

SPEC_DIR = os.path.join(os.path.dirname(os.path.dirname(os.path.abspath(__file__))), 'spec')
JAR = '/opt/veriftools/tla/tla2tools.jar:/opt/veriftools/tla/CommunityModules-deps.jar'


class TLCError(Exception):
    """machinery failure (exit 2), never a property verdict"""


class TLCResult:
    def __init__(self):
        self.generated = 0
        self.distinct = 0
        self.records = []        # JSON records printed with PrintT(ToJson(..)) / PrintT(<<"tag", ToJson(..)>>)
        self.violated = []       # names of violated invariants / properties
        self.errors = []         # other TLC error text
        self.coverage = {}       # action name -> (distinct, total)
        self.stdout = ''
        self.wall = 0.0
        self.cmd = ''
        self.ok = True           # TLC finished without error (violations make ok False too)


_UNESC = re.compile(r'\\(.)')


def _unescape(s):
    return _UNESC.sub(lambda m: {'n': '\n', 't': '\t'}.get(m.group(1), m.group(1)), s)


def parse_printt(line):
    """PrintT(ToJson(x)) prints a TLA+ string literal  "...."  ;  PrintT(<<"T", ToJson(x)>>) prints <<"T", "....">>"""
    line = line.strip()
    if line.startswith('"') and line.endswith('"') and len(line) > 1 and line[1] in '{[':
        try:
            return json.loads(_unescape(line[1:-1]))
        except Exception:
            return None
    m = re.match(r'^<<"([A-Za-z_0-9]+)", "(.*)">>$', line)
    if m and m.group(2)[:1] in '{[':
        try:
            v = json.loads(_unescape(m.group(2)))
        except Exception:
            return None
        if isinstance(v, dict):
            v.setdefault('_tag', m.group(1))
            return v
        return {'_tag': m.group(1), 'v': v}
    return None


def run(module, cfg=None, *, env=None, workers=1, timeout=900, simulate=None, depth=None, coverage=False,
        seed=None, deadlock=None, extra=(), scratch=None, check_ok=True, heap='4g'):
    """Run TLC on spec/<module>.tla with spec/<cfg> (default <module>.cfg)."""
    cfg = cfg or module + '.cfg'
    own = scratch is None
    meta = tempfile.mkdtemp(prefix='tlcmeta_', dir=scratch)
    cmd = ['java', '-XX:+UseParallelGC', '-Xmx' + heap, '-Djava.io.tmpdir=' + meta, '-cp', JAR, 'tlc2.TLC', '-metadir', meta, '-noGenerateSpecTE',
           '-workers', str(workers), '-config', cfg]
    if simulate:
        cmd += ['-simulate', simulate]
    if depth:
        cmd += ['-depth', str(depth)]
    if coverage:
        cmd += ['-coverage', '1']
    if seed is not None:
        cmd += ['-seed', str(seed)]
    if deadlock is False:
        cmd += ['-deadlock']
    cmd += list(extra) + [module + '.tla']
    e = dict(os.environ)
    e.update(env or {})
    t0 = time.time()
    try:
        p = subprocess.run(cmd, cwd=SPEC_DIR, env=e, capture_output=True, text=True, timeout=timeout)
    except subprocess.TimeoutExpired as ex:
        shutil.rmtree(meta, ignore_errors=True)
        raise TLCError(f'TLC timeout after {timeout}s: {module} {cfg}') from ex
    finally:
        if os.path.isdir(meta):
            shutil.rmtree(meta, ignore_errors=True)
    r = TLCResult()
    r.wall = time.time() - t0
    r.stdout = p.stdout + p.stderr
    r.cmd = ' '.join(cmd)
    for line in p.stdout.splitlines():
        rec = parse_printt(line) if line[:1] in '"<' else None
        if rec is not None:
            r.records.append(rec)
            continue
        m = re.match(r'^(\d+) states generated, (\d+) distinct states found', line)
        if m:
            r.generated, r.distinct = int(m.group(1)), int(m.group(2))
            continue
        m = re.match(r'^Error: Invariant (\S+) is violated', line)
        if m:
            r.violated.append(m.group(1)); continue
        m = re.match(r'^Error: Action property (\S+) is violated', line)
        if m:
            r.violated.append(m.group(1)); continue
        m = re.match(r'^Error: Temporal properties were violated', line)
        if m:
            r.violated.append('TEMPORAL'); continue
        m = re.match(r'^Error: Temporal property (\S+) was violated', line)
        if m:
            r.violated.append(m.group(1)); continue
        if line.startswith('Error:') or 'Assumption' in line and 'is false' in line:
            r.errors.append(line)
            continue
        m = re.match(r'^<(\w+) line \d+, col \d+ to line \d+, col \d+ of module (\w+)>: (\d+):(\d+)', line)
        if m:
            r.coverage[m.group(1)] = (int(m.group(3)), int(m.group(4)))
    if simulate and not r.generated:
        m = re.search(r'The number of states generated: (\d+)', p.stdout)
        if m:
            r.generated = int(m.group(1)); r.distinct = r.distinct or r.generated
    r.ok = not r.violated and not r.errors and p.returncode == 0
    if check_ok and (r.errors or (p.returncode != 0 and not r.violated)):
        lines = p.stdout.splitlines()
        first = next((k for k, l in enumerate(lines) if l.startswith('Error:')), max(0, len(lines) - 25))
        tail = '\n'.join(lines[first:first + 14] + ['...'] + lines[-6:])
        raise TLCError(f'TLC failed ({module}, {cfg}) rc={p.returncode}:\n{tail}')
    return r


def sany(module):
    p = subprocess.run(['java', '-cp', JAR, 'tla2sany.SANY', module + '.tla'], cwd=SPEC_DIR, capture_output=True, text=True)
    out = p.stdout + p.stderr
    ok = p.returncode == 0 and 'Semantic errors' not in out and 'Parse Error' not in out and 'Fatal' not in out \
        and '*** Errors' not in out
    return ok, out
