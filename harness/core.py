"""Check context: accumulates TLC statistics, violations, known-finding matching, evidence, exit code."""
import hashlib, json, os, shutil, sys, tempfile, time, traceback
from . import tlc

ROOT = os.path.dirname(os.path.dirname(os.path.abspath(__file__)))
# evidence and replay files go to /verif unless redirected (used when a check is tried against a scratch worktree with a seeded change)
OUT = os.environ.get('VERIF_OUT', ROOT)
PY = '/venv/bin/python'
GUARD = 'PHOTUTILS_VERIF'


class Machinery(Exception):
    pass


def _jdefault(o):
    """numpy scalars that a changed implementation may return where Python numbers are usual"""
    import numpy as np
    if isinstance(o, np.integer):
        return int(o)
    if isinstance(o, np.floating):
        return float(o)
    if isinstance(o, np.bool_):
        return bool(o)
    if isinstance(o, np.ndarray):
        return o.tolist()
    raise TypeError(f'Object of type {o.__class__.__name__} is not JSON serializable')


def jcopy(obj):
    """deep copy through JSON (records are JSON by construction; numpy scalars are converted)"""
    return json.loads(json.dumps(obj, default=_jdefault))


def jdump(obj, path):
    with open(path, 'w') as f:
        json.dump(obj, f, separators=(',', ':'), default=_jdefault)


class Ctx:
    def __init__(self, pid, tier, seed):
        self.pid, self.tier, self.seed = pid, tier, seed
        global CURRENT_CTX
        CURRENT_CTX = self
        self.quick = tier == 'quick'
        self.t0 = time.time()
        self.tmp = tempfile.mkdtemp(prefix=f'verif_{pid}_')
        self.states = 0
        self.transitions = 0
        self.traces = 0              # behaviours replayed into the code + recorded traces accepted by TLC
        self.evaluations = 0
        self.nontrivial = 0
        self.samples = []
        self.violations = []         # dicts: clause, sig, detail
        self.parts = {}              # per-step details for the evidence file
        self.rule = ''
        self.assumptions = []
        self.trusted = ['TLC 1.8.0', 'harness/tlc.py parser', 'projection functions in harness/props/%s.py' % pid.lower()]
        self.exhaustive = False
        self.selftests = []
        self.coverage_actions = {}

    # ---- TLC wrappers -------------------------------------------------------------------------------
    def tlc(self, module, cfg=None, part=None, **kw):
        kw.setdefault('scratch', self.tmp)
        r = tlc.run(module, cfg, **kw)
        self.states += r.distinct
        self.transitions += r.generated
        p = self.parts.setdefault(part or f'{module}/{cfg or module + ".cfg"}', {'runs': 0, 'distinct': 0, 'generated': 0, 'wall_s': 0.0})
        p['runs'] += 1; p['distinct'] += r.distinct; p['generated'] += r.generated; p['wall_s'] = round(p['wall_s'] + r.wall, 2)
        for a, (d, t) in r.coverage.items():
            c = self.coverage_actions.setdefault(f'{module}.{a}', [0, 0]); c[0] += d; c[1] += t
        return r

    def mc(self, module, cfg=None, expect_hold=True, **kw):
        """design-level model check: every invariant/property in the cfg must hold, else machinery failure
        (the *spec* is wrong or has been changed; the code is not involved)."""
        kw.setdefault('workers', 16)
        r = self.tlc(module, cfg, part=f'MC:{module}/{cfg or module + ".cfg"}', **kw)
        if expect_hold and r.violated:
            raise Machinery(f'design-level model check failed: {module} {cfg}: {r.violated}\n' + '\n'.join(r.stdout.splitlines()[-40:]))
        return r

    def need_coverage(self, module, r, actions):
        dead = [a for a in actions if r.coverage.get(a, (0, 0))[1] == 0]
        if dead:
            raise Machinery(f'vacuous model check: actions never taken in {module}: {dead}')

    def datafile(self, name, obj):
        p = os.path.join(self.tmp, name)
        jdump(obj, p)
        return p

    # ---- verdicts -----------------------------------------------------------------------------------
    def violation(self, clause, sig, detail):
        """sig: small dict that identifies the specific input/call site/history (used for known-finding matching)"""
        self.violations.append({'clause': clause, 'sig': sig, 'detail': detail})

    def sample(self, s, cap=6):
        if len(self.samples) < cap:
            self.samples.append(s)

    def selftest(self, name, ok, note=''):
        self.selftests.append({'name': name, 'rejected_corruption': bool(ok), 'note': note})
        if not ok:
            raise Machinery(f'binding self-test failed (corrupted trace was accepted): {name} {note}')

    # ---- finish -------------------------------------------------------------------------------------
    def finish(self):
        from . import findings
        known = findings.load()
        rep_dir = os.path.join(OUT, 'replays', self.pid)
        new = []
        printed = set()
        nknown = 0
        for v in self.violations:
            kf = findings.match(known, self.pid, v)
            if kf is not None:
                nknown += 1
                if kf['id'] not in printed:
                    printed.add(kf['id'])
                    print(f"KNOWN-FINDING: property={self.pid} {kf['what']}")
            else:
                new.append(v)
        paths = []
        shutil.rmtree(rep_dir, ignore_errors=True)      # replays of earlier runs are stale
        if new:
            os.makedirs(rep_dir, exist_ok=True)
            seen = set()
            for v in new:
                h = hashlib.sha1(json.dumps([v['clause'], v['sig']], sort_keys=True, default=str).encode()).hexdigest()[:12]
                if h in seen:
                    continue
                seen.add(h)
                path = os.path.join(rep_dir, f'{h}.json')
                with open(path, 'w') as f:
                    json.dump({'property': self.pid, 'tier': self.tier, 'seed': self.seed, **v}, f, indent=1, default=str)
                paths.append(path)
                if len(paths) <= 25:
                    print(f'VIOLATION property={self.pid} replay={path}')
                    print(f"  clause={v['clause']} sig={json.dumps(v['sig'], default=str)[:300]}")
            if len(paths) > 25:
                print(f'  ... {len(paths) - 25} more distinct violations (replay files written)')
        ev = {
            'property_id': self.pid, 'tier': self.tier, 'seed': self.seed, 'level': 'model_checking',
            'coverage': {
                'states': max(self.states, 0), 'transitions': max(self.transitions, 0),
                'traces_validated_against_impl': self.traces,
                'samples': self.samples or ['(none)'],
                'evaluations': self.evaluations, 'distinct_nontrivial': self.nontrivial, 'rule': self.rule,
                'exhaustive': self.exhaustive, 'parts': self.parts, 'action_coverage': self.coverage_actions,
                'binding_selftests': self.selftests, 'trusted_base': self.trusted,
                'known_findings_matched': nknown, 'known_finding_ids': sorted(printed),
            },
            'assumptions': self.assumptions, 'wall_s': round(time.time() - self.t0, 2), 'violations': len(paths),
        }
        os.makedirs(os.path.join(OUT, 'evidence'), exist_ok=True)
        with open(os.path.join(OUT, 'evidence', f'{self.pid}.json'), 'w') as f:
            json.dump(ev, f, indent=1, default=str)
        shutil.rmtree(self.tmp, ignore_errors=True)
        print(f"{self.pid} {self.tier}: states={self.states} transitions={self.transitions} impl_traces={self.traces} "
              f"evaluations={self.evaluations} known={nknown} new_violations={len(paths)} wall={ev['wall_s']}s")
        return 1 if paths else 0

    def cleanup(self):
        shutil.rmtree(self.tmp, ignore_errors=True)


# ---- helpers shared by property modules ---------------------------------------------------------------
import re as _re
from concurrent.futures import ThreadPoolExecutor as _TPE


def make_cfg(ctx, template, name=None, **subst):
    """copy spec/<template> into the scratch dir with constants replaced:  KEY = value"""
    src = open(template if os.path.isabs(template) else os.path.join(ROOT, 'spec', template)).read()
    for k, v in subst.items():
        src, n = _re.subn(r'(?m)^(\s*)%s\s*=.*$' % _re.escape(k), r'\g<1>%s = %s' % (k, v), src)
        if n == 0:
            raise Machinery(f'constant {k} not in {template}')
    name = name or f'{os.path.basename(template)[:-4]}_{abs(hash(tuple(sorted(subst.items())))) % 10**8}.cfg'
    path = os.path.join(ctx.tmp, name)
    with open(path, 'w') as f:
        f.write(src)
    return path


def tlc_sharded(ctx, module, template, nshards, part, threads=8, **kw):
    """run one single-worker TLC per shard of the initial states, concurrently; returns list of results"""
    cfgs = [make_cfg(ctx, template, name=f'{os.path.basename(template)[:-4]}_s{i}.cfg', Shard=i, NShards=nshards) for i in range(nshards)]
    with _TPE(max_workers=threads) as ex:
        futs = [ex.submit(ctx.tlc, module, c, part=part, workers=1, **kw) for c in cfgs]
        return [f.result() for f in futs]


CURRENT_CTX = None


class _Guarded:
    """picklable wrapper: an exception that travelled through photutils code is the implementation's, not the harness's - it is returned
    as a marker and reported as a violation (`implementation_raises`) instead of aborting the run as a machinery failure"""

    def __init__(self, fn):
        self.fn = fn

    def __call__(self, x):
        try:
            return self.fn(x)
        except Exception as e:  # noqa
            import traceback
            tb = traceback.extract_tb(e.__traceback__)
            if not any('/photutils/' in fr.filename for fr in tb):
                raise
            where = [f'{fr.filename.split("/photutils/")[-1]}:{fr.lineno}' for fr in tb if '/photutils/' in fr.filename][-1]
            return {'__impl_raise__': True, 'fn': getattr(self.fn, '__name__', str(self.fn)), 'exc': type(e).__name__, 'msg': str(e)[:300], 'where': where,
                    'arg': repr(x)[:600]}


def pmap(fn, items, procs=16, chunksize=64, on_raise='empty'):
    """map over a fork pool.  on_raise: what stands in for an item whose evaluation raised inside photutils ('empty' -> [], 'drop' -> omitted);
    every such item is reported as a violation of the running check"""
    import multiprocessing as mp
    g = _Guarded(fn)
    if len(items) < 64 or procs == 1:
        res = [g(x) for x in items]
    else:
        with mp.get_context('fork').Pool(procs) as pool:
            res = pool.map(g, items, chunksize=chunksize)
    out = []
    for r in res:
        if isinstance(r, dict) and r.get('__impl_raise__'):
            if CURRENT_CTX is not None:
                CURRENT_CTX.violation('implementation_raises', {'in': r['fn'], 'exc': r['exc'], 'where': r['where'].split(':')[0]},
                                      {'message': r['msg'], 'where': r['where'], 'argument': r['arg']})
            if on_raise == 'empty':
                out.append([])
            continue
        out.append(r)
    return out


def validate_batch(ctx, module, cases, part, shards=16, env=None, timeout=900):
    """generic batched oracle/trace validation: cases (each with 'id') are split over `shards` single-worker TLC
    runs of spec/<module>.tla (+ .cfg), which print one <<"V", json>> verdict per case. returns {id: verdict}"""
    if not cases:
        return {}
    n = min(shards, max(1, len(cases) // 4))
    chunks = [cases[i::n] for i in range(n)]
    files = [ctx.datafile(f'{part.replace(":", "_").replace("/", "_")}_{i}.json', ch) for i, ch in enumerate(chunks)]

    def one(f):
        e = dict(env or {}); e['TRACE_FILE'] = f
        return ctx.tlc(module, module + '.cfg', part=part, env=e, workers=1, timeout=timeout)
    with _TPE(max_workers=16) as ex:
        rs = list(ex.map(one, files))
    out = {}
    for r in rs:
        for rec in r.records:
            if rec.get('_tag') == 'V':
                out[rec['id']] = rec
    if len(out) != len(cases):
        raise Machinery(f'{module}: {len(out)} verdicts for {len(cases)} cases ({part})')
    return out
