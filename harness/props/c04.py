"""C04 detect_sources is exact connected-component labelling above threshold.
spec/DetectOps.tla (constructive LabelMap + declarative IsDetection), Detect.tla (case enumerator, MC: constructive |=
declarative), Trace_Detect.tla (TLC as oracle for recorded calls)."""
import json, random, warnings
import numpy as np
from .. import core
from .c05 import _slices_j

INF = 1000000


def _to_float(rows, nan=()):
    a = np.array(rows, dtype=float)
    a[a >= INF] = np.inf
    a[a <= -INF] = -np.inf
    for r, c in nan:
        a[r, c] = np.nan
    return a


LAYOUTS = ('C', 'F', 'strided', 'C')


def relayout(a, layout):
    """the same values in another memory layout (labels must follow the raster order of the array, not of its memory)"""
    if not isinstance(a, np.ndarray) or a.ndim != 2 or layout == 'C':
        return a
    if layout == 'F':
        return np.asfortranarray(a)
    big = np.zeros((a.shape[0] * 2 + 1, a.shape[1] * 3 + 2), dtype=a.dtype)
    big[1::2, 2::3][:a.shape[0], :a.shape[1]] = a
    return big[1::2, 2::3][:a.shape[0], :a.shape[1]]


def call_detect(data, thr, npix, conn, mask, layout='C'):
    from photutils.segmentation import detect_sources
    from photutils.utils.exceptions import NoDetectionsWarning
    data, thr, mask = relayout(data, layout), relayout(thr, layout), relayout(mask, layout)
    with warnings.catch_warnings(record=True) as w:
        warnings.simplefilter('always')
        try:
            segm = detect_sources(data, thr, npix, connectivity=conn, mask=mask)
        except Exception as e:  # noqa
            return {'raised': True, 'exc': repr(e)}
    warned = any(issubclass(x.category, NoDetectionsWarning) for x in w)
    if segm is None:
        return {'raised': False, 'none': True, 'warned': warned}
    # attributes of the *returned* object (its caches were pre-seeded by detect_sources)
    try:
        attrs = {'labels': [int(x) for x in segm.labels], 'slices': _slices_j(segm.slices), 'areas': [int(x) for x in segm.areas]}
    except Exception as e:  # noqa
        attrs = {'labels': [-1], 'slices': [], 'areas': [], 'attr_exc': repr(e)}
    return {'raised': False, 'none': False, 'warned': warned, 'out': segm.data.tolist(), **attrs}


def replay_case(c):
    """spec -> code: one TLC-enumerated case; returns list of (clause, sig, detail)"""
    nan = c['bad'] if c['badkind'] == 'nan1' else []
    maskpix = c['bad'] if c['badkind'] in ('mask1', 'maskrow') else []
    data = _to_float(c['data'], nan)
    mask = None
    if maskpix:
        mask = np.zeros(data.shape, dtype=bool)
        for r, cc in maskpix:
            mask[r, cc] = True
    thr2d = np.array(c['thr'], dtype=float)
    thr = float(thr2d[0, 0]) if c['thrkind'] in ('c0', 'c1') else thr2d
    import zlib
    layout = LAYOUTS[zlib.crc32(json.dumps([c['data'], c['npix'], c['conn']]).encode()) % 4]
    got = call_detect(data, thr, c['npix'], c['conn'], mask, layout)
    sig = {'conn': c['conn'], 'npix': c['npix'], 'thrkind': c['thrkind'], 'badkind': c['badkind'], 'layout': layout}
    out = []
    if got['raised']:
        return [('raises', sig, {'case': c, 'got': got})]
    if got['none'] != c['none']:
        return [('none_iff_no_component', sig, {'case': c, 'got': got})]
    if got['none']:
        if not got['warned']:
            out.append(('no_detections_warning', sig, {'case': c}))
        return out
    if got['out'] != c['expect']:
        out.append(('label_map', sig, {'case': c, 'got': got['out']}))
    for a in ('labels', 'slices', 'areas'):
        if got[a] != c['attrs'][a]:
            out.append((f'attr_{a}', sig, {'case': c, 'got': got[a], 'expected': c['attrs'][a]}))
    return out


def record_structured(seed, rng):
    """binary scenes made of interlocking shapes (L, U, rings, diagonals, blobs); npixels is chosen at / next to a component
    size or a bounding-box area, so that the size filter acts on components whose boxes contain pixels of other components"""
    h, w = rng.randint(4, 11), rng.randint(4, 11)
    a = np.zeros((h, w), dtype=int)
    for _ in range(rng.randint(2, 6)):
        r0, c0 = rng.randrange(h), rng.randrange(w)
        hh, ww = rng.randint(2, 5), rng.randint(2, 5)
        r1, c1 = min(h, r0 + hh), min(w, c0 + ww)
        shape = rng.choice(['L', 'U', 'ring', 'diag', 'blob', 'bar'])
        if shape == 'blob':
            a[r0:r1, c0:c1] = 1
        elif shape == 'bar':
            a[r0, c0:c1] = 1
        elif shape == 'L':
            a[r0:r1, c0] = 1; a[r0 if rng.random() < 0.5 else r1 - 1, c0:c1] = 1
        elif shape == 'U':
            a[r0:r1, c0] = 1; a[r0:r1, c1 - 1] = 1; a[r1 - 1, c0:c1] = 1
        elif shape == 'ring':
            a[r0:r1, c0:c1] = 1; a[r0 + 1:r1 - 1, c0 + 1:c1 - 1] = 0
        else:
            for k in range(min(r1 - r0, c1 - c0)):
                a[r0 + k, c0 + k] = 1
        if rng.random() < 0.4:   # carve a gap so shapes interlock without touching
            rr, cc = rng.randrange(h), rng.randrange(w)
            a[rr, :] = 0 if rng.random() < 0.5 else a[rr, :]
            a[:, cc] = 0 if rng.random() < 0.5 else a[:, cc]
    conn = rng.choice([4, 8])
    if rng.random() < 0.5:
        # 'moat' scenes: a filled frame, a small concave shape, and a one-pixel moat of zeros around the shape, so that
        # the small shape's bounding box contains pixels of the large component without touching it
        a = np.ones((h, w), dtype=int)
        if rng.random() < 0.3:
            a[rng.randrange(h), :] = 0
        bh, bw = rng.randint(2, min(5, h)), rng.randint(2, min(5, w))
        r0, c0 = rng.randint(0, h - bh), rng.randint(0, w - bw)
        s = np.zeros((h, w), dtype=bool)
        kind = rng.choice(['L', 'U', 'diag', 'T'])
        if kind == 'L':
            s[r0:r0 + bh, c0] = True; s[r0, c0:c0 + bw] = True
        elif kind == 'U':
            s[r0:r0 + bh, c0] = True; s[r0:r0 + bh, c0 + bw - 1] = True; s[r0 + bh - 1, c0:c0 + bw] = True
        elif kind == 'T':
            s[r0, c0:c0 + bw] = True; s[r0:r0 + bh, c0 + bw // 2] = True
        else:
            for k in range(min(bh, bw)):
                s[r0 + k, c0 + k] = True
                if conn == 4 and k + 1 < min(bh, bw):
                    s[r0 + k + 1, c0 + k] = True
        from scipy import ndimage as _ndi
        grown = _ndi.binary_dilation(s, structure=np.ones((3, 3), bool))
        a[grown & ~s] = 0
        a[s] = 1
    from scipy import ndimage as ndi
    st = ndi.generate_binary_structure(2, 1 if conn == 4 else 2)
    lab, n = ndi.label(a, structure=st)
    cands = [1]
    for sl, k in zip(ndi.find_objects(lab), range(1, n + 1)):
        size = int((lab[sl] == k).sum()); box = int(lab[sl].size)
        cands += [size, size + 1, box, box + 1]
    npix = max(1, rng.choice(cands))
    rows = a.tolist()
    thr_rows = [[0] * w for _ in range(h)]
    got = call_detect(a.astype(float), 0.0, npix, conn, None, LAYOUTS[seed % 4])
    return {'id': seed, 'kind': 'detect', 'data': rows, 'thr': thr_rows, 'nan': [], 'mask': [], 'conn': conn, 'npix': npix,
            'raised': got['raised'], 'none': got.get('none', False), 'warned': got.get('warned', False),
            'out': got.get('out', [[0]]), 'labels': got.get('labels', []), 'slices': got.get('slices', []), 'areas': got.get('areas', [])}


def record_threshold_est(seed, rng):
    """detect_threshold estimating the noise (and possibly the background) itself: the estimates come from the UNMASKED pixels only.
    The unmasked pixels hold b-d / b+d in equal numbers (mean b, std d exactly, nothing sigma-clipped); the masked pixels hold a second,
    wider population b2-5d / b2+5d (not clipped either when treated as data, so using them changes both estimates)."""
    from photutils.segmentation import detect_threshold
    h, w = rng.randint(2, 8), 2 * rng.randint(1, 4)
    b, d, ns = rng.randint(-5, 20), rng.randint(1, 4), rng.choice([1, 2, 3, 5])
    data = np.zeros((h, w)); mask = np.zeros((h, w), bool)
    cells = [(r, c) for r in range(h) for c in range(w)]
    rng.shuffle(cells)
    use_mask = rng.random() < 0.8
    nmask = 2 * rng.randint(1, max(1, len(cells) // 4)) if use_mask and len(cells) >= 4 else 0
    b2 = b + rng.choice([-3, 0, 4]) * d
    for k, (r, c) in enumerate(cells):
        if k < nmask:
            mask[r, c] = True; data[r, c] = b2 + (5 * d if k % 2 else -5 * d)
        else:
            data[r, c] = b + (d if k % 2 else -d)
    bgkind = rng.choice(['none', 'scalar', 'map'])
    bg = [[rng.randint(-5, 20) for _ in range(w)] for _ in range(h)]
    if bgkind == 'scalar':
        bg = [[bg[0][0]] * w for _ in range(h)]
    bga = None if bgkind == 'none' else (float(bg[0][0]) if bgkind == 'scalar' else np.array(bg, float))
    keep = data.copy()
    try:
        out = np.asarray(detect_threshold(data, ns, background=bga, mask=mask if nmask else None))
        ok = out.shape == (h, w) and bool(np.all(np.abs(out - np.round(out)) < 1e-9)) and np.array_equal(keep, data)
        outj = [[int(v) for v in row] for row in np.round(out).tolist()] if ok else [[-999999] * w] * h
    except Exception:  # noqa
        outj = [[-999999] * w] * h
    return {'id': seed, 'kind': 'threshold_est', 'bgkind': bgkind, 'bg': bg, 'nsigma': ns, 'data': [[int(v) for v in row] for row in data.tolist()],
            'mask': [[r, c] for r in range(h) for c in range(w) if mask[r, c]], 'out': outj}


def record_case(seed):
    """code -> spec: random larger image (plateaus, ties at the threshold, NaN, +-inf, 2-D threshold, mask)"""
    rng = random.Random(seed)
    kind = rng.choice(['detect'] * 6 + ['finder', 'threshold', 'threshold_est'])
    h, w = rng.randint(1, 9), rng.randint(1, 9)
    if kind == 'threshold_est':
        return record_threshold_est(seed, rng)
    if kind == 'threshold':
        from photutils.segmentation import detect_threshold
        bg = [[rng.randint(-5, 20) for _ in range(w)] for _ in range(h)]
        err = [[rng.randint(0, 7) for _ in range(w)] for _ in range(h)]
        ns = rng.choice([1, 2, 3, 5])
        data = np.zeros((h, w))
        scalar_bg = rng.random() < 0.3
        bga, era = (float(bg[0][0]) if scalar_bg else np.array(bg, float)), np.array(err, float)
        if seed % 2:      # the caller keeps using the same maps for several nsigma values: the recorded call is the second one
            detect_threshold(data, rng.choice([2, 4]), background=bga, error=era)
        out = detect_threshold(data, ns, background=bga, error=era)
        if scalar_bg:
            bg = [[bg[0][0]] * w for _ in range(h)]
        ok_int = np.all(out == np.round(out))
        return {'id': seed, 'kind': 'threshold', 'bg': bg, 'err': err, 'nsigma': ns,
                'out': [[int(v) for v in row] for row in np.round(out).tolist()] if ok_int and out.shape == (h, w) else [[-999999] * w] * h}
    nlev = rng.choice([2, 3, 5])
    if kind == 'detect' and rng.random() < 0.5:
        return record_structured(seed, rng)
    rows = [[rng.randrange(nlev) for _ in range(w)] for _ in range(h)]
    # plateaus
    for _ in range(rng.randint(0, 3)):
        r0, c0 = rng.randrange(h), rng.randrange(w)
        v = rng.randrange(nlev)
        for r in range(r0, min(h, r0 + rng.randint(1, 4))):
            for c in range(c0, min(w, c0 + rng.randint(1, 4))):
                rows[r][c] = v
    nan, mask = [], []
    for r in range(h):
        for c in range(w):
            x = rng.random()
            if x < 0.04:
                nan.append([r, c])
            elif x < 0.07:
                rows[r][c] = INF
            elif x < 0.09:
                rows[r][c] = -INF
            if rng.random() < 0.08:
                mask.append([r, c])
    if len(mask) == h * w:
        mask = mask[1:]
    use_mask = rng.random() < 0.6
    if not use_mask:
        mask = []
    if rng.random() < 0.5:
        t = rng.randrange(nlev)
        thr_rows = [[t] * w for _ in range(h)]
        thr_scalar = True
    else:
        thr_rows = [[rng.randrange(nlev) for _ in range(w)] for _ in range(h)]
        thr_scalar = False
    npix = rng.choice([1, 1, 2, 3, 5, max(1, h * w // 3), h * w])
    if rng.random() < 0.08:      # one component that fills the whole frame, with npixels equal to (or one more than) the number of pixels
        rows = [[nlev - 1] * w for _ in range(h)]
        thr_rows = [[0] * w for _ in range(h)]; thr_scalar = True
        mask = []; use_mask = False; nan = []
        npix = h * w + rng.choice([0, 0, 1])
    conn = rng.choice([4, 8])
    data = _to_float(rows, nan)
    m = None
    if use_mask:
        m = np.zeros((h, w), dtype=bool)
        for r, c in mask:
            m[r, c] = True
    thr = float(thr_rows[0][0]) if thr_scalar else np.array(thr_rows, float)
    neartie = kind == 'detect' and rng.random() < 0.25
    if neartie:
        # float32 image with a float64 threshold lying a hair below pixel values: those pixels ARE strictly above it.
        # In the model all values are doubled and the threshold is 2*t - 1 (any number strictly between t - 1/2 and t).
        data = data.astype(np.float32)
        thr = (np.float64(thr_rows[0][0]) - 1e-9) if thr_scalar else (np.array(thr_rows, dtype=np.float64) - 1e-9)
    if not neartie and not nan and rng.random() < 0.3 and all(0 <= v < 256 for r in rows for v in r):
        # an unsigned-integer image with an integer threshold: pixels BELOW the threshold must not wrap around to "above"
        dt = rng.choice([np.uint8, np.uint16, np.int16])
        data = data.astype(dt)
        thr = int(thr_rows[0][0]) if thr_scalar else np.array(thr_rows, dtype=rng.choice([dt, np.int64]))
    if kind == 'finder':
        from photutils.segmentation import SourceFinder
        from photutils.utils.exceptions import NoDetectionsWarning
        with warnings.catch_warnings(record=True) as wl:
            warnings.simplefilter('always')
            try:
                segm = SourceFinder(npixels=npix, connectivity=conn, deblend=False, progress_bar=False)(data, thr, mask=m)
                got = {'raised': False, 'none': segm is None, 'warned': any(issubclass(x.category, NoDetectionsWarning) for x in wl)}
                if segm is not None:
                    got.update(out=segm.data.tolist(), labels=[int(x) for x in segm.labels], slices=_slices_j(segm.slices), areas=[int(x) for x in segm.areas])
            except Exception as e:  # noqa
                got = {'raised': True, 'exc': repr(e)}
    else:
        got = call_detect(data, thr, npix, conn, m, LAYOUTS[seed % 4])
    if neartie:
        rows = [[(v * 2 if abs(v) < INF else v) for v in r] for r in rows]
        thr_rows = [[2 * v - 1 for v in r] for r in thr_rows]
    rec = {'id': seed, 'kind': kind, 'data': rows, 'thr': thr_rows, 'nan': nan, 'mask': mask, 'conn': conn, 'npix': npix,
           'raised': got['raised'], 'none': got.get('none', False), 'warned': got.get('warned', False),
           'out': got.get('out', [[0]]), 'labels': got.get('labels', []), 'slices': got.get('slices', []), 'areas': got.get('areas', [])}
    return rec


def run(ctx):
    q = ctx.quick
    ctx.rule = ('GEN: every image of the small grid over {0,1,2} x threshold kinds x bad-pixel kinds x npixels x connectivity, enumerated by TLC '
                'with the expected label map; non-trivial = at least 2 above-threshold components or a component removed by npixels; '
                'Trace: seeded random 1x1..9x9 images with plateaus/NaN/inf/masks/2-D thresholds validated by TLC')
    r = ctx.mc('Detect', 'MC_Detect_q.cfg' if q else 'MC_Detect_t.cfg', timeout=3000)
    gen = 'GEN_Detect_q.cfg' if q else 'GEN_Detect_t.cfg'
    cases = []
    for r in core.tlc_sharded(ctx, 'Detect', gen, 16, part=f'GEN:{gen}', threads=16, timeout=3000):
        cases += [rec for rec in r.records if rec.get('_tag') == 'GEN']
    res = core.pmap(replay_case, cases, chunksize=512)
    nontriv = 0
    for c, vs in zip(cases, res):
        for clause, sig, detail in vs:
            ctx.violation(clause, sig, detail)
        nl = c['attrs']['nlabels']
        if nl >= 2 or (not c['none'] and sum(c['attrs']['areas']) < sum(1 for row, trow in zip(c['data'], c['thr']) for v, t in zip(row, trow) if v > t) - len(c['bad'])):
            nontriv += 1
    ctx.evaluations += len(cases); ctx.traces += len(cases); ctx.nontrivial += nontriv; ctx.exhaustive = True
    if cases:
        c = cases[len(cases) // 3]
        ctx.sample({'kind': 'GEN case', **{k: c[k] for k in ('data', 'thrkind', 'badkind', 'bad', 'conn', 'npix', 'expect')}})
    n = 1500 if q else 20000
    recs = core.pmap(record_case, [ctx.seed * 7919 + i for i in range(n)], chunksize=32, on_raise='drop')
    ver = core.validate_batch(ctx, 'Trace_Detect', recs, 'Trace:Detect')
    seen = set()
    for rec in recs:
        v = ver[rec['id']]
        if not v['ok']:
            ctx.violation('trace:' + v['clause'], {'kind': rec['kind'], 'conn': rec.get('conn'), 'npix_gt1': rec.get('npix', 1) > 1,
                                                   'has_nan': bool(rec.get('nan')), 'has_mask': bool(rec.get('mask'))}, {'case': rec})
        else:
            ctx.traces += 1
        if not rec['kind'].startswith('threshold') and len(rec['labels']) >= 2:
            seen.add(json.dumps([rec['data'], rec['thr'], rec['nan'], rec['mask'], rec['conn'], rec['npix']]))
    ctx.evaluations += n; ctx.nontrivial += len(seen)
    ctx.sample({'kind': 'recorded call', **{k: recs[0].get(k) for k in ('kind', 'data', 'thr', 'nan', 'mask', 'conn', 'npix', 'out')}})
    # binding self-test: flip one output pixel / one area
    good = [r for r in recs if ver[r['id']]['ok'] and r['kind'] == 'detect' and not r['none']][:6]
    bad = []
    for k, r in enumerate(good):
        r2 = core.jcopy(r); r2['id'] = 10**9 + k
        if k % 2 == 0:
            r2['out'][0][0] = 0 if r2['out'][0][0] else 1
        else:
            r2['areas'][0] += 1
        bad.append(r2)
    if bad:
        vb = core.validate_batch(ctx, 'Trace_Detect', bad, 'SelfTest:Detect', shards=2)
        ctx.selftest('flipped output pixel / area in accepted detect_sources records', all(not v['ok'] for v in vb.values()))
    ctx.assumptions += ['+/-inf are represented by +/-1000000 in the model (all finite test values are < 10)',
                        'detect_threshold is decided for given background and error maps (pixel-wise formula) and for estimated noise/background on two-valued scenes where the sigma clipping removes nothing (exact mean/std of the unmasked pixels)']


def replay(ctx, rep):
    print(json.dumps(rep, indent=1, default=str)[:6000])
