"""C14 Peak and star finders return exactly the sources their contract selects.
spec/PeaksOps.tla + Peaks.tla (all small images x masks x borders x footprints, MC of the declarative reading, GEN replay into
find_peaks), Trace_Peaks.tla (random larger images incl. NaN / negative regions / 2-D thresholds / npeaks; star-finder result rows:
inclusive bounds, ids, finiteness, brightest, xycoords, separation, None rule)."""
import json, math, random, warnings
import numpy as np
from .. import core

S = 1024
FPS = {'box3': ('box', (3, 3)), 'box2': ('box', (2, 2)), 'box13': ('box', (1, 3)), 'box5': ('box', (5, 5)),
       'cross': ('fp', np.array([[0, 1, 0], [1, 1, 1], [0, 1, 0]], dtype=bool))}


# order-isomorphic embeddings of the integer lattice the specification works on: local maxima and threshold tests depend on the
# order of the values only, so the expected peak set is the same; near-ties (relative gaps of 1e-7), tiny amplitudes and single
# precision are where a tolerance-based comparison would differ from the contract
EMBS = {'id': (lambda v: np.asarray(v, dtype=float), lambda x: x),
        'near': (lambda v: 100.0 + np.asarray(v, dtype=float) * 1e-5, lambda x: (x - 100.0) / 1e-5),
        'tiny': (lambda v: np.asarray(v, dtype=float) * 1e-9, lambda x: x / 1e-9),
        'f32': (lambda v: (1.0 + np.asarray(v, dtype=np.float64) * 2.0 ** -20).astype(np.float32), lambda x: (float(x) - 1.0) * 2.0 ** 20)}
EMB_NAMES = ['id', 'near', 'tiny', 'f32']


def call_find_peaks(data, thr, fpk, mask, border, npeaks=np.inf, fp=None):
    from photutils.detection import find_peaks
    kw = {}
    if fp is not None:
        kw['footprint'] = fp
    else:
        kind, v = FPS[fpk]
        kw['box_size' if kind == 'box' else 'footprint'] = v
    with warnings.catch_warnings():
        warnings.simplefilter('ignore')
        t = find_peaks(data, thr, mask=mask, border_width=border if any(border) else None, npeaks=npeaks, **kw)
    if t is None:
        return None
    return [[int(y), int(x)] for x, y in zip(t['x_peak'], t['y_peak'])], [float(v) for v in t['peak_value']], [int(v) for v in t['id']]


def replay_case(c):
    import zlib
    emb = EMB_NAMES[zlib.crc32(json.dumps([c['data'], c['fp'], c['border']]).encode()) % 4]
    f = EMBS[emb][0]
    d = f(np.array(c['data'], dtype=float))
    m = None
    if c['mask']:
        m = np.zeros(d.shape, dtype=bool)
        for r, q in c['mask']:
            m[r, q] = True
    sig = {'fp': c['fp'], 'border': c['border'], 'masked': bool(c['mask']), 'thr': c['thr'], 'embedding': emb}
    try:
        got = call_find_peaks(d, float(f(c['thr'])), c['fp'], m, tuple(c['border']))
    except Exception as e:  # noqa
        return [('raises', sig, {'case': c, 'exc': repr(e)})]
    exp = [] if c['constant'] else c['peaks']
    if got is None:
        return [] if not exp else [('none_iff_no_peak', sig, {'case': c})]
    if sorted(got[0]) != sorted(exp):
        return [('peak_set_is_contract_set', sig, {'case': c, 'got': sorted(got[0])})]
    return []


def offsets_of(fp):
    cy, cx = fp.shape[0] // 2, fp.shape[1] // 2
    return [[int(r - cy), int(c - cx)] for r, c in zip(*np.nonzero(fp))]


def rec_peaks(seed):
    rng = random.Random(seed)
    h, w = rng.randint(3, 10), rng.randint(3, 10)
    lev = rng.choice([3, 5, 9])
    data = [[rng.randrange(lev) - (2 if rng.random() < 0.3 else 0) for _ in range(w)] for _ in range(h)]
    for _ in range(rng.randint(0, 2)):        # plateaus
        r0, c0, v = rng.randrange(h), rng.randrange(w), rng.randrange(lev)
        for r in range(r0, min(h, r0 + 2)):
            for c in range(c0, min(w, c0 + 3)):
                data[r][c] = v
    nan = [[r, c] for r in range(h) for c in range(w) if rng.random() < 0.04] if rng.random() < 0.4 else []
    mask = [[r, c] for r in range(h) for c in range(w) if rng.random() < 0.08] if rng.random() < 0.5 else []
    thr_scalar = rng.random() < 0.6
    t0 = rng.randrange(lev) - 1
    thr = [[t0] * w for _ in range(h)] if thr_scalar else [[rng.randrange(lev) - 1 for _ in range(w)] for _ in range(h)]
    if rng.random() < 0.5:
        sy, sx = rng.choice([1, 2, 3, 4, 5]), rng.choice([1, 2, 3, 5])
        fp = np.ones((sy, sx), dtype=bool); use_box = True
        offs = [[a, b] for a in range(-(sy // 2), sy - sy // 2) for b in range(-(sx // 2), sx - sx // 2)]
    else:
        sy, sx = rng.choice([1, 3, 5]), rng.choice([3, 5])
        fp = np.array([[rng.random() < 0.7 for _ in range(sx)] for _ in range(sy)], dtype=bool)
        fp[sy // 2, sx // 2] = True
        use_box = False
        offs = offsets_of(fp)
    border = [rng.choice([0, 0, 1, 2]), rng.choice([0, 0, 1, 2])]
    if 2 * border[0] >= h or 2 * border[1] >= w:
        border = [0, 0]
    npeaks = rng.choice([10**6, 10**6, 1, 2, 3])
    emb = EMB_NAMES[seed % 4]
    f, finv = EMBS[emb]
    d = f(np.array(data, dtype=float))
    for r, c in nan:
        d[r, c] = np.nan
    m = None
    if mask:
        m = np.zeros((h, w), dtype=bool)
        for r, c in mask:
            m[r, c] = True
    from photutils.detection import find_peaks
    with warnings.catch_warnings():
        warnings.simplefilter('ignore')
        kw = {'box_size': (sy, sx)} if use_box else {'footprint': fp}
        # refinement with a centroid function (centre of mass of the footprint window around each peak; odd windows, plain values)
        refine = emb == 'id' and sy % 2 == 1 and sx % 2 == 1 and rng.random() < 0.6
        if refine:
            from photutils.centroids import centroid_com
            kw['centroid_func'] = centroid_com
        t = find_peaks(d, float(f(t0)) if thr_scalar else f(np.array(thr, dtype=float)), mask=m, border_width=tuple(border) if any(border) else None,
                       npeaks=npeaks if npeaks < 10**6 else np.inf, **kw)
    out = [] if t is None else [[int(y), int(x)] for x, y in zip(t['x_peak'], t['y_peak'])]
    vals = [] if t is None else [int(round(float(finv(v)))) for v in t['peak_value']]
    ids = [] if t is None else [int(v) for v in t['id']]
    cen = []
    if refine and t is not None:
        for xc, yc in zip(t['x_centroid'], t['y_centroid']):
            ok = bool(np.isfinite(xc) and np.isfinite(yc))
            cen.append([int(round(float(xc) * S)) if ok else 0, int(round(float(yc) * S)) if ok else 0, not ok])
    return {'id': seed, 'kind': 'peaks', 'refine': bool(refine), 'cen': cen, 'embedding': emb, 'data': data, 'nan': nan, 'mask': mask, 'thr': thr, 'fp': offs, 'border': border, 'npeaks': npeaks,
            'none': t is None, 'out': out, 'values': vals, 'ids': ids}


def star_scene(rng, h=44, w=52):
    from photutils.psf import CircularGaussianPRF
    y, x = np.mgrid[:h, :w]
    m = CircularGaussianPRF(fwhm=3.0)
    data = np.zeros((h, w))
    n = rng.randint(3, 8)
    pos = []
    for k in range(n):
        px, py = rng.uniform(1, w - 2), rng.uniform(1, h - 2)         # also at the border
        if rng.random() < 0.3 and pos:                                  # close pair
            px, py = min(w - 2.0, pos[-1][0] + rng.uniform(2, 5)), min(h - 2.0, max(1.0, pos[-1][1] + rng.uniform(-2, 2)))
        fw = rng.choice([3.0, 3.0, 1.6, 5.0])
        data += m.evaluate(x, y, rng.uniform(80, 600), px, py, fw)
        pos.append((px, py))
    if rng.random() < 0.35:      # a bright source whose window is trimmed by the left / bottom edge of the frame
        ex, ey = (rng.uniform(0.2, 1.6), rng.uniform(8, 24)) if rng.random() < 0.5 else (rng.uniform(16, w - 16), rng.uniform(0.2, 1.6))
        if all((ex - a) ** 2 + (ey - b) ** 2 > 100 for a, b in pos):
            data += m.evaluate(x, y, rng.uniform(300, 600), ex, ey, 3.0)
            pos.append((ex, ey))
    data += np.random.default_rng(rng.randrange(10**6)).normal(0, 1.0, (h, w))
    data[30:40, 0:12] -= 6.0                                           # a negative region
    if rng.random() < 0.6:
        data[rng.randint(33, 36), rng.randint(4, 7)] = rng.uniform(40, 120)   # an isolated hot pixel whose whole neighbourhood is negative
    if rng.random() < 0.5:
        data[5:8, 20:23] += 300.0                                      # a sharp box (fails sharpness/roundness)
    return data, pos


def rec_star(seed):
    from photutils.detection import DAOStarFinder, IRAFStarFinder, StarFinder
    rng = random.Random(seed)
    data, pos = star_scene(rng)
    which = rng.choice(['dao', 'dao', 'iraf', 'star'])
    sharplo, sharphi = rng.choice([(0.2, 1.0), (0.4, 0.8), (0.55, 0.7)])
    roundlo, roundhi = rng.choice([(-1.0, 1.0), (-0.3, 0.3), (-0.1, 0.05)])
    brightest = rng.choice([None, None, 1, 2, 4])
    peakmax = rng.choice([None, None, 80.0, 200.0])
    excl = rng.random() < 0.5
    minsep = rng.choice([0.0, 0.0, 4.0, 7.0]) if which != 'star' else rng.choice([5.0, 3.0])
    use_xy = rng.random() < 0.25 and which != 'star'
    xy = np.array([[p[0] + rng.uniform(-0.4, 0.4), p[1] + rng.uniform(-0.4, 0.4)] for p in pos[:3]] + [[3.0, 35.0]]) if use_xy else None
    mask = None
    if rng.random() < 0.4:
        mask = np.zeros(data.shape, dtype=bool); mask[:, 40:] = True
    thr = rng.choice([5.0, 15.0, 400.0])
    if seed % 5 == 0:
        # a background-subtracted noise field measured at supplied positions: weak, ragged "sources" with negative pixels in the kernel
        data = np.random.default_rng(seed).normal(0.0, 1.0, data.shape)
        which = rng.choice(['dao', 'iraf'])
        use_xy = True
        xy = np.array([[rng.uniform(3, data.shape[1] - 4), rng.uniform(3, data.shape[0] - 4)] for _ in range(60)])
        sharplo, sharphi, roundlo, roundhi = 0.2, 1.0, -1.0, 1.0
        brightest = peakmax = None
        minsep = 0.0
        thr = rng.choice([0.3, 0.8])
        mask = None
    elif rng.random() < 0.25:
        # an over-subtracted frame: most sources have a non-positive pixel sum (flux), and `brightest` cuts among them
        data = data - rng.choice([12.0, 25.0, 60.0])
        brightest = rng.choice([3, 4, 6])
        peakmax = None
    out = []

    def mk(br):
        if which == 'dao':
            return DAOStarFinder(thr, 3.0, sharplo=sharplo, sharphi=sharphi, roundlo=roundlo, roundhi=roundhi, brightest=br, peakmax=peakmax,
                                 exclude_border=excl, min_separation=minsep, xycoords=xy)
        if which == 'iraf':
            return IRAFStarFinder(thr, 3.0, sharplo=sharplo, sharphi=sharphi, roundlo=max(roundlo, 0.0) if roundlo > -1 else 0.0, roundhi=max(roundhi, 0.2), brightest=br, peakmax=peakmax,
                                  exclude_border=excl, min_separation=minsep if minsep else None, xycoords=xy)
        y, x = np.mgrid[:7, :7]
        kern = np.exp(-0.5 * (((x - 3) / 1.3) ** 2 + ((y - 3) / 1.3) ** 2))
        return StarFinder(thr, kern, min_separation=minsep, exclude_border=excl, brightest=br, peakmax=peakmax)
    pm_expected = pm_got = -1
    with warnings.catch_warnings():
        warnings.simplefilter('ignore')
        if peakmax is not None:
            # completeness of the peakmax cut: the sources of the run without a peakmax whose REPORTED peak is <= peakmax are exactly the
            # sources of the run with it (both without `brightest`).  Every other scene puts peakmax just above the median reported peak
            # (reported peaks are sky-subtracted for IRAFStarFinder, so raw and reported peaks then lie on different sides of it)
            keep = peakmax
            peakmax = None
            ta = mk(None)(data, mask=mask)
            peakmax = keep
            pka = sorted(float(v) for v in (ta['peak'] if 'peak' in ta.colnames else ta['max_value'])) if ta is not None else []
            if pka and seed % 2 == 0:
                peakmax = math.floor(pka[len(pka) // 2] * 8) / 8 + 0.0625
            tb = mk(None)(data, mask=mask)
            pm_expected = sum(1 for v in pka if v <= peakmax)
            pm_got = len(tb) if tb is not None else 0
        f = mk(brightest)
        t = f(data, mask=mask)
        tall = mk(None)(data, mask=mask) if brightest else t

    def fk(v):
        v = float(v)
        return int(round(v * S)) if np.isfinite(v) else 0          # non-finite values are reported through the row's `finite` flag
    rows = []
    if t is not None:
        for r in t:
            cols = t.colnames
            sharp = float(r['sharpness']) if 'sharpness' in cols else 0.5
            r1 = float(r['roundness1']) if 'roundness1' in cols else (float(r['roundness']) if 'roundness' in cols else 0.0)
            r2 = float(r['roundness2']) if 'roundness2' in cols else r1
            pk = float(r['peak']) if 'peak' in cols else float(r['max_value'])
            fin = all(np.isfinite(float(r[cn])) for cn in cols if cn not in ('mag', 'daofind_mag', 'id'))
            rows.append({'id': int(r['id']), 'x': fk(r['xcentroid']), 'y': fk(r['ycentroid']), 'sharp': fk(sharp), 'round1': fk(r1), 'round2': fk(r2),
                         'peak': fk(pk) if np.isfinite(pk) else 0, 'flux': fk(r['flux']) if np.isfinite(float(r['flux'])) else 0, 'finite': bool(fin)})
    fl = sorted([r['flux'] for r in rows], reverse=True)
    allfl = sorted([fk(v) for v in tall['flux']], reverse=True) if tall is not None else []
    # peaks / supplied coordinates the centroids must belong to
    if use_xy:
        pk = [[fk(a), fk(b)] for a, b in xy]
        khx = khy = fk(3.1)          # 5x5 kernel around the nearest pixel of the supplied position: 2.5 + 0.5 (+ 0.1 slack)
    else:
        pk = None
        khx = khy = fk(4.6 if which != 'star' else 3.6)
    bounds_apply = which != 'star'
    iraf = which == 'iraf'
    rec = {'id': seed, 'kind': 'star', 'finder': which, 'none': t is None, 'rows': rows,
           'sharplo': fk(sharplo) - 1 if bounds_apply else -10**6, 'sharphi': fk(sharphi) + 1 if bounds_apply else 10**6,
           'roundlo': (fk(max(roundlo, 0.0) if (iraf and roundlo > -1) else (0.0 if iraf else roundlo)) - 1) if bounds_apply else -10**6,
           'roundhi': (fk(max(roundhi, 0.2) if iraf else roundhi) + 1) if bounds_apply else 10**6,
           'peakmax': fk(peakmax) + 1 if peakmax is not None else -1, 'pm_expected': pm_expected, 'pm_got': pm_got, 'brightest': brightest or 0, 'fluxes_sorted': fl, 'all_fluxes_sorted': allfl,
           'khx': khx, 'khy': khy, 'minsep2': int((minsep * S / 8) ** 2) if (minsep and not use_xy) else 0, 'septol': int(2 * (minsep * S / 8) * (1.5 * S / 8)) if minsep else 0}
    # the detected peaks of the convolved image are not public; use the centroids of the unrestricted, unfiltered run as anchors instead:
    # with xycoords the anchors are the supplied coordinates (the statement: exactly those positions)
    if pk is None:
        with warnings.catch_warnings():
            warnings.simplefilter('ignore')
            loose = (DAOStarFinder(thr, 3.0, sharplo=-10, sharphi=10, roundlo=-10, roundhi=10, exclude_border=excl, min_separation=minsep)(data, mask=mask)
                     if which == 'dao' else None)
        pk = [[fk(a), fk(b)] for a, b in zip(loose['xcentroid'], loose['ycentroid'])] if loose is not None else [[r['x'], r['y']] for r in rows]
    rec['peaks'] = pk if pk else [[0, 0]]
    # isolated true sources (no other source within 9 px): a row that belongs to one (within 3 px) is centred on it (within 1.2 px; the
    # centre of mass of a window trimmed by the frame edge is biased by a fraction of a pixel only); every centroid lies on the frame
    iso_src = [p for p in pos if all(q is p or (q[0] - p[0]) ** 2 + (q[1] - p[1]) ** 2 > 81 for q in pos) and not (p[1] >= 28 and p[0] < 14) and not (p[1] <= 14 and 13 <= p[0] <= 30)]      # (not next to the planted sharp box at x 20..22, y 5..7, which is detected as a source of its own)
    rec['w'], rec['h'] = fk(data.shape[1] - 0.5), fk(data.shape[0] - 0.5)
    rec['truth'] = [[fk(a), fk(b)] for a, b in iso_src] if (not use_xy and seed % 5 != 0) else []
    out.append(rec)
    # relation: tightening the sharpness bound removes exactly the rows violating it (DAO only, no brightest)
    if which == 'dao' and not brightest and t is not None:
        with warnings.catch_warnings():
            warnings.simplefilter('ignore')
            lo2 = sharplo + 0.15
            t2 = DAOStarFinder(thr, 3.0, sharplo=lo2, sharphi=sharphi, roundlo=roundlo, roundhi=roundhi, peakmax=peakmax, exclude_border=excl,
                               min_separation=minsep, xycoords=xy)(data, mask=mask)
        a = sorted([fk(r['xcentroid']), fk(r['ycentroid'])] for r in t if float(r['sharpness']) >= lo2)
        b = sorted([fk(r['xcentroid']), fk(r['ycentroid'])] for r in t2) if t2 is not None else []
        out.append({'id': 100000000 + seed, 'kind': 'pair', 'rel': 'tightening_a_bound_removes_exactly_the_violating_rows', 'a': a, 'b': b})
    # relation: relaxing min_separation to an explicit 0 never removes a source (IRAF / DAO)
    if which in ('iraf', 'dao') and not use_xy and not brightest and seed % 3 == 0:
        from photutils.detection import DAOStarFinder as _D, IRAFStarFinder as _I
        mkk = lambda ms: (_I(thr, 3.0, roundlo=0.0, roundhi=1.0, sharplo=0.2, sharphi=2.0, exclude_border=excl, min_separation=ms) if which == 'iraf'  # noqa
                          else _D(thr, 3.0, exclude_border=excl, min_separation=ms))
        with warnings.catch_warnings():
            warnings.simplefilter('ignore')
            t4, t0 = mkk(4.0)(data, mask=mask), mkk(0)(data, mask=mask)
        p4 = sorted([fk(r['xcentroid']), fk(r['ycentroid'])] for r in t4) if t4 is not None else []
        p0 = [[fk(r['xcentroid']), fk(r['ycentroid'])] for r in t0] if t0 is not None else []
        out.append({'id': 400000000 + seed, 'kind': 'pair', 'rel': 'an_explicit_zero_min_separation_removes_nothing', 'a': [p for p in p4 if p in p0], 'b': p4})
    # relation: the same pixel values stored in another dtype (raw detector frames are unsigned) give the same table
    if seed % 2:
        di = np.clip(np.rint(data), 0, None)
        dt = [np.uint16, np.int32, np.uint32, np.int16][(seed // 2) % 4]
        with warnings.catch_warnings():
            warnings.simplefilter('ignore')
            ta, tb = mk(brightest)(di, mask=mask), mk(brightest)(di.astype(dt), mask=mask)
        pr = lambda tt: sorted([fk(r['xcentroid']) // 4, fk(r['ycentroid']) // 4, fk(r['flux']) // 64] for r in tt) if tt is not None else []  # noqa
        out.append({'id': 300000000 + seed, 'kind': 'pair', 'rel': 'same_pixel_values_in_another_dtype_give_the_same_sources', 'a': pr(ta), 'b': pr(tb)})
    return out


def rec_iraf_default(seed):
    """IRAFStarFinder's default minimum separation is documented as max(2, int(fwhm * minsep_fwhm + 0.5)); the default run must equal
    the run with that value given explicitly (scenes hold a pair whose separation lies between the two candidate roundings)"""
    from photutils.detection import IRAFStarFinder
    from photutils.psf import CircularGaussianPRF
    rng = random.Random(seed)
    fwhm, mf = rng.choice([(5.0, 2.5), (3.5, 3.0), (3.0, 2.5), (4.2, 2.5), (2.6, 2.5)])
    doc = max(2, int(fwhm * mf + 0.5))
    h = w = 70
    y, x = np.mgrid[:h, :w]
    m = CircularGaussianPRF(fwhm=fwhm)
    ang = rng.uniform(0, 2 * np.pi)
    dist = (doc - 1) + rng.uniform(0.2, 0.9)          # closer than the documented separation, farther than one pixel less
    p1 = (30.0, 32.0); p2 = (30.0 + dist * np.cos(ang), 32.0 + dist * np.sin(ang))
    data = m.evaluate(x, y, 900.0, p1[0], p1[1], fwhm) + m.evaluate(x, y, 700.0, p2[0], p2[1], fwhm) + m.evaluate(x, y, 500.0, 58.0, 10.0, fwhm)
    data += np.random.default_rng(seed).normal(0, 0.3, (h, w))
    with warnings.catch_warnings():
        warnings.simplefilter('ignore')
        a = IRAFStarFinder(8.0, fwhm, minsep_fwhm=mf, roundhi=1.0)(data)
        b = IRAFStarFinder(8.0, fwhm, minsep_fwhm=mf, roundhi=1.0, min_separation=doc)(data)
    pr = lambda t: sorted([int(round(float(r['xcentroid']) * 64)), int(round(float(r['ycentroid']) * 64))] for r in t) if t is not None else []  # noqa
    return [{'id': 200000000 + seed, 'kind': 'pair', 'rel': 'default_min_separation_is_documented_value', 'a': pr(a), 'b': pr(b)}]


def rec_any(seed):
    if seed % 12 == 0:
        return rec_iraf_default(seed)
    return [rec_peaks(seed)] if seed % 3 else rec_star(seed)


def run(ctx):
    q = ctx.quick
    ctx.rule = ('GEN: every 2x3 (thorough: also 3x3) image over {0,1,2} x footprint kinds x border widths (incl. asymmetric) x single masked pixel x '
                'thresholds with the contract peak set from TLC; Trace: random 3x3..10x10 images (NaN, plateaus, negative regions, 2-D thresholds, random '
                'footprints, npeaks) and star-finder tables on rendered scenes; non-trivial = >= 2 peaks or a peak removed by mask/border/npeaks')
    ctx.mc('Peaks', 'MC_Peaks.cfg', timeout=1200)
    if not q:
        ctx.mc('Peaks', 'MC_Peaks_t.cfg', timeout=3000)
    cases = []
    for cfgn in (['GEN_Peaks.cfg'] if q else ['GEN_Peaks.cfg', 'GEN_Peaks_t.cfg']):
        for r in core.tlc_sharded(ctx, 'Peaks', cfgn, 16, part=f'GEN:{cfgn}', threads=16, timeout=3000):
            cases += [rec for rec in r.records if rec.get('_tag') == 'GEN']
    if q:
        cases = cases[::2]
    for vs in core.pmap(replay_case, cases, chunksize=512):
        for v in vs:
            ctx.violation(*v)
    ctx.evaluations += len(cases); ctx.traces += len(cases); ctx.exhaustive = not q
    ctx.nontrivial += sum(1 for c in cases if len(c['peaks']) >= 2 or c['mask'] or any(c['border']))
    ctx.sample({'kind': 'GEN find_peaks case', **{k: cases[len(cases) // 2][k] for k in ('data', 'fp', 'border', 'mask', 'thr', 'peaks')}})
    n = 1200 if q else 15000
    recs = [r for rs in core.pmap(rec_any, [ctx.seed * 22695 + i for i in range(n)], chunksize=8) for r in rs]
    ver = core.validate_batch(ctx, 'Trace_Peaks', recs, 'Trace:Peaks')
    for r in recs:
        v = ver[r['id']]
        if not v['ok']:
            ctx.violation(v['clause'], {'kind': r['kind'], 'finder': r.get('finder'), 'rel': r.get('rel'), 'border': r.get('border'), 'npeaks_limited': r.get('npeaks', 10**6) < 10**6,
                                        'has_nan': bool(r.get('nan'))}, {'case': r})
        else:
            ctx.traces += 1
    ctx.evaluations += len(recs); ctx.nontrivial += sum(1 for r in recs if r['kind'] != 'peaks' or len(r['out']) >= 2)
    ex = next(r for r in recs if r['kind'] == 'star' and r['rows'])
    ctx.sample({'kind': 'star finder rows', 'finder': ex['finder'], 'rows': ex['rows'][:2], 'brightest': ex['brightest']})
    good = [r for r in recs if ver[r['id']]['ok'] and r['kind'] == 'peaks' and len(r['out']) >= 1][:4]
    bad = []
    for k, r in enumerate(good):
        r2 = core.jcopy(r); r2['id'] = 10**9 + k
        r2['out'][0] = [(r2['out'][0][0] + 1) % len(r2['data']), r2['out'][0][1]]
        bad.append(r2)
    if bad:
        vb = core.validate_batch(ctx, 'Trace_Peaks', bad, 'SelfTest:Peaks', shards=2)
        rej = [not v['ok'] for v in vb.values()]
        ctx.selftest('moved a returned peak by one row', sum(rej) >= len(rej) - 1, f'{sum(rej)}/{len(rej)}')
    ctx.assumptions += ['the numerical definitions of sharpness / roundness are not re-derived; rows are checked against the configured bounds',
                        '`mag` columns of rows with non-positive flux are don\'t-cares', 'equal peak values competing for npeaks are ties (any top subset accepted)']


def replay(ctx, rep):
    print(json.dumps(rep, indent=1, default=str)[:6000])
