"""C08 Indexing a catalog commutes with evaluating its properties.
spec/LazyCatalog.tla: objects P / C=P[idx] / G=C[idx]; Eval, Index, AddExtra, RemoveExtra; invariants Commutes and Independent
(the pinned shared-registry design is rejected by TLC).  Every generated history is replayed on real SourceCatalog (with and
without detection catalog) and ApertureStats objects; after every step every public property of every live object is compared,
per source, with a fresh parent's value for that source id, and the extra-property registries with the spec's."""
import json, warnings
import numpy as np
from .. import core
from ..canon import canon

_SC = {}


def scene():
    if 'scene' in _SC:
        return _SC['scene']
    from photutils.segmentation import detect_sources
    y, x = np.mgrid[:40, :50]
    data = np.zeros((40, 50))
    pos = [(10, 9), (25, 12), (38, 27), (14, 30)]
    for k, (px, py) in enumerate(pos):
        if k == 2:
            continue
        data += (50 + 20 * k) * np.exp(-0.5 * (((x - px) / 2.0) ** 2 + ((y - py) / (1.5 + 0.3 * k)) ** 2))
    # the third source is a one-pixel-high streak: fits that need a 3 x 3 neighbourhood (quadratic centroid) have to fall back for it, and
    # what they fall back to is a per-source matter
    data[27, 34:43] += np.array([30, 45, 60, 80, 95, 80, 60, 45, 30.0])
    data += np.random.default_rng(0).normal(0, 0.3, data.shape)
    with warnings.catch_warnings():
        warnings.simplefilter('ignore')
        segm = detect_sources(data, 3.0, 5)
    assert segm.nlabels == 4
    _SC['scene'] = (data, segm, pos)
    return _SC['scene']


def make(kind):
    from astropy.wcs import WCS
    from photutils.aperture import ApertureStats, CircularAperture
    from photutils.segmentation import SourceCatalog
    data, segm, pos = scene()
    err = np.ones_like(data)
    if kind == 'apstats_sky':
        # sky apertures on a wide-field image (0.2 deg / pixel TAN: the pixel scale varies across the frame), converted with the WCS
        import astropy.units as u
        from photutils.aperture import SkyCircularAperture
        w2 = WCS(naxis=2); w2.wcs.crpix = [5, 4]; w2.wcs.cdelt = [-0.2, 0.2]; w2.wcs.crval = [50.0, 10.0]; w2.wcs.ctype = ['RA---TAN', 'DEC--TAN']
        sky = w2.pixel_to_world([p[0] for p in pos], [p[1] for p in pos])
        return ApertureStats(data, SkyCircularAperture(sky, 0.8 * u.deg), error=err, wcs=w2, local_bkg=np.array([0.1, 0.2, 0.0, 0.3]))
    if kind == 'apstats':
        # the last aperture is degenerate (a mask leaves one row of it): its covariance gets the thin-source regularisation, which
        # must stay a per-source matter
        m = np.zeros(data.shape, dtype=bool)
        px, py = pos[3]
        m[py - 5:py + 6, px - 5:px + 6] = True
        m[py, px - 5:px + 6] = False
        return ApertureStats(data, CircularAperture(pos, 4.0), error=err, mask=m, local_bkg=np.array([0.1, 0.2, 0.0, 0.3]))
    w = WCS(naxis=2); w.wcs.crpix = [25, 20]; w.wcs.cdelt = [-1e-4, 1e-4]; w.wcs.crval = [10.0, 20.0]; w.wcs.ctype = ['RA---TAN', 'DEC--TAN']
    kw = dict(error=err, background=np.full_like(data, 0.1), wcs=w, localbkg_width=4)
    if kind == 'srccat_det':
        det = SourceCatalog(data + 0.5, segm, **kw)
        # the measurement image is over-subtracted (negative sky around the sources): the curve of growth turns over, so that the root
        # bracket of fluxfrac_radius has to be narrowed for large flux fractions
        return SourceCatalog(data - 1.5, segm, detection_cat=det, **kw)
    # a separately smoothed detection image, and flagged (NaN) pixels of the measurement image inside two segments: the pixel masks of the
    # flux-like and of the moment-like properties differ, whichever is read first
    from scipy.ndimage import gaussian_filter
    conv = gaussian_filter(data, 1.0)
    d2 = data.copy()
    d2[pos[1][1], pos[1][0] + 1] = np.nan; d2[pos[3][1] - 1, pos[3][0]] = np.nan
    return SourceCatalog(d2, segm, convolved_data=conv, **kw)


def props_of(obj):
    # object-level (not per-source) values are not subject to the commutation statement
    return [p for p in obj.properties if p not in ('isscalar', 'n_apertures', 'nlabels')]


def per_source(v, n, isscalar):
    """split a property value into per-source canonical leaves"""
    import astropy.units as u
    from astropy.coordinates import SkyCoord
    if isscalar:
        return [canon(v)]
    if isinstance(v, SkyCoord):
        return [canon(v[i]) for i in range(n)]
    if isinstance(v, u.Quantity):
        return [canon(v[i]) for i in range(n)]
    if isinstance(v, np.ndarray):
        return [canon(v[i]) for i in range(n)]
    if isinstance(v, (list, tuple)):
        if len(v) != n:
            return [('badlen', len(v), n)] * n
        return [canon(x) for x in v]
    return [canon(v)] * n


def reference(kind):
    key = 'ref_' + kind
    if key not in _SC:
        with warnings.catch_warnings():
            warnings.simplefilter('ignore')
            par = make(kind)
            ref = {}
            for p in props_of(par):
                try:
                    ref[p] = per_source(getattr(par, p), 4, False)
                except Exception as e:  # noqa
                    ref[p] = 'raise:' + type(e).__name__
        _SC[key] = ref
    return _SC[key]


KIND_SPLIT = {'arr': 0, 'list': 1, 'private': 2}


def kind_props(obj, k):
    ps = props_of(obj)
    if k == 'scalar':
        return ['isscalar', 'nlabels' if hasattr(obj, 'nlabels') else 'n_apertures']
    return ps[KIND_SPLIT[k]::3]


def index_obj(obj, form, ids, objkind):
    n = len(ids)
    if form == 'int0':
        return obj[0]
    if form == 'intlast':
        return obj[-1]
    if form == 'slice02':
        return obj[0:2]
    if form == 'slice12':
        return obj[1:2]
    if form == 'stride2':
        return obj[::2]
    if form == 'rev':
        return obj[::-1]
    if form == 'list20':
        return obj[[2, 0]] if n >= 3 else obj[[0]]
    if form == 'bool':
        return obj[np.array([i % 2 == 1 for i in ids])]
    lab = (lambda o: [int(x) for x in np.atleast_1d(o.labels)]) if not objkind.startswith('apstats') else (lambda o: [int(x) for x in np.atleast_1d(o.ids)])
    if form == 'getlabel':
        return obj.get_label(lab(obj)[-1]) if not objkind.startswith('apstats') else obj.get_id(lab(obj)[-1])
    if form == 'getlabels':
        sel = [lab(obj)[1], lab(obj)[0]] if n >= 2 else lab(obj)
        return obj.get_labels(sel) if not objkind.startswith('apstats') else obj.get_ids(sel)
    raise core.Machinery(form)


def check_obj(name, obj, ids, isscalar, ref, sig, out, hist_ops):
    n = len(ids)
    for p, refrows in ref.items():
        try:
            v = getattr(obj, p)
            if p == 'labels' and isscalar:      # documented: `labels` is always an array, `label` is the scalar form
                v = np.atleast_1d(v)[0]
            got = per_source(v, n, isscalar)
        except Exception as e:  # noqa
            got = 'raise:' + type(e).__name__
        exp = refrows if isinstance(refrows, str) else [refrows[i - 1] for i in ids]
        if got != exp:
            out.append(('commutes', dict(sig, prop=p, on=name, scalar=isscalar), {'history': hist_ops, 'ids': ids,
                                                                                 'got': str(got)[:300], 'expected': str(exp)[:300]}))


def replay(args):
    objkind, hist = args
    warnings.simplefilter('ignore')
    ref = reference(objkind)
    objs = {'P': make(objkind)}
    out = []
    ops = []
    extra_val = {}
    for step in hist:
        op, o, arg, post = step['op'], step['obj'], step['arg'], step['post']
        ops.append([op, o, arg])
        sig = {'cat': objkind, 'op': op, 'arg': arg}
        try:
            if op == 'eval':
                for p in kind_props(objs[o], arg):
                    try:
                        getattr(objs[o], p)
                    except Exception:  # noqa (reported by check_obj)
                        pass
            elif op == 'index':
                parent_ids = [i for i in (objs[o]._verif_ids)] if hasattr(objs[o], '_verif_ids') else [1, 2, 3, 4]
                child = index_obj(objs[o], arg, parent_ids, objkind)
                objs['C' if o == 'P' else 'G'] = child
                if o == 'P':
                    objs.pop('G', None)          # a new slice of the parent replaces the old one and what was built on it
            elif op == 'get_absent':
                ob = objs[o]
                try:
                    r = ob.get_label(int(arg)) if not objkind.startswith('apstats') else ob.get_id(int(arg))
                    got = [int(x) for x in np.atleast_1d(r.labels if not objkind.startswith('apstats') else r.ids)]
                    out.append(('get_label_selects_by_label', dict(sig, arg='absent'), {'history': ops, 'requested': int(arg), 'object_ids': post['ids'][o], 'returned': got}))
                except Exception:  # noqa  (any refusal is fine: the statement only forbids returning another source)
                    pass
            elif op == 'add_extra':
                ob = objs[o]
                n = len(post['ids'][o])
                if arg == 'circ':
                    ob.circular_photometry(3.0, name='circ')
                    if not objkind.startswith('apstats'):       # method calls without a name register nothing - and must leave nothing behind
                        ob.fluxfrac_radius(1.0); ob.fluxfrac_radius(0.9)
                elif arg == 'kron':
                    ob.kron_photometry((2.5, 6.0), name='kron2')        # a larger minimum radius than the catalog's own Kron parameters
                else:
                    val = np.arange(n, dtype=float) + 100.0 if not post['scalar'][o] else 100.0
                    ob.add_extra_property(arg, val)
            elif op == 'remove_extra':
                ob = objs[o]
                if arg in ('circ', 'kron'):
                    nm2 = 'kron2' if arg == 'kron' else arg
                    ob.remove_extra_properties([nm2 + '_flux', nm2 + '_fluxerr'])
                else:
                    ob.remove_extra_property(arg)
        except Exception as e:  # noqa
            out.append(('operation_raises', sig, {'history': ops, 'exc': repr(e)}))
            break
        for name, ob in objs.items():
            ob._verif_ids = post['ids'][name]
        # registries (Independent) - SourceCatalog only
        if not objkind.startswith('apstats'):
            for name, ob in objs.items():
                exp = []
                for nm in post['reg'][name]:
                    exp += [('kron2' if nm == 'kron' else nm) + '_flux', ('kron2' if nm == 'kron' else nm) + '_fluxerr'] if nm in ('circ', 'kron') else [nm]
                got = list(ob.extra_properties)
                if got != exp:
                    out.append(('independent_extra_registry', dict(sig, on=name), {'history': ops, 'got': got, 'expected': exp}))
                try:
                    ob.to_table()
                    if got:
                        ob.to_table(columns=got)
                except Exception as e:  # noqa
                    out.append(('to_table_raises', dict(sig, on=name), {'history': ops, 'exc': repr(e)}))
        if op in ('index',) or step is hist[-1]:
            for name, ob in objs.items():
                if name == 'P' and op == 'index' and step is not hist[-1]:
                    continue
                check_obj(name, ob, post['ids'][name], post['scalar'][name], ref, sig, out, ops)
    return out


def run(ctx):
    q = ctx.quick
    ctx.rule = ('every history of LazyCatalog.tla of the configured depth containing at least one Index (or extra-property operation), replayed on '
                'SourceCatalog (with/without detection catalog) and ApertureStats; non-trivial = some property kind evaluated before an Index; '
                'all public properties compared per source after every Index and at the end')
    r = ctx.mc('LazyCatalog', 'MC_LazyCatalog.cfg', workers=16, coverage=True)
    ctx.need_coverage('LazyCatalog', r, ['Eval', 'Index', 'AddExtra', 'RemoveExtra', 'GetAbsent'])
    bad = ctx.mc('LazyCatalog', 'MC_LazyCatalog_pinned.cfg', workers=2, expect_hold=False, check_ok=False)
    if 'Independent' not in bad.violated:
        raise core.Machinery('vacuity guard: shared-registry variant not rejected')
    g = ctx.tlc('LazyCatalog', core.make_cfg(ctx, 'GEN_LazyCatalog.cfg', MaxDepth=(3 if q else 4), ExtraNames='{"e1", "circ", "kron"}'), part='GEN:LazyCatalog', workers=1, timeout=1800)
    hists = [rec['v'] for rec in g.records if rec.get('_tag') == 'GEN']
    hists = [h for h in hists if any(s['op'] != 'eval' for s in h)]
    if not q:
        hists = hists[::3]          # every third depth-4 history (still all depth-3 prefixes are covered on the way)
    # histories that index the parent a second time: every third one of them
    re = [h for h in hists if sum(1 for st in h if st['op'] == 'index' and st['obj'] == 'P') >= 2]
    keep = {id(h) for h in re[::3]}
    hists = [h for h in hists if sum(1 for st in h if st['op'] == 'index' and st['obj'] == 'P') < 2 or id(h) in keep]
    jobs = []
    for h in hists:
        has_extra = any(s['op'] in ('add_extra', 'remove_extra') for s in h)
        jobs.append(('srccat', h))
        if has_extra and len(jobs) % 2 == 0:
            jobs.append(('srccat_det', h))        # photometry methods on the over-subtracted catalog (root brackets that have to be narrowed)
        if not has_extra:
            jobs.append(('apstats', h))
            if any(s['op'] == 'index' for s in h) and len(jobs) % 3 == 0:
                jobs.append(('apstats_sky', h))
            if any(s['op'] == 'index' for s in h) and len(jobs) % 5 == 0:
                jobs.append(('srccat_det', h))
    res = core.pmap(replay, jobs, chunksize=4)
    # binding self-test: a history whose recorded child ids are reversed must be reported by the replay
    pj = next((j for j in jobs if any(s['op'] == 'index' and len(s['post']['ids']['C']) >= 2 for s in j[1])), None)
    if pj is not None:
        hb = core.jcopy(pj[1])
        for st in hb:
            if len(st['post']['ids'].get('C', [])) >= 2:
                st['post']['ids']['C'] = st['post']['ids']['C'][::-1]
        ctx.selftest('recorded ids of the sliced object reversed', any(v[0] == 'commutes' for v in replay((pj[0], hb))))
    for vs in res:
        for v in vs:
            ctx.violation(*v)
    ctx.evaluations += len(jobs); ctx.traces += len(jobs); ctx.exhaustive = q
    ctx.nontrivial += len({json.dumps([j[0], [[s['op'], s['obj'], s['arg']] for s in j[1]]]) for j in jobs
                           if any(s['op'] == 'eval' for s in j[1]) and any(s['op'] == 'index' for s in j[1])})
    ctx.sample({'kind': 'catalog history', 'catalog': jobs[-1][0], 'history': [[s['op'], s['obj'], s['arg']] for s in jobs[-1][1]]})
    ctx.assumptions += ['reference per-source values come from one fresh parent catalog per kind', 'plotting helpers and meta timestamps are not compared']


def replay_file(ctx, rep):
    print(json.dumps(rep, indent=1, default=str)[:6000])



