"""C19 Radial profiles and curves of growth are consistent with aperture photometry.
spec/ProfilesOps.tla (exact 'center' sums on integer images), Profiles.tla (lattice case enumerator, MC of the declarative
consequences), Trace_Profiles.tla (recorded profiles vs recorded direct aperture photometry for every method, EE inverses),
ProfileNorm.tla (normalize/unnormalize interleavings, shared with C09)."""
import json, random, warnings
import numpy as np
from .. import core

S = 65536


def fx(v, s=S):
    v = np.asarray(v, dtype=float)
    return [int(round(float(x) * s)) if np.isfinite(x) else 0 for x in np.atleast_1d(v)]


def _build(data, bad, as_mask):
    d = np.array(data, dtype=float)
    mask = None
    if bad:
        if as_mask:
            mask = np.zeros(d.shape, dtype=bool)
            for r, c in bad:
                mask[r, c] = True
        else:
            for r, c in bad:
                d[r, c] = np.nan
    return d, mask


def replay_case(args):
    """spec -> code: TLC-enumerated (image, centre, radii) with expected exact sums ('center' method)"""
    idx, c = args
    from photutils.profiles import CurveOfGrowth, RadialProfile
    warnings.simplefilter('ignore')
    d, mask = _build(c['data'], c['bad'], idx % 2 == 0)
    err = np.array(c['err'], dtype=float)
    xy = (c['cx'] / 4.0, c['cy'] / 4.0)
    radii = [r / 4.0 for r in c['radii']]
    sig = {'img': c['img'], 'radii': c['radii'], 'bad_as': 'mask' if idx % 2 == 0 else 'nan', 'tie': c['tie']}
    out = []
    try:
        rcog = [r for r in radii if r > 0]
        cog = CurveOfGrowth(d, xy, rcog, error=err, mask=mask, method='center')
        off = len(radii) - len(rcog)
        for k in range(len(rcog)):
            got = (float(cog.profile[k]), float(cog.profile_error[k]) ** 2, float(cog.area[k]))
            ok = False
            if c['cog'][k + off]['nan']:
                ok = bool(np.isnan(got[0]))
            for key in (('cog', 'cog_closed') if not c['cog'][k + off]['nan'] else ()):
                e = c[key][k + off]
                if got[0] == e['flux'] and abs(got[1] - e['err2']) <= 1e-9 * max(1, e['err2']) and got[2] == e['area']:
                    ok = True
            if not ok:
                out.append(('cog_is_sum_over_unmasked_pixels_inside', sig, {'case': c, 'k': k, 'got': got}))
                break
        if not c['tie']:
            rp = RadialProfile(d, xy, radii, error=err, mask=mask, method='center')
            for k, e in enumerate(c['rp']):
                if e['nan']:
                    continue
                a = float(rp.area[k])
                if a != e['darea']:
                    out.append(('rp_area_is_area_difference', sig, {'case': c, 'k': k, 'got': a})); break
                if e['darea'] > 0:
                    p, pe = float(rp.profile[k]), float(rp.profile_error[k])
                    if abs(p * a - e['dflux']) > 1e-9 * max(1, abs(e['dflux'])) or abs((pe * a) ** 2 - e['derr2']) > 1e-8 * max(1, e['derr2']):
                        out.append(('rp_is_difference_of_sums', sig, {'case': c, 'k': k, 'got': [p, pe]})); break
    except Exception as ex:  # noqa
        out.append(('raises', sig, {'case': c, 'exc': repr(ex)}))
    return out


def record_case(seed):
    """code -> spec: random scene, any method; profile arrays and direct aperture photometry are both recorded"""
    from photutils.aperture import CircularAperture
    from photutils.profiles import CurveOfGrowth, RadialProfile
    warnings.simplefilter('ignore')
    rng = random.Random(seed)
    kind = rng.choice(['center', 'pair', 'pair'])
    h, w = rng.randint(5, 13), rng.randint(5, 13)
    mode = rng.choice(['random', 'constant', 'nonneg'])
    if mode == 'constant':
        k = rng.randint(0, 6)
        data = [[k] * w for _ in range(h)]
    elif mode == 'nonneg':
        data = [[rng.randint(0, 7) for _ in range(w)] for _ in range(h)]
    else:
        data = [[rng.randint(-4, 7) for _ in range(w)] for _ in range(h)]
    err = [[rng.randint(1, 3) for _ in range(w)] for _ in range(h)]
    bad = [[r, c] for r in range(h) for c in range(w) if rng.random() < 0.06] if mode != 'constant' or rng.random() < 0.5 else []
    as_mask = rng.random() < 0.5
    d, mask = _build(data, bad, as_mask)
    if mask is not None and rng.random() < 0.3 and bad:
        d[bad[0][0], bad[0][1]] = np.inf       # masked AND non-finite
    if kind != 'center' and seed % 5 == 2 and np.all(np.isfinite(d)):
        # the image stored in an integer dtype (raw counts; multiplied so that sums of fractional weights differ visibly from integers)
        dtc = [np.int32, np.uint8, np.int16][seed % 3] if mode != 'random' else np.int32
        d = (d * 3).astype(dtc)
        data = [[v * 3 for v in row] for row in data]
    cx4, cy4 = rng.randint(-8, 4 * w + 8), rng.randint(-8, 4 * h + 8)
    nr = rng.randint(2, 5)
    r4 = sorted(rng.sample(range(0 if rng.random() < 0.3 else 1, 25), nr))
    if r4[0] == 0 and len(r4) < 3:
        r4 = r4 + [r4[-1] + 3]
    if kind == 'center':
        method, sub = 'center', 1
    else:
        method = rng.choice(['exact', 'subpixel', 'center'])
        sub = rng.choice([1, 2, 3, 5, 7])
    has_err = rng.random() < 0.8
    e = np.array(err, dtype=float) if has_err else None
    # non-finite error values at pixels whose data are finite: excluded like masked pixels (with or without an input mask)
    ebad = []
    if has_err and rng.random() < 0.3:
        for _ in range(rng.randint(1, 2)):
            r, c = rng.randrange(h), rng.randrange(w)
            if [r, c] not in bad and [r, c] not in ebad:
                ebad.append([r, c])
                e[r, c] = [np.nan, np.inf][(r + c) % 2]
    if has_err and not ebad and kind != 'center' and seed % 4 == 0:
        # a read-noise map stored in a small unsigned-integer dtype (values whose squares exceed its range)
        e = (np.array(err, dtype=float) * 12.0).astype(np.uint8)
    xy = (cx4 / 4.0, cy4 / 4.0)
    radii = [r / 4.0 for r in r4]
    rec = {'id': seed, 'kind': kind, 'data': data, 'err': err, 'bad': bad + ebad, 'error_nonfinite': bool(ebad), 'cx': cx4, 'cy': cy4, 'radii': r4, 'method': method,
           'subpixels': sub, 'has_error': has_err, 'nonneg': mode in ('nonneg', 'constant'), 'constant': data[0][0] if mode == 'constant' and not bad else -1}
    rpos = [r for r in radii if r > 0]
    off = len(radii) - len(rpos)
    rpos_arg, radii_arg = (np.array(rpos, dtype=float), np.array(radii, dtype=float)) if seed % 3 == 0 else (rpos, radii)
    cog = CurveOfGrowth(d, xy, rpos_arg, error=e, mask=mask, method=method, subpixels=sub)
    rp = RadialProfile(d, xy, radii_arg, error=e, mask=mask, method=method, subpixels=sub)
    if seed % 3 == 0:
        # the caller re-uses its radii buffer (e.g. for a second binning) before the lazily evaluated profiles are first read
        rpos_arg *= 2.0; radii_arg *= 2.0
    cf = [0.0] * off + [float(v) for v in cog.profile]
    ca = [0.0] * off + [float(v) for v in cog.area]
    ce = [0.0] * off + ([float(v) for v in cog.profile_error] if has_err else [0.0] * len(rpos))
    perr = [float(v) for v in rp.profile_error] if has_err else [0.0] * (len(radii) - 1)
    if kind == 'center':
        ii = lambda v: int(round(v)) if np.isfinite(v) else 0  # noqa
        rec.update(cog_nan=[bool(np.isnan(v)) for v in cf], cog_flux=[ii(v) if (not np.isfinite(v)) or v == round(v) else -999999 for v in cf], cog_area=[ii(v) for v in ca],
                   cog_err2=[ii(v * v) if has_err else 0 for v in ce], rp_profile=fx(rp.profile), rp_area=[ii(float(v)) for v in rp.area],
                   rp_err=fx(perr))
        if not has_err:
            rec['err'] = [[0] * w for _ in range(h)]
        return rec
    # direct aperture photometry with the union mask (input mask | non-finite)
    tot = ~np.isfinite(d)
    if mask is not None:
        tot |= mask
    if e is not None:
        tot |= ~np.isfinite(e)
    af, aa, ae = [], [], []
    for r in radii:
        if r <= 0:
            af.append(0.0); aa.append(0.0); ae.append(0.0); continue
        ap = CircularAperture(xy, r)
        f, fe = ap.do_photometry(np.where(np.isfinite(d), d, 0.0) if False else d, error=e, mask=tot, method=method, subpixels=sub)
        af.append(float(f[0])); ae.append(float(fe[0]) if has_err else 0.0)
        aa.append(float(ap.area_overlap(d, mask=tot, method=method, subpixels=sub)))
    # encircled-energy inverses on the monotone prefix
    ee_ok = True
    try:
        prof = np.array(cog.profile, dtype=float)
        if len(rpos) >= 3 and np.all(np.isfinite(prof)) and np.all(np.diff(prof) > 1e-6):
            rr = np.array(rpos[1:-1])
            ee = cog.calc_ee_at_radius(rr)
            back = cog.calc_radius_at_ee(ee)
            ee_ok = bool(np.allclose(back, rr, rtol=1e-6, atol=1e-6))
            # at the sampled radii - the first and the last included - the interpolated encircled energy is the curve of growth itself
            ends = cog.calc_ee_at_radius(np.array([rpos[0], rpos[-1]]))
            ee_ok = ee_ok and bool(np.allclose(ends, [prof[0], prof[-1]], rtol=1e-9, atol=1e-9))
            # the same image in physical flux units (exact power-of-two factor): the interpolators still invert each other
            k = [2.0 ** -60, 2.0 ** -55, 2.0 ** 40][seed % 3]
            cs = CurveOfGrowth(d * k, xy, rpos, error=None if e is None else e * k, mask=mask, method=method, subpixels=sub)
            if np.all(np.diff(np.array(cs.profile, dtype=float)) > 0):
                back_s = cs.calc_radius_at_ee(cs.calc_ee_at_radius(rr))
                ee_ok = ee_ok and bool(np.allclose(back_s, rr, rtol=1e-6, atol=1e-6))
    except Exception:  # noqa
        ee_ok = False
    rec.update(cog_nan=[bool(np.isnan(v)) for v in cf], ap_nan=[bool(np.isnan(v)) for v in af],
               rp_nan=[not bool(np.isfinite(v)) for v in np.asarray(rp.profile, dtype=float)],
               cog_flux=fx(cf), cog_area=fx(ca), cog_err=fx(ce), ap_flux=fx(af), ap_area=fx(aa), ap_err=fx(ae),
               rp_area=fx(rp.area), k_profile=fx(rp.profile, 1024), k_area=fx(aa, 1024), k_flux=fx(af, 1024),
               e_profile_err=fx(perr, 64), e_err=fx(ae, 64), ee_roundtrip_ok=ee_ok)
    for key in ('data', 'err', 'bad'):
        rec.pop(key)
    return rec


def run(ctx):
    q = ctx.quick
    ctx.rule = ('GEN: every centre of the quarter-pixel lattice (incl. off-image) x radii lists x 3-4 integer images, exact sums by TLC; '
                'non-trivial = at least one radius gives a partial overlap with the image; Trace: seeded random scenes, all methods')
    sub = dict(CMin=4, CMax=30, Images='{"ramp", "rampbad", "signed"}', RadiiKinds='{"a", "b"}') if q else {}
    ctx.mc('Profiles', core.make_cfg(ctx, 'MC_Profiles.cfg', name='MC_Profiles_run.cfg', **sub), timeout=3000)
    cases = []
    gen = core.make_cfg(ctx, 'GEN_Profiles.cfg', name='GEN_Profiles_base.cfg', **sub)
    for r in core.tlc_sharded(ctx, 'Profiles', gen, 16, part='GEN:Profiles', threads=16, timeout=3000):
        cases += [rec for rec in r.records if rec.get('_tag') == 'GEN']
    res = core.pmap(replay_case, list(enumerate(cases)), chunksize=64)
    for vs in res:
        for v in vs:
            ctx.violation(*v)
    npix = lambda c: len(c['data']) * len(c['data'][0])  # noqa
    ctx.nontrivial += sum(1 for c in cases if any(0 < x['area'] < npix(c) - len(c['bad']) for x in c['cog']))
    ctx.evaluations += len(cases); ctx.traces += len(cases); ctx.exhaustive = True
    if cases:
        c = cases[len(cases) // 2]
        ctx.sample({'kind': 'GEN case', 'img': c['img'], 'centre_quarter_px': [c['cx'], c['cy']], 'radii_quarter_px': c['radii'], 'cog': c['cog']})
    n = 800 if q else 10000
    recs = core.pmap(record_case, [ctx.seed * 15485863 + i for i in range(n)], chunksize=16, on_raise='drop')
    ver = core.validate_batch(ctx, 'Trace_Profiles', recs, 'Trace:Profiles')
    for rec in recs:
        v = ver[rec['id']]
        if not v['ok']:
            ctx.violation('trace:' + v['clause'], {'kind': rec['kind'], 'method': rec['method'], 'subpixels_is_5': rec['subpixels'] == 5,
                                                   'has_error': rec['has_error']}, {'case': rec})
        else:
            ctx.traces += 1
    ctx.evaluations += n
    ctx.nontrivial += len({json.dumps([r['cx'], r['cy'], r['radii'], r['method']]) for r in recs if len(r['radii']) >= 3})
    ctx.sample({'kind': 'recorded profile vs aperture photometry', **{k: recs[1][k] for k in ('kind', 'method', 'subpixels', 'cx', 'cy', 'radii', 'cog_flux')}})
    # (records whose last aperture holds data: centre inside the frame - otherwise the perturbed value is a don't-care NaN slot)
    good = [r for r in recs if ver[r['id']]['ok'] and 4 <= r['cx'] <= 16 and 4 <= r['cy'] <= 16 and not (r.get('cog_nan') or [False])[-1]][:6]
    bad = []
    for k, r in enumerate(good):
        r2 = core.jcopy(r); r2['id'] = 10**9 + k
        r2['cog_flux'][-1] += 70000 if r2['kind'] != 'center' else 1
        bad.append(r2)
    if bad:
        vb = core.validate_batch(ctx, 'Trace_Profiles', bad, 'SelfTest:Profiles', shards=2)
        rej = [not v['ok'] for v in vb.values()]
        ctx.selftest('perturbed curve-of-growth value', sum(rej) >= max(2, len(rej) - 1), f'{sum(rej)}/{len(rej)} rejected (a masked-out last aperture is a don\'t-care)')
    from .profnorm import run_profnorm
    run_profnorm(ctx)
    ctx.assumptions += ['fixed-point comparison (2^-16, relative 1/128 for the radial-profile quotient) for methods other than center',
                        'encircled-energy round trip is evaluated by the harness (numpy allclose 1e-6) and logged as a boolean']


def replay(ctx, rep):
    print(json.dumps(rep, indent=1, default=str)[:6000])
