"""C16 ApertureStats values equal direct statistics of the aperture pixel set.
spec/Trace_ApStats.tla over ApMask.tla: for lattice apertures TLC derives the pixel set (centre inside, unmasked, finite, not sigma-
clipped by an exact integer sigma-clip), and from it min/max/mean/median/variance/std/MAD/centroid and the sum_method sums; pair
relations tie sum/sum_err/sum_aper_area to aperture_photometry/area_overlap for arbitrary apertures and sky apertures."""
import json, math, random, warnings
import numpy as np
from .. import core
from .c01 import build

S = 4096


def fk(v, s=S):
    v = float(np.asarray(getattr(v, 'value', v)))
    return (int(round(v * s)) if np.isfinite(v) else 0), (not np.isfinite(v))


def rec_lattice(seed):
    from astropy.stats import SigmaClip
    from photutils.aperture import ApertureStats
    rng = random.Random(seed)
    h, w = rng.randint(2, 7), rng.randint(2, 8)
    lo_v, hi_v = rng.choice([(-6, 24), (-6, 24), (-6, 24), (-22, 5), (0, 30)])          # (-22, 5): sky apertures on over-subtracted data; (0, 30): raw counts
    data = [[rng.randint(lo_v, hi_v) for _ in range(w)] for _ in range(h)]
    if rng.random() < 0.3:      # outliers for the sigma clip
        for _ in range(2):
            data[rng.randrange(h)][rng.randrange(w)] = rng.choice([30, -30, 28])
    err = [[rng.randint(1, 3) for _ in range(w)] for _ in range(h)]
    mask = [[r, c] for r in range(h) for c in range(w) if rng.random() < 0.1] if rng.random() < 0.6 else []
    nonfin = [[r, c] for r in range(h) for c in range(w) if rng.random() < 0.04] if rng.random() < 0.5 else []
    d = np.array(data, dtype=float)
    for k, (r, c) in enumerate(nonfin):
        d[r, c] = [np.nan, np.inf, -np.inf][k % 3]
    m = None
    if mask:
        m = np.zeros((h, w), dtype=bool)
        for r, c in mask:
            m[r, c] = True
    kind = rng.choice(['circle', 'ellipse', 'rect', 'cann', 'rann'])
    sz = lambda: rng.choice([2, 3, 4, 5])  # noqa
    sh = {'kind': kind, 'p1': sz(), 'p2': sz(), 'p3': 0, 'p4': 0, 'ang': rng.choice([0, 0, 1, 3, 4])}
    if kind == 'ellipse' and sh['p1'] < sh['p2']:
        sh['p1'], sh['p2'] = sh['p2'], sh['p1']
    if kind == 'cann':
        a, b = sorted([sh['p1'], sh['p2']]); sh['p1'], sh['p2'] = a - 1, b + 1
    if kind == 'rann':
        a, b = sh['p1'], sh['p2']; sh.update(p1=a - 1, p2=2 * a, p3=b - 1, p4=2 * b)
    if kind in ('circle', 'cann'):
        sh['ang'] = 0
    q = 2
    cx, cy = rng.randint(-5, 2 * w + 4), rng.randint(-5, 2 * h + 4)
    s = rng.choice([1, 1, 2])
    method = 'center' if s == 1 else 'subpixel'
    sigma = rng.choice([0, 0, 2, 3])
    maxiters = rng.choice([1, 2, 5])
    bkg = rng.choice([0, 0, 2, -3])
    ap = build(sh, cx, cy, q)
    with warnings.catch_warnings():
        warnings.simplefilter('ignore')
        lb_arg = float(bkg) if bkg else None
        if lo_v == 0 and not nonfin and seed % 2 and float(np.min(d)) >= 0:
            # a raw unsigned-integer frame with the local background given in the same dtype (pixels below it must not wrap around)
            dt = [np.uint16, np.uint8, np.uint32][seed % 3]
            d = d.astype(dt)
            if bkg > 0:
                lb_arg = dt(bkg)
            elif bkg == 0 and seed % 4 == 1:
                bkg = 9; lb_arg = dt(9)
        st = ApertureStats(d, ap, error=np.array(err, dtype=float), mask=m, sigma_clip=SigmaClip(sigma=float(sigma), maxiters=maxiters) if sigma else None,
                           sum_method=method, subpixels=s, local_bkg=lb_arg)
        vals = {n: getattr(st, n) for n in ('min', 'max', 'mean', 'median', 'std', 'var', 'mad_std', 'xcentroid', 'ycentroid', 'sum', 'sum_aper_area', 'center_aper_area')}
    rec = {'id': seed, 'kind': 'lattice', 'shape': sh, 'cx': cx, 'cy': cy, 'q': q, 's': s, 'data': data, 'mask': mask, 'nonfinite': nonfin, 'bkg': bkg,
           'sigma': sigma, 'maxiters': maxiters, 'nan': {}}
    for name, key, sc in (('min', 'min_k', S), ('max', 'max_k', S), ('mean', 'mean_k', S), ('median', 'median_k', S), ('var', 'var_k', 64), ('std', 'std_k', 16),
                          ('xcentroid', 'xcen_k', S), ('ycentroid', 'ycen_k', S), ('sum', 'sum_k', S), ('sum_aper_area', 'sumarea_k', S)):
        rec[key], rec['nan'][name.replace('centroid', 'cen')] = fk(vals[name], sc)
    rec['mad_k'], _ = fk(float(getattr(vals['mad_std'], 'value', vals['mad_std'])) / 1.482602218505602, S)
    # moment-based shape: the covariance matrix (second central moments over the pixel set), in 1/256 px^2
    with warnings.catch_warnings():
        warnings.simplefilter('ignore')
        cv = [float(getattr(getattr(st, n), 'value', getattr(st, n))) for n in ('covar_sigx2', 'covar_sigxy', 'covar_sigy2')]
    rec['nan']['cov'] = not all(np.isfinite(cv))
    rec['cov'] = [int(round(x * 256)) if np.isfinite(x) else 0 for x in cv]
    ca = float(getattr(vals['center_aper_area'], 'value', vals['center_aper_area']))
    rec['npix'] = int(round(ca)) if np.isfinite(ca) else -1
    return rec


def rec_pairs(seed):
    """sum / sum_err / sum_aper_area versus aperture_photometry / area_overlap (any aperture, any method, pixel and sky)"""
    import astropy.units as u
    from astropy.wcs import WCS
    import photutils.aperture as A
    rng = random.Random(seed)
    h, w = rng.randint(8, 14), rng.randint(8, 14)
    d = np.array([[rng.randint(-5, 40) for _ in range(w)] for _ in range(h)], dtype=float)
    e = np.array([[rng.randint(1, 3) for _ in range(w)] for _ in range(h)], dtype=float)
    m = np.random.default_rng(seed).random((h, w)) < 0.08
    for _ in range(rng.randint(0, 3)):
        d[rng.randrange(h), rng.randrange(w)] = rng.choice([np.nan, np.inf])
    # the error map may be non-finite where the pixel is excluded anyway (masked bad pixels, NaN data)
    if rng.random() < 0.5:
        excl = m | ~np.isfinite(d)
        e = np.where(excl & (np.random.default_rng(seed + 3).random((h, w)) < 0.7), [np.nan, np.inf][seed % 2], e)
    pos = [(rng.uniform(-3, w + 2), rng.uniform(-3, h + 2)) for _ in range(rng.randint(1, 4))] + [(-20.0, 3.0)]
    r = rng.uniform(1.0, 3.5)
    method = rng.choice(['exact', 'center', 'subpixel'])
    sub = rng.choice([1, 2, 5])          # subpixels = 1 is documented as ignored unless method = 'subpixel'
    ap = [A.CircularAperture(pos, r), A.EllipticalAperture(pos, r, r * 0.5, theta=0.9), A.RectangularAnnulus(pos, r * 0.6, r * 1.4, r)][seed % 3]
    bk = np.array([rng.choice([0.0, 1.5, -2.0]) for _ in pos]) if rng.random() < 0.5 else None
    out = []

    def pair(rel, a, b, tol=3):
        uq = lambda z: np.atleast_1d(np.array([float(np.asarray(getattr(t, 'value', t))) for t in (z if isinstance(z, (list, tuple)) else np.atleast_1d(getattr(z, 'value', z)))], dtype=float))  # noqa
        a, b = uq(a), uq(b)
        out.append({'id': 100000000 + seed * 100 + len(out), 'kind': 'pair', 'rel': rel, 'a': [fk(x)[0] for x in a], 'b': [fk(x)[0] for x in b],
                    'a_nan': [fk(x)[1] for x in a], 'b_nan': [fk(x)[1] for x in b], 'tol': tol, 'method': method})
    with warnings.catch_warnings():
        warnings.simplefilter('ignore')
        st = A.ApertureStats(d, ap, error=e, mask=m, sum_method=method, subpixels=sub, local_bkg=bk)
        tot = m | ~np.isfinite(d)
        dz = np.where(np.isfinite(d), d, 0.0)
        f, fe = ap.do_photometry(dz, error=e, mask=tot, method=method, subpixels=sub)
        area = np.atleast_1d(ap.area_overlap(dz, mask=tot, method=method, subpixels=sub))
        # "whenever at least one unmasked pixel has positive weight"; otherwise NaN is required
        has = np.array([np.isfinite(a_) and a_ > 0 for a_ in area])
        exp_sum = np.where(has, f - (bk if bk is not None else 0.0) * np.where(has, area, 0.0), np.nan)
        pair('sum_equals_aperture_photometry', st.sum, exp_sum, tol=8)
        pair('sum_err_equals_aperture_photometry', st.sum_err, np.where(has, fe, np.nan))
        pair('sum_aper_area_equals_area_overlap', st.sum_aper_area, np.where(has, area, np.nan))
        # per-position results are independent of the other positions (scalar object per position)
        one = [A.ApertureStats(d, ap[k], error=e, mask=m, sum_method=method, subpixels=sub, local_bkg=None if bk is None else float(bk[k])) for k in range(len(pos))]
        for name in ('mean', 'median', 'max', 'xcentroid', 'biweight_location', 'mad_std', 'semimajor_sigma'):
            pair(f'list_equals_single:{name}', getattr(st, name), [getattr(o, name) for o in one], tol=2)
        # the order in which properties are first read does not matter (two fresh objects, opposite orders)
        names = [n for n in st.properties if n not in ('sky_centroid', 'sky_centroid_icrs', 'isscalar', 'n_apertures', 'data_cutout', 'error_cutout',
                                                        'covariance', 'covariance_eigvals', 'inertia_tensor', 'moments', 'moments_central', 'bbox',
                                                        'cutout_centroid', 'data_sumcutout', 'error_sumcutout', 'centroid', 'id', 'ids')]
        fwd = A.ApertureStats(d, ap, error=e, mask=m, sum_method=method, subpixels=sub, local_bkg=bk)
        rev = A.ApertureStats(d, ap, error=e, mask=m, sum_method=method, subpixels=sub, local_bkg=bk)
        vf = {n: getattr(fwd, n) for n in names}
        vr = {n: getattr(rev, n) for n in reversed(names)}
        for n in ('min', 'max', 'mean', 'median', 'std', 'sum', 'mad_std', 'gini', 'mode', 'biweight_location', 'xcentroid'):
            if n in vf:
                pair(f'independent_of_property_read_order:{n}', vf[n], vr[n], tol=1)
        # sky aperture = its pixel image
        wc = WCS(naxis=2); wc.wcs.crpix = [w / 2, h / 2]; wc.wcs.cdelt = [-1.0 / 3600, 1.0 / 3600]; wc.wcs.crval = [80.0, 10.0]; wc.wcs.ctype = ['RA---TAN', 'DEC--TAN']
        sc = wc.pixel_to_world([p[0] for p in pos[:-1]], [p[1] for p in pos[:-1]])
        sky = A.SkyCircularAperture(sc, r * u.arcsec)
        s1 = A.ApertureStats(d, sky, wcs=wc, error=e, mask=m, sum_method=method, subpixels=sub)
        s2 = A.ApertureStats(d, sky.to_pixel(wc), error=e, mask=m, sum_method=method, subpixels=sub)
        for name in ('sum', 'mean', 'median', 'xcentroid'):
            pair(f'sky_equals_to_pixel:{name}', getattr(s1, name), getattr(s2, name), tol=2)
    return out


def rec_any(seed):
    return [rec_lattice(seed)] if seed % 4 else rec_pairs(seed)


def run(ctx):
    q = ctx.quick
    ctx.rule = ('seeded records: lattice apertures on 2x2..7x8 integer images (masks, NaN/inf, outliers, local background, sigma clip 0/2/3 with 1-5 '
                'iterations, positions incl. straddling and outside) with the pixel set and all statistics derived by TLC; pair relations to '
                'aperture_photometry; non-trivial = the pixel set lost a pixel to mask / non-finite / clipping or the aperture is clipped by the edge')
    n = 1600 if q else 25000
    recs = [r for rs in core.pmap(rec_any, [ctx.seed * 69621 + i for i in range(n)], chunksize=16) for r in rs]
    ver = core.validate_batch(ctx, 'Trace_ApStats', recs, 'Trace:ApStats')
    for r in recs:
        v = ver[r['id']]
        if not v['ok']:
            sh = r.get('shape') or {}
            edge = None
            if r['kind'] == 'lattice':
                edge = bool(r['cx'] - sh['p1'] - sh.get('p2', 0) < 1 or r['cy'] - sh['p1'] - sh.get('p2', 0) < 1)
            ctx.violation(v['clause'], {'kind': r['kind'], 'shape': sh.get('kind'), 'sigma_clip': bool(r.get('sigma')), 'method': r.get('method'),
                                        'rel': r.get('rel'), 'near_left_or_bottom_edge': edge}, {'case': r})
        else:
            ctx.traces += 1
    ctx.evaluations += len(recs)
    ctx.nontrivial += sum(1 for r in recs if r['kind'] == 'pair' or r['mask'] or r['nonfinite'] or r['sigma'])
    ex = next(r for r in recs if r['kind'] == 'lattice')
    ctx.sample({k: ex[k] for k in ('shape', 'cx', 'cy', 'data', 'mask', 'nonfinite', 'bkg', 'sigma', 'maxiters', 'mean_k', 'median_k', 'npix')})
    good = [r for r in recs if ver[r['id']]['ok'] and r['kind'] == 'lattice' and r['npix'] > 2 and not r['sigma']
            and (r['shape']['ang'] == 0 or r['shape']['kind'] in ('circle', 'cann'))][:4]
    bad = []
    for k, r in enumerate(good):
        r2 = core.jcopy(r); r2['id'] = 10**9 + k
        r2['median_k' if k % 2 else 'mean_k'] += 3 * S
        bad.append(r2)
    if bad:
        vb = core.validate_batch(ctx, 'Trace_ApStats', bad, 'SelfTest:ApStats', shards=2)
        ctx.selftest('perturbed mean / median', all(not v['ok'] for v in vb.values()))
    ctx.assumptions += ['biweight statistics and mode are only checked through the list-vs-single relation (not re-derived)',
                        'a value exactly on a sigma-clipping limit is a tie (don\'t-care)']


def replay(ctx, rep):
    print(json.dumps(rep, indent=1, default=str)[:6000])
