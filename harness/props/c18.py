"""C18 Rendered model images are the exact superposition of their sources.
spec/ModelImage.tla: TLC renders a linear probe model for every sequence of <= 3 rows out of 9 candidate rows (inside, half-integer,
corner, straddling, outside, single-pixel, oversized windows) and checks order invariance, additivity and that skipped rows add
nothing; each case is replayed through make_model_image with every discretisation method, per-row / global model_shape,
parameter-name mappings, unit-ful and unit-less models; PSF-photometry model/residual images are tied to it by recorded pairs."""
import json, warnings
import numpy as np
from .. import core
from ..canon import digest

A, B, C = 7, 2, 3
_M = {}


def probe_model():
    if 'cls' not in _M:
        from astropy.modeling import Fittable2DModel, Parameter

        class LinProbe(Fittable2DModel):
            flux = Parameter(default=1.0)
            x_0 = Parameter(default=0.0)
            y_0 = Parameter(default=0.0)
            a = Parameter(default=float(A))
            b = Parameter(default=4.0 * B)
            c = Parameter(default=4.0 * C)

            @staticmethod
            def evaluate(x, y, flux, x_0, y_0, a, b, c):
                return flux * (a + b * (x - x_0) + c * (y - y_0))
        _M['cls'] = LinProbe
    return _M['cls']()


def replay_case(args):
    idx, case, variant = args
    import astropy.units as u
    from astropy.table import QTable, Table
    from photutils.datasets import make_model_image
    warnings.simplefilter('ignore')
    rows = case['rows']
    method, unitful, mapping, shapecol = variant[:4]
    compound = len(variant) > 4 and variant[4]
    out = []
    sig = {'method': method, 'unitful': unitful, 'mapping': mapping, 'shape_column': shapecol, 'compound': bool(compound), 'nrows': len(rows),
           'first_row_overlaps': bool(rows) and case['windows'][0]['y0'] < case['windows'][0]['y1'] and case['windows'][0]['x0'] < case['windows'][0]['x1'],
           'any_overlap': case['any_overlap']}
    if not rows:
        return out
    if unitful and method == 'integrate':
        return out      # astropy.convolution.discretize_model cannot integrate unit-ful models (outside photutils)
    model = probe_model()
    names = ('xx', 'yy', 'ff') if mapping else ('x_0', 'y_0', 'flux')
    t = QTable() if unitful else Table()
    t[names[0]] = [r['x4'] / 4.0 for r in rows]
    t[names[1]] = [r['y4'] / 4.0 for r in rows]
    fl = np.array([float(r['flux']) for r in rows])
    bk = np.array([float(r['bkg']) for r in rows])
    t[names[2]] = fl * u.Jy if unitful else fl
    t['local_bkg'] = bk * u.Jy if unitful else bk
    kw = {}
    if shapecol:
        t['model_shape'] = [(r['mh'], r['mw']) for r in rows]
        if idx % 3 == 0:
            # documented: the column overrides the keyword for each source
            kw['model_shape'] = [(3, 3), 5, (7, 3)][(idx // 3) % 3]
            sig['keyword_next_to_column'] = True
    else:
        if len({(r['mh'], r['mw']) for r in rows}) != 1:
            return out
        kw['model_shape'] = (rows[0]['mh'], rows[0]['mw'])
    if mapping:
        kw.update(x_name='x_0', y_name='y_0', params_map={'x_0': 'xx', 'y_0': 'yy', 'flux': 'ff'})
        if idx % 2 == 0:
            # columns that happen to be named after the model parameters (e.g. initial guesses next to the fitted columns):
            # the explicit mapping decides which columns are rendered
            t['x_0'] = [r['x4'] / 4.0 + 1.5 for r in rows]
            t['y_0'] = [r['y4'] / 4.0 - 2.0 for r in rows]
            t['flux'] = (fl * 0.5 + 1.0) * u.Jy if unitful else fl * 0.5 + 1.0
            sig['decoy_columns'] = True
    if unitful:
        model = probe_model()
        model.flux = 1.0 * u.Jy
    if compound:
        # a compound model: the probe plus a constant whose amplitude (per row) plays the part of the local background
        from astropy.modeling.models import Const2D
        model = probe_model() + Const2D(0.0)
        t.remove_column('local_bkg')
        if mapping:
            t['bg'] = bk
            kw['params_map'] = {'x_0_0': 'xx', 'y_0_0': 'yy', 'flux_0': 'ff', 'amplitude_1': 'bg'}
            for nm in ('x_0', 'y_0', 'flux'):
                if nm in t.colnames:
                    t.remove_column(nm)
        else:
            t.rename_columns(['x_0', 'y_0', 'flux'], ['x_0_0', 'y_0_0', 'flux_0'])
            t['amplitude_1'] = bk
        kw.update(x_name='x_0_0', y_name='y_0_0')
    md0, td0 = digest([getattr(model, n).value for n in model.param_names]), digest(t)
    shape = (len(case['image']), len(case['image'][0]))
    try:
        img = make_model_image(shape, model, t, discretize_method=method, discretize_oversample=3, **kw)
    except Exception as e:  # noqa
        return [('raises', sig, {'case': case, 'exc': repr(e)})]
    exp = np.array(case['image'], dtype=float)
    val = img.value if hasattr(img, 'unit') else np.asarray(img)
    tol = 1e-9 if method == 'integrate' else (0.0 if method == 'center' else 1e-12)
    if val.shape != exp.shape or not np.all(np.abs(val - exp) <= tol * np.maximum(1.0, np.abs(exp))):
        out.append(('image_is_superposition', sig, {'case': case, 'got': np.asarray(val).tolist()}))
    if unitful and case['any_overlap'] and not (hasattr(img, 'unit') and img.unit == u.Jy):
        out.append(('carries_model_units', sig, {'case': case, 'got_type': type(img).__name__}))
    if digest([getattr(model, n).value for n in model.param_names]) != md0 or digest(t) != td0:
        out.append(('inputs_unchanged', sig, {'case': case}))
    return out


def oversample_case(seed):
    """discretize_method='oversample' with factor k: a pixel holds the mean of the model over its k x k sub-pixel centres.  For the
    quadratic probe f = flux * ((x - x_0)^2 + (y - y_0)^2) that mean is the centre value + flux * 2 (k^2 - 1) / (12 k^2), on the window."""
    from astropy.modeling import Fittable2DModel, Parameter
    from astropy.table import Table
    from photutils.datasets import make_model_image
    warnings.simplefilter('ignore')
    if 'quad' not in _M:
        class QuadProbe(Fittable2DModel):
            flux = Parameter(default=1.0)
            x_0 = Parameter(default=0.0)
            y_0 = Parameter(default=0.0)

            @staticmethod
            def evaluate(x, y, flux, x_0, y_0):
                return flux * ((x - x_0) ** 2 + (y - y_0) ** 2)
        _M['quad'] = QuadProbe
    rng = np.random.default_rng(seed)
    shape = (int(rng.integers(6, 12)), int(rng.integers(6, 12)))
    n = int(rng.integers(1, 4))
    t = Table()
    t['x_0'] = rng.integers(-2, shape[1] + 2, n) + rng.choice([0.0, 0.25, 0.5], n)
    t['y_0'] = rng.integers(-2, shape[0] + 2, n) + rng.choice([0.0, 0.25, 0.5], n)
    t['flux'] = rng.integers(1, 5, n).astype(float)
    ms = (int(rng.choice([3, 5])), int(rng.choice([3, 4, 5])))
    out = []
    center = make_model_image(shape, _M['quad'](), t, model_shape=ms, discretize_method='center')
    cover = make_model_image(shape, _M['quad'](), Table({'x_0': t['x_0'], 'y_0': t['y_0'], 'flux': t['flux'] * 0.0, 'local_bkg': t['flux']}), model_shape=ms)
    for k in (1, 2, 3, 4, 7):
        img = make_model_image(shape, _M['quad'](), t, model_shape=ms, discretize_method='oversample', discretize_oversample=k)
        exp = center + cover * (2.0 * (k * k - 1) / (12.0 * k * k))         # `cover` = sum of the fluxes of the rows whose window holds the pixel
        if img.shape != exp.shape or not np.allclose(img, exp, rtol=1e-10, atol=1e-9):
            out.append(('oversampled_pixel_is_the_mean_over_its_subpixel_centres', {'factor': k}, {'seed': seed, 'max_abs_diff': float(np.max(np.abs(img - exp)))}))
    return out


def replay_cutout(c):
    """Cutout.tla case -> CutoutImage in the three modes (index-valued image shows which pixels were selected)"""
    from astropy.nddata.utils import NoOverlapError, PartialOverlapError
    from photutils.utils import CutoutImage
    warnings.simplefilter('ignore')
    h, w = c['h'], c['w']
    img = np.arange(h * w, dtype=float).reshape(h, w) + 1.0
    pos = (c['py'] / 4.0, c['px'] / 4.0)
    shape = (c['sy'], c['sx'])
    out = []
    y0, y1, x0, x1 = c['large']
    s0, s1, t0, t1 = c['small']
    for mode in ('trim', 'partial', 'strict'):
        sig = {'what': 'CutoutImage', 'mode': mode, 'nooverlap': c['nooverlap'], 'inside': c['inside']}
        try:
            cut = CutoutImage(img, pos, shape, mode=mode, fill_value=-1.0)
            raised = None
        except NoOverlapError:
            raised = 'nooverlap'
        except PartialOverlapError:
            raised = 'partial'
        except Exception as e:  # noqa
            out.append(('cutout_raises_unexpectedly', sig, {'case': c, 'exc': repr(e)})); continue
        if c['nooverlap']:
            if raised != 'nooverlap':
                out.append(('no_overlap_raises_in_every_mode', sig, {'case': c, 'raised': raised}))
            continue
        if mode == 'strict' and not c['inside']:
            if raised != 'partial':
                out.append(('strict_mode_requires_full_containment', sig, {'case': c, 'raised': raised}))
            continue
        if raised:
            out.append(('valid_cutout_raises', sig, {'case': c, 'raised': raised})); continue
        exp_overlap = img[y0:y1, x0:x1]
        if mode == 'trim':
            exp = exp_overlap
        else:
            exp = np.full(shape, -1.0); exp[s0:s1, t0:t1] = exp_overlap
        so = cut.slices_original; sc = cut.slices_cutout
        got_so = [so[0].start, so[0].stop, so[1].start, so[1].stop]
        if not np.array_equal(np.asarray(cut.data), exp):
            out.append(('cutout_data_is_window_intersection', sig, {'case': c, 'got': np.asarray(cut.data).tolist()}))
        elif got_so != [y0, y1, x0, x1]:
            out.append(('slices_original_is_clipped_window', sig, {'case': c, 'got': got_so}))
        elif mode == 'partial' and [sc[0].start, sc[0].stop, sc[1].start, sc[1].stop] != [s0, s1, t0, t1]:
            out.append(('slices_cutout_locates_valid_pixels', sig, {'case': c, 'got': [sc[0].start, sc[0].stop, sc[1].start, sc[1].stop]}))
    return out


def bbox_rows_case(seed):
    """make_model_image without model_shape: every row is rendered on the window of the model's own bounding box for THAT row's parameters
    (width-dependent), whether the columns are named after the parameters or mapped through params_map; the image is the sum of the
    single-row images, in any row order"""
    import random
    from astropy.modeling.models import Gaussian2D
    from astropy.table import Table
    from photutils.datasets import make_model_image
    from photutils.psf import CircularGaussianPRF
    warnings.simplefilter('ignore')
    rng = random.Random(seed)
    shape = (41, 47)
    n = rng.randint(2, 4)
    out = []
    for which in ('prf', 'gauss2d'):
        rows = [dict(x=rng.uniform(3, 44), y=rng.uniform(3, 38), f=rng.uniform(50, 300), w=rng.choice([1.2, 2.0, 3.5, 5.0])) for _ in range(n)]
        if which == 'prf':
            model = CircularGaussianPRF()
            names = {'x_0': 'x', 'y_0': 'y', 'flux': 'f', 'fwhm': 'w'}
        else:
            model = Gaussian2D()
            names = {'x_mean': 'x', 'y_mean': 'y', 'amplitude': 'f', 'x_stddev': 'w', 'y_stddev': 'w'}
        xn, yn = ('x_0', 'y_0') if which == 'prf' else ('x_mean', 'y_mean')
        for mapped in (False, True):
            def table(rs):
                t = Table()
                for par, key in names.items():
                    t[(key + '_f200w') if mapped else par] = [r[key] for r in rs]
                return t
            kw = dict(x_name=xn, y_name=yn)
            if mapped:
                kw['params_map'] = {par: key + '_f200w' for par, key in names.items()}
            sig = {'model': which, 'params_map': mapped, 'nrows': n, 'kind': 'bbox_rows'}
            try:
                full = make_model_image(shape, model, table(rows), **kw)
                singles = sum(make_model_image(shape, model, table([r]), **kw) for r in rows)
                rev = make_model_image(shape, model, table(rows[::-1]), **kw)
            except Exception as e:  # noqa
                out.append(('raises', sig, {'exc': repr(e), 'rows': rows})); continue
            if not np.allclose(full, singles, rtol=1e-12, atol=1e-12):
                out.append(('additive_over_rows_on_each_rows_own_bounding_box_window', sig, {'rows': rows, 'max_abs_diff': float(np.max(np.abs(full - singles)))}))
            elif not np.allclose(full, rev, rtol=1e-12, atol=1e-12):
                out.append(('row_order_invariant', sig, {'rows': rows, 'max_abs_diff': float(np.max(np.abs(full - rev)))}))
    # a position-dependent PSF (GriddedPSFModel on a 3 x 5 reference grid): every row is rendered with the blend of ITS cell, whatever was
    # rendered before it - the image equals the sum of single-row images made with fresh model objects, in any row order
    from astropy.nddata import NDData
    from photutils.psf import GriddedPSFModel
    gxs, gys = [0.0, 23.0, 46.0], [0.0, 10.0, 20.0, 30.0, 40.0]
    yy, xx = np.mgrid[:9, :9]
    def mkgrid():
        arrs, xy = [], []
        for j, gy_ in enumerate(gys):
            for i, gx_ in enumerate(gxs):
                arrs.append(np.exp(-0.5 * (((xx - 4) / (1.0 + 0.25 * i)) ** 2 + ((yy - 4) / (1.0 + 0.15 * j)) ** 2)) * (1.0 + 0.1 * i + 0.03 * j))
                xy.append((gx_, gy_))
        return GriddedPSFModel(NDData(np.array(arrs), meta={'grid_xypos': xy, 'oversampling': 1}))
    grows = [dict(x=rng.uniform(1, 45), y=rng.uniform(1, 39), f=rng.uniform(50, 300)) for _ in range(rng.randint(2, 5))]
    gtab = lambda rs: Table({'x_0': [r['x'] for r in rs], 'y_0': [r['y'] for r in rs], 'flux': [r['f'] for r in rs]})  # noqa
    try:
        gfull = make_model_image(shape, mkgrid(), gtab(grows), model_shape=(9, 9))
        gsing = sum(make_model_image(shape, mkgrid(), gtab([r]), model_shape=(9, 9)) for r in grows)
        grev = make_model_image(shape, mkgrid(), gtab(grows[::-1]), model_shape=(9, 9))
        gsig = {'kind': 'gridded_rows', 'nrows': len(grows)}
        if not np.allclose(gfull, gsing, rtol=1e-12, atol=1e-12):
            out.append(('position_dependent_psf_rows_are_rendered_independently', gsig, {'rows': grows, 'max_abs_diff': float(np.max(np.abs(gfull - gsing)))}))
        elif not np.allclose(gfull, grev, rtol=1e-12, atol=1e-12):
            out.append(('row_order_invariant', gsig, {'rows': grows, 'max_abs_diff': float(np.max(np.abs(gfull - grev)))}))
    except Exception as e:  # noqa
        out.append(('raises', {'kind': 'gridded_rows'}, {'exc': repr(e)}))
    # make_psf_model_image builds on make_model_image: the image it returns is the model image of the table it returns
    from photutils.psf import make_psf_model_image
    ms = rng.choice([(9, 9), (7, 11), (5, 5)])      # (without model_shape the function takes ONE window from the template model's bounding box: another rule)
    try:
        img, params = make_psf_model_image(shape, CircularGaussianPRF(), rng.randint(2, 8), model_shape=ms, flux=(50, 300), fwhm=(1.5, 4.0), min_separation=rng.choice([1, 6]),
                                           seed=seed, border_size=rng.choice([None, (4, 3)]))
        ref = make_model_image(shape, CircularGaussianPRF(), params, model_shape=ms)
        if not np.array_equal(img, ref):
            out.append(('make_psf_model_image_is_the_model_image_of_its_table', {'kind': 'psf_model_image', 'model_shape': list(ms) if ms else None, 'nrows': len(params)},
                        {'max_abs_diff': float(np.max(np.abs(img - ref)))}))
    except Exception as e:  # noqa
        out.append(('raises', {'kind': 'psf_model_image', 'model_shape': list(ms) if ms else None}, {'exc': repr(e)}))
    return out


def psfphot_pairs(seed):
    """model / residual images of PSFPhotometry and IterativePSFPhotometry versus make_model_image of their own result tables,
    in both orders of include_localbkg"""
    from astropy.table import Table
    from photutils.background import LocalBackground
    from photutils.datasets import make_model_image
    from photutils.detection import DAOStarFinder
    from photutils.psf import CircularGaussianPRF, IterativePSFPhotometry, PSFPhotometry, SourceGrouper
    warnings.simplefilter('ignore')
    rng = np.random.default_rng(seed)
    shape = (45, 51)
    y, x = np.mgrid[:shape[0], :shape[1]]
    m = CircularGaussianPRF(fwhm=3.2)
    pos = [(11.3, 10.6), (16.1, 12.4), (35.2, 30.8), (44.0, 9.5), (2.0, 40.2)]
    if seed % 2:      # input order in which the members of a group are not adjacent (group ids not monotonic in the source id)
        pos = [pos[k] for k in rng.permutation(len(pos))]
    data = np.zeros(shape)
    for k, (px, py) in enumerate(pos):
        data += m.evaluate(x, y, 400.0 + 100 * k, px, py, 3.2)
    data += 5.0 + 0.05 * x + rng.normal(0, 0.2, shape)
    init = Table(); init['x'] = [p[0] + 0.1 for p in pos]; init['y'] = [p[1] - 0.1 for p in pos]
    out = []
    kinds = {
        'psf': lambda: PSFPhotometry(CircularGaussianPRF(fwhm=3.2), (7, 7), grouper=SourceGrouper(8), localbkg_estimator=LocalBackground(6, 10), aperture_radius=4),
        'iter_new': lambda: IterativePSFPhotometry(CircularGaussianPRF(fwhm=3.2), (7, 7), DAOStarFinder(30, 3.2), localbkg_estimator=LocalBackground(6, 10), aperture_radius=4, maxiters=1 + seed % 2, mode='new'),
        'iter_all': lambda: IterativePSFPhotometry(CircularGaussianPRF(fwhm=3.2), (7, 7), DAOStarFinder(30, 3.2), grouper=SourceGrouper(8), localbkg_estimator=LocalBackground(6, 10), aperture_radius=4, maxiters=2, mode='all'),
    }
    # one star per pass (brightest=1): four productive iterations; the subtraction window of the loop (sub_shape) differs from the model's box
    kinds['iter_new_one_per_pass'] = lambda: IterativePSFPhotometry(CircularGaussianPRF(fwhm=3.2), (7, 7), DAOStarFinder(30, 3.2, brightest=1), aperture_radius=4,
                                                                     maxiters=4, mode='new', sub_shape=(5, 5))
    def _free():
        mfree = CircularGaussianPRF(fwhm=2.7); mfree.fwhm.fixed = False      # the width is fitted per source (the scene has 3.2)
        return PSFPhotometry(mfree, (7, 7), grouper=SourceGrouper(8), localbkg_estimator=LocalBackground(6, 10), aperture_radius=4)
    kinds['psf_free_width'] = _free
    for kind, mk in kinds.items():
        for order in ((True, False), (False, True), (False, False)):
            ph = mk()
            res = ph(data, init_params=init if kind.startswith('psf') else None)
            if res is None:
                continue
            sig = {'obj': kind, 'order': list(order)}
            # psf_shape: a small stamp, or one larger than the image along one / both axes (full-wing subtraction on a small frame)
            ps = [(9, 9), (61, 57), (9, 53), (47, 9), None][(seed + len(kind) + sum(order)) % 5]      # None: the model's own bounding box
            sig['psf_shape'] = list(ps) if ps else None
            for j, inc in enumerate(order):
                mi = ph.make_model_image(shape, psf_shape=ps, include_localbkg=inc)
                ri = ph.make_residual_image(data, psf_shape=ps, include_localbkg=inc)
                t = Table()
                t['x_0'] = res['x_fit']; t['y_0'] = res['y_fit']; t['flux'] = res['flux_fit']
                if inc:
                    t['local_bkg'] = res['local_bkg']
                if 'fwhm_fit' in res.colnames:      # every fitted parameter of a row belongs to its model
                    t['fwhm'] = res['fwhm_fit']
                ref = make_model_image(shape, CircularGaussianPRF(fwhm=3.2), t, model_shape=ps)
                if not np.allclose(mi, ref, rtol=1e-9, atol=1e-9):
                    out.append(('psfphot_model_image_is_superposition_of_fit_results', dict(sig, call=j, include_localbkg=inc),
                                {'max_abs_diff': float(np.max(np.abs(mi - ref)))}))
                if not np.array_equal(ri, data - mi):
                    out.append(('residual_is_data_minus_model', dict(sig, call=j, include_localbkg=inc), {'max_abs_diff': float(np.max(np.abs(ri - (data - mi))))}))
                # the same residual whatever container the data arrive in
                import astropy.units as u
                from astropy.nddata import NDData
                rn = ph.make_residual_image(NDData(data), psf_shape=ps, include_localbkg=inc)
                if not np.array_equal(np.asarray(rn.data), data - mi):
                    out.append(('residual_is_data_minus_model', dict(sig, call=j, include_localbkg=inc, container='NDData'),
                                {'max_abs_diff': float(np.max(np.abs(np.asarray(rn.data) - (data - mi))))}))
    return out


def run(ctx):
    q = ctx.quick
    ctx.rule = ('GEN: every sequence of <= 3 distinct rows out of 9 candidates, x discretisation methods x unit-ful/less x name mapping x '
                'per-row/global model_shape; non-trivial = >= 2 rows with at least one partially overlapping or skipped row')
    ctx.mc('ModelImage', 'MC_ModelImage.cfg', workers=16, timeout=1200)
    g = ctx.tlc('ModelImage', 'GEN_ModelImage.cfg', part='GEN:ModelImage', workers=1, timeout=1200)
    cases = [rec for rec in g.records if rec.get('_tag') == 'GEN']
    variants = [(m, uf, mp, sc) for m in ('center', 'interp', 'oversample', 'integrate') for uf in (False, True) for mp in (False, True) for sc in (True, False)]
    variants += [(m, False, mp, sc, True) for m in ('center', 'oversample') for mp in (False, True) for sc in (True, False)]      # compound models
    jobs = []
    for i, c in enumerate(cases):
        for k, v in enumerate(variants):
            if v[0] == 'integrate' and (q or i % 4):      # adaptive quadrature is slow
                if (i + k) % 16:
                    continue
            if q and (i + k) % 3 and v[0] != 'center':
                continue
            jobs.append((i, c, v))
    res = core.pmap(replay_case, jobs, chunksize=32)
    for vs in res:
        for v in vs:
            ctx.violation(*v)
    ctx.evaluations += len(jobs); ctx.traces += len(jobs); ctx.exhaustive = True
    # binding self-test: the same replay against a corrupted expectation (one pixel of the spec's image changed) must report
    probe = next((j for j in jobs if j[1]['any_overlap'] and j[2][:2] == ('center', False)), None)
    if probe is not None:
        badcase = core.jcopy(probe[1])
        img = badcase['image']
        r0, c0 = next((r, c) for r in range(len(img)) for c in range(len(img[0])) if img[r][c] != 0)
        img[r0][c0] += 1
        ctx.selftest('one pixel of the expected image changed', any(v[0] == 'image_is_superposition' for v in replay_case((probe[0], badcase, probe[2]))))
    ctx.nontrivial += sum(1 for c in cases if len(c['rows']) >= 2 and any(w['y1'] - w['y0'] < r['mh'] or w['x1'] - w['x0'] < r['mw'] for w, r in zip(c['windows'], c['rows'])))
    ctx.sample({'kind': 'GEN case', 'rows': cases[len(cases) // 2]['rows'], 'image': cases[len(cases) // 2]['image']})
    # the window rule itself (shared with C12 / C17): CutoutImage against Cutout.tla on the whole lattice
    ctx.mc('Cutout', 'MC_Cutout.cfg', workers=8)
    gc = ctx.tlc('Cutout', 'GEN_Cutout.cfg', part='GEN:Cutout', workers=1)
    ccases = [r for r in gc.records if r.get('_tag') == 'GEN']
    if q:
        ccases = ccases[::3]
    for vs in core.pmap(replay_cutout, ccases, chunksize=256):
        for v in vs:
            ctx.violation(*v)
    ctx.evaluations += len(ccases); ctx.traces += len(ccases)
    ov = core.pmap(oversample_case, [ctx.seed * 13 + i for i in range(64 if q else 600)], chunksize=8)
    for vs in ov:
        for v in vs:
            ctx.violation(*v)
    ctx.evaluations += len(ov); ctx.traces += len(ov)
    bb = core.pmap(bbox_rows_case, [ctx.seed * 17 + i for i in range(64 if q else 800)], chunksize=8)
    for vs in bb:
        for v in vs:
            ctx.violation(*v)
    ctx.evaluations += len(bb) * 4; ctx.traces += len(bb) * 4
    pr = core.pmap(psfphot_pairs, [ctx.seed * 7 + i for i in range(4 if q else 12)], procs=8, chunksize=1)
    for vs in pr:
        for v in vs:
            ctx.violation(*v)
    ctx.evaluations += len(pr) * 9; ctx.traces += len(pr) * 9
    ctx.assumptions += ['the linear probe model makes all discretisation methods agree exactly (integrate: 1e-9 relative)',
                        'PSF-photometry model images are compared with make_model_image of their own fit results (allclose 1e-9), residual exactly']


def replay(ctx, rep):
    print(json.dumps(rep, indent=1, default=str)[:6000])
