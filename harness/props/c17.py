"""C17 Centroid functions locate symmetric sources exactly and act per source.
spec/CentroidOps.tla (rational centre of mass, overlap_slices window rule, D4 action), CentroidLoop.tla (per-source keyword
dictionary; the pinned 'carried dictionary' loop is rejected by TLC), Trace_Centroid.tla (TLC as oracle for recorded calls)."""
import json, random, warnings
import numpy as np
from .. import core

S = 16384


def fx(v):
    return int(round(float(v) * S))


def funcs():
    from photutils.centroids import centroid_1dg, centroid_2dg, centroid_com, centroid_quadratic
    return {'com': centroid_com, 'quadratic': centroid_quadratic, '1dg': centroid_1dg, '2dg': centroid_2dg}


def call(fn, data, mask=None, error=None):
    with warnings.catch_warnings():
        warnings.simplefilter('ignore')
        try:
            x, y = fn(data, mask=mask) if error is None else fn(data, mask=mask, error=error)
        except Exception:  # noqa
            return None
    if not (np.isfinite(x) and np.isfinite(y)):
        return None
    return float(x), float(y)


def rec_com(seed):
    rng = random.Random(seed)
    h, w = rng.randint(3, 9), rng.randint(3, 9)
    data = [[rng.randint(-3, 20) if rng.random() < 0.8 else 0 for _ in range(w)] for _ in range(h)]
    bad = [[r, c] for r in range(h) for c in range(w) if rng.random() < 0.12]
    d = np.array(data, dtype=float)
    mask = None
    mode = rng.choice(['mask', 'nan', 'both', 'maskedarray'])
    if bad:
        if mode in ('mask', 'both', 'maskedarray'):
            mask = np.zeros((h, w), dtype=bool)
        for k, (r, c) in enumerate(bad):
            if mode == 'nan' or (mode == 'both' and k % 2):
                d[r, c] = np.nan if k % 3 else np.inf
            else:
                mask[r, c] = True
                if rng.random() < 0.5:
                    d[r, c] = 1e6          # poison under the mask
    if rng.random() < 0.1:
        d = np.zeros_like(d)
        data = [[0] * w for _ in range(h)]
    # the centre of mass is scale free: the same integers times a power of two (tiny physical units, huge counts) give the same centroid
    d = d * rng.choice([1.0, 1.0, 2.0 ** -60, 2.0 ** -30, 2.0 ** 40])
    res = call(funcs()['com'], d, mask)
    return {'id': seed, 'kind': 'com', 'data': data, 'bad': bad, 'isnan': res is None, 'x': fx(res[0]) if res else 0, 'y': fx(res[1]) if res else 0}


def rec_exact(seed):
    rng = random.Random(seed)
    name = rng.choice(['com', 'quadratic', '1dg', '2dg', 'quadratic_exact'])
    h, w = rng.randint(7, 15), rng.randint(7, 15)
    y, x = np.mgrid[:h, :w]
    if name == 'quadratic_exact':
        variant = rng.choice(['plain', 'plain', 'search_box', 'six_points', 'half_guess'])
        x0, y0 = rng.uniform(2.6, w - 3.6), rng.uniform(2.6, h - 3.6)
        if variant == 'search_box':          # the vertex near the lower-left corner: the search box around the guess is clipped there
            x0, y0 = rng.uniform(1.1, 2.4), rng.uniform(1.1, h - 3.6)
            if rng.random() < 0.5:
                x0, y0 = rng.uniform(1.1, w - 3.6), rng.uniform(1.1, 2.4)
        a, b = rng.uniform(0.5, 3), rng.uniform(0.5, 3)
        c = rng.uniform(-1, 1) * np.sqrt(a * b)
        data = 100.0 - a * (x - x0) ** 2 - b * (y - y0) ** 2 - c * (x - x0) * (y - y0)
        fq = funcs()['quadratic']
        if variant == 'search_box' and rng.random() < 0.6:
            # a point-symmetric source centred on a pixel near the lower / left edge (the fit box must be centred on the brightest pixel
            # of the clipped search box)
            x0, y0 = float(rng.randint(1, 2)), float(rng.randint(3, h - 4))
            if rng.random() < 0.5:
                x0, y0 = float(rng.randint(3, w - 4)), float(rng.randint(1, 2))
            data = 80.0 * np.exp(-0.5 * (((x - x0) / 1.6) ** 2 + ((y - y0) / 1.6) ** 2)) + 1.0
        if variant == 'half_guess':
            # guesses exactly half way between two pixels (ties round away from zero): next to the lower / left edge the guess 0.5 means
            # pixel 1, whose 3 x 3 neighbourhood is complete
            x0, y0 = rng.uniform(0.7, 1.3), rng.uniform(2.6, h - 3.6)
            gx, gy = 0.5, round(y0) - 0.5
            if rng.random() < 0.5:
                x0, y0 = rng.uniform(2.6, w - 3.6), rng.uniform(0.7, 1.3)
                gx, gy = round(x0) - 0.5, 0.5
            data = 100.0 - a * (x - x0) ** 2 - b * (y - y0) ** 2 - c * (x - x0) * (y - y0)
            res = call(lambda d, mask=None: fq(d, xpeak=gx, ypeak=gy, fit_boxsize=3, mask=mask), data)
        elif variant == 'search_box':
            fn = lambda d, mask=None: fq(d, xpeak=int(round(x0)) + rng.choice([-1, 0, 1]), ypeak=int(round(y0)) + rng.choice([-1, 0, 1]), fit_boxsize=3,  # noqa
                                         search_boxsize=rng.choice([3, 5]), mask=mask)
            res = call(fn, data)
        elif variant == 'six_points':
            # a 3x3 fit box with three masked corners: exactly six points, which still determine the six coefficients
            px, py = int(round(x0)), int(round(y0))
            mk = np.zeros(data.shape, dtype=bool)
            for dx, dy in rng.sample([(-1, -1), (-1, 1), (1, -1), (1, 1)], 3):
                mk[py + dy, px + dx] = True
            if rng.random() < 0.5:
                data = data.copy(); data[mk] = rng.choice([np.nan, 1e4]); use_mask = mk if not np.isnan(data[mk][0]) else None
            else:
                use_mask = mk
            res = call(lambda d, mask=None: fq(d, fit_boxsize=3, mask=use_mask), data)
        else:
            res = call(fq, data)
        return {'id': seed, 'kind': 'exact', 'func': name, 'isnan': res is None, 'x': fx(res[0]) if res else 0, 'y': fx(res[1]) if res else 0,
                'tx': fx(x0), 'ty': fx(y0), 'half': False}
    half = rng.random() < 0.5      # for centroid_quadratic a half-integer centre means tied maxima (known finding)
    # the symmetry centre is the centre of the frame (integer for odd sizes, half-integer for even sizes), so that the
    # whole cutout - not only the source - is point-symmetric
    if half:
        h += h % 2; w += w % 2
    else:
        h += 1 - h % 2; w += 1 - w % 2
    y, x = np.mgrid[:h, :w]
    cx, cy = (w - 1) / 2.0, (h - 1) / 2.0
    sx, sy = rng.uniform(1.2, 2.5), rng.uniform(1.2, 2.5)
    th = rng.uniform(0, np.pi)
    xr = (x - cx) * np.cos(th) + (y - cy) * np.sin(th)
    yr = -(x - cx) * np.sin(th) + (y - cy) * np.cos(th)
    data = rng.uniform(10, 200) * np.exp(-0.5 * ((xr / sx) ** 2 + (yr / sy) ** 2)) + rng.choice([0.0, 1.5])
    res = call(funcs()[name], data)
    return {'id': seed, 'kind': 'exact', 'func': name, 'isnan': res is None, 'x': fx(res[0]) if res else 0, 'y': fx(res[1]) if res else 0,
            'tx': fx(cx), 'ty': fx(cy), 'half': half}


def rec_pair(seed):
    rng = random.Random(seed)
    name = rng.choice(['com', 'quadratic', '1dg', '2dg'])
    rel = rng.choice(['flipx', 'flipy', 'rot180', 'transpose', 'rescale', 'maskedvalues'])
    h, w = rng.randint(9, 15), rng.randint(9, 15)
    qkw = None
    if name == 'quadratic' and rng.random() < 0.5:
        # explicit fit / search boxes, also larger than the (non-square) cutout: they are clipped to it axis by axis
        h, w = rng.choice([(7, 15), (8, 13), (15, 7), (9, 9), (11, 14)])
        qkw = {'fit_boxsize': rng.choice([5, 7, 9, 11, (5, 9), (9, 5), (5, 3), (3, 5), (7, 3)])}
        if rng.random() < 0.7:
            qkw['search_boxsize'] = rng.choice([7, 9, 11, 13, (7, 11), (11, 7)])
            qkw['xpeak'], qkw['ypeak'] = rng.randint(2, w - 3), rng.randint(2, h - 3)     # the search box around the guess decides which peak is fitted
        if rng.random() < 0.6:
            rel = 'transpose'
        if 'xpeak' in qkw and rng.random() < 0.5:
            rel = 'maskedvalues'      # a masked (and poisoned) pixel inside the search box around the guess
    y, x = np.mgrid[:h, :w]
    data = np.zeros((h, w))
    for _ in range(rng.randint(1, 2)):
        data += rng.uniform(30, 100) * np.exp(-0.5 * (((x - rng.uniform(3.5, w - 4.5)) / rng.uniform(1.3, 2.2)) ** 2 + ((y - rng.uniform(3.5, h - 4.5)) / rng.uniform(1.3, 2.2)) ** 2))
    if qkw and rng.random() < 0.5:
        # the brightest pixel one pixel away from an edge: the fit box is clipped there and shifted back into the frame
        ex, ey = rng.uniform(3.5, w - 4.5), rng.choice([1.0, h - 2.0]) + rng.uniform(-0.3, 0.3)
        if rng.random() < 0.5:
            ex, ey = rng.choice([1.0, w - 2.0]) + rng.uniform(-0.3, 0.3), rng.uniform(3.5, h - 4.5)
        data = 90.0 * np.exp(-0.5 * (((x - ex) / 1.8) ** 2 + ((y - ey) / 1.5) ** 2))
        qkw.pop('xpeak', None); qkw.pop('ypeak', None); qkw.pop('search_boxsize', None)
    data += np.random.default_rng(seed).uniform(0, 0.5, (h, w))
    mask = None
    if rel == 'maskedvalues' or rng.random() < 0.3:
        mask = np.random.default_rng(seed + 1).random((h, w)) < 0.06
        if qkw and 'xpeak' in qkw:
            mask[min(h - 1, qkw['ypeak'] + 1), max(0, qkw['xpeak'] - 1)] = True
    d2, m2 = data, mask
    if rel == 'flipx':
        d2, m2 = data[:, ::-1], None if mask is None else mask[:, ::-1]
    elif rel == 'flipy':
        d2, m2 = data[::-1, :], None if mask is None else mask[::-1, :]
    elif rel == 'rot180':
        d2, m2 = data[::-1, ::-1], None if mask is None else mask[::-1, ::-1]
    elif rel == 'transpose':
        d2, m2 = data.T, None if mask is None else mask.T
    elif rel == 'rescale':
        d2 = data * (rng.choice([0.125, 3.0, 8.0, 1000.0, 2.0 ** -50, 1e-17, 1e12]) if name in ('com', 'quadratic') else rng.choice([0.125, 3.0, 8.0, 1000.0]))
        if name in ('1dg', '2dg') and rng.random() < 0.3:
            # physical flux units (a separate relation name: the Gaussian fits are known not to move at all there, see known_findings.json)
            rel = 'rescale_to_small_units'
            d2 = data * rng.choice([2.0 ** -40, 2.0 ** -60])
    else:
        if rng.random() < 0.5:
            # an unmasked non-finite pixel elsewhere in the cutout (excluded automatically) next to the user mask
            free = np.argwhere(~mask)
            r_, c_ = free[rng.randrange(len(free))]
            data = data.copy(); data[r_, c_] = rng.choice([np.nan, np.inf])
        d2 = data.copy(); d2[mask] = rng.choice([-50.0, 1e5, 0.0])
    e1 = e2 = None
    if name in ('1dg', '2dg') and rel in ('maskedvalues', 'rescale', 'rescale_to_small_units') and rng.random() < 0.6:
        # the Gaussian centroids take an error array: the error values under the mask are as irrelevant as the data values
        e1 = np.sqrt(data + 1.0)
        e2 = e1 * (d2.flat[0] / data.flat[0] if rel.startswith('rescale') else 1.0)
        if rel == 'maskedvalues':
            e2 = e1.copy(); e2[mask] = rng.choice([1e6, 1e-6])
    f = f2 = funcs()[name]
    if qkw:
        import functools
        f = functools.partial(f, **qkw)
        q2 = dict(qkw)
        if rel == 'transpose':
            q2 = {k: (v[::-1] if isinstance(v, tuple) else v) for k, v in qkw.items()}
            if 'xpeak' in qkw:
                q2['xpeak'], q2['ypeak'] = qkw['ypeak'], qkw['xpeak']
        elif 'xpeak' in qkw:
            if rel in ('flipx', 'rot180'):
                q2['xpeak'] = w - 1 - qkw['xpeak']
            if rel in ('flipy', 'rot180'):
                q2['ypeak'] = h - 1 - qkw['ypeak']
        f2 = functools.partial(f2, **q2)
    r1 = call(f, data.copy(), None if mask is None else mask.copy(), e1)
    r2 = call(f2, np.ascontiguousarray(d2), None if m2 is None else np.ascontiguousarray(m2), e2)
    return {'id': seed, 'kind': 'pair', 'func': name, 'rel': rel, 'with_error': e1 is not None, 'w': w, 'h': h, 'isnan1': r1 is None, 'isnan2': r2 is None,
            'x1': fx(r1[0]) if r1 else 0, 'y1': fx(r1[1]) if r1 else 0, 'x2': fx(r2[0]) if r2 else 0, 'y2': fx(r2[1]) if r2 else 0}


def rec_loop(seed):
    from photutils.centroids import centroid_sources
    rng = random.Random(seed)
    h, w = rng.randint(8, 14), rng.randint(8, 14)
    data = (np.arange(h * w, dtype=float).reshape(h, w))
    err = data + 100000.0
    npos = rng.randint(1, 5)
    pos = [[rng.randint(0, 4 * (w - 1)), rng.randint(0, 4 * (h - 1))] for _ in range(npos)]
    if rng.random() < 0.4:      # near the edges
        pos[0] = [rng.choice([0, 1, 2, 4 * (w - 1) - 1, 4 * (w - 1)]), rng.choice([0, 3, 4 * (h - 1)])]
    fh, fw = rng.choice([1, 3, 5, 7]), rng.choice([3, 5, 7])
    fp_false = []
    use_fp = rng.random() < 0.5
    if use_fp:
        fh, fw = rng.choice([3, 4, 5, 6]), rng.choice([3, 4, 5])
        fp = np.ones((fh, fw), dtype=bool)
        for r in range(fh):
            for c in range(fw):
                if rng.random() < 0.25 and (r, c) != (fh // 2, fw // 2):
                    fp[r, c] = False
        fp_false = [[int(r), int(c)] for r, c in zip(*np.nonzero(~fp))]
    mask_l = [[r, c] for r in range(h) for c in range(w) if rng.random() < 0.05] if rng.random() < 0.6 else []
    has_error = rng.random() < 0.6
    has_peak = rng.random() < 0.5
    xpeak, ypeak = rng.randint(0, w - 1), rng.randint(0, h - 1)
    calls = []

    def probe(data, mask=None, error=None, xpeak=None, ypeak=None, extra=None):
        ny, nx = data.shape
        o = int(data[0, 0])
        rec = {'shape': [ny, nx], 'data_origin': [o // w, o % w], 'mask': [[int(r), int(c)] for r, c in zip(*np.nonzero(mask))] if mask is not None else [],
               'err_origin': [0, 0], 'err_shape': [0, 0], 'xpeak': -999 if xpeak is None else int(xpeak), 'ypeak': -999 if ypeak is None else int(ypeak),
               'kwargs_ok': extra == 'tag'}
        if error is not None and error.size == 0:
            rec['err_origin'] = [-1, -1]; rec['err_shape'] = [int(error.shape[0]), int(error.shape[1])]
        elif error is not None:
            e = int(error[0, 0]) - 100000
            rec['err_origin'] = [e // w, e % w]; rec['err_shape'] = [int(error.shape[0]), int(error.shape[1])]
        calls.append(rec)
        return 0.25, 0.5
    kw = {'extra': 'tag'}
    if has_error:
        kw['error'] = err
    if has_peak:
        kw['xpeak'] = xpeak; kw['ypeak'] = ypeak
    m = None
    if mask_l:
        m = np.zeros((h, w), dtype=bool)
        for r, c in mask_l:
            m[r, c] = True
    xs = [p[0] / 4.0 for p in pos]; ys = [p[1] / 4.0 for p in pos]
    raised = None
    try:
        with warnings.catch_warnings():
            warnings.simplefilter('ignore')
            if use_fp:
                xo, yo = centroid_sources(data, xs, ys, footprint=fp, mask=m, centroid_func=probe, **kw)
            else:
                xo, yo = centroid_sources(data, xs, ys, box_size=(fh, fw), mask=m, centroid_func=probe, **kw)
        out = [[int(round(4 * a)), int(round(4 * b))] for a, b in zip(xo, yo)]
    except ValueError as e:   # a completely masked cutout is a documented error
        raised = str(e)
        return None
    return {'id': seed, 'kind': 'loop', 'w': w, 'h': h, 'pos': pos, 'fh': fh, 'fw': fw, 'fp_false': fp_false, 'mask': mask_l,
            'has_error': has_error, 'has_peak': has_peak, 'xpeak': xpeak, 'ypeak': ypeak, 'calls': calls, 'out': out}


def rec_persource(seed):
    """centroid_sources result for a list = the centroid function applied to each position's cutout, any order"""
    from photutils.centroids import centroid_sources
    rng = random.Random(seed)
    name = rng.choice(['com', 'quadratic', '1dg', '2dg'])
    h, w = 30, 34
    y, x = np.mgrid[:h, :w]
    data = np.random.default_rng(seed).uniform(0, 0.3, (h, w))
    cen = [(8.3, 7.7), (14.1, 9.2), (24.6, 20.4), (11.0, 21.5)]
    for cx, cy in cen:
        data += 60 * np.exp(-0.5 * (((x - cx) / 1.8) ** 2 + ((y - cy) / 1.5) ** 2))
    idx = list(range(len(cen))); rng.shuffle(idx)
    idx = idx[:rng.randint(2, 4)]
    xs = [round(cen[i][0]) for i in idx]; ys = [round(cen[i][1]) for i in idx]
    fp = None
    if rng.random() < 0.5:
        fp = np.ones((9, 9), dtype=bool); fp[0, 0] = fp[0, 8] = fp[8, 0] = fp[8, 8] = False; fp[0, 1] = False
    err = np.sqrt(np.abs(data)) + 0.1
    kw = {}
    if name in ('1dg', '2dg') and rng.random() < 0.6:
        kw['error'] = err
    f = funcs()[name]
    with warnings.catch_warnings():
        warnings.simplefilter('ignore')
        d0 = data.copy()
        allx, ally = centroid_sources(data, xs, ys, box_size=9 if fp is None else None, footprint=fp, centroid_func=f, **kw)
        ok = bool(np.array_equal(d0, data))
        singles = [centroid_sources(data, [a], [b], box_size=9 if fp is None else None, footprint=fp, centroid_func=f, **kw) for a, b in zip(xs, ys)]
    recs = []
    for k in range(len(xs)):
        r1 = (allx[k], ally[k]); r2 = (singles[k][0][0], singles[k][1][0])
        recs.append({'id': 500000000 + seed * 10 + k, 'kind': 'pair', 'func': name, 'rel': 'rescale', 'w': w, 'h': h,
                     'isnan1': not np.isfinite(r1[0]), 'isnan2': not np.isfinite(r2[0]) or not ok,
                     'x1': fx(r1[0]) if np.isfinite(r1[0]) else 0, 'y1': fx(r1[1]) if np.isfinite(r1[0]) else 0,
                     'x2': fx(r2[0]) if np.isfinite(r2[0]) else 0, 'y2': fx(r2[1]) if np.isfinite(r2[0]) else 0, 'persource': True})
    return recs


def rec_any(seed):
    k = seed % 10
    if k < 2:
        return [rec_com(seed)]
    if k < 4:
        return [rec_exact(seed)]
    if k < 6:
        return [rec_pair(seed)]
    if k < 9:
        r = rec_loop(seed)
        return [r] if r else []
    return rec_persource(seed)


def run(ctx):
    q = ctx.quick
    ctx.rule = ('seeded records of five kinds (centre of mass on integer images, exactly known centres, D4/rescale/masked-value pairs, probe-recorded '
                'centroid_sources iterations, list-vs-single results), each accepted or rejected by TLC; non-trivial = loop records with >= 2 '
                'positions, pair records, com records with masked pixels')
    ctx.mc('CentroidLoop', 'MC_CentroidLoop.cfg', workers=2)
    bad = ctx.mc('CentroidLoop', 'MC_CentroidLoop_pinned.cfg', workers=2, expect_hold=False, check_ok=False)
    if 'PerSource' not in bad.violated:
        raise core.Machinery('vacuity guard: carried-dictionary loop not rejected')
    n = 1500 if q else 20000
    recs = [r for rs in core.pmap(rec_any, [ctx.seed * 31337 + i for i in range(n)], chunksize=16) for r in rs]
    ver = core.validate_batch(ctx, 'Trace_Centroid', recs, 'Trace:Centroid')
    nt = 0
    for r in recs:
        v = ver[r['id']]
        if not v['ok']:
            sig = {'kind': r['kind'], 'func': r.get('func'), 'rel': r.get('rel') if not r.get('persource') else 'list_vs_single', 'half_integer_centre': r.get('half'),
                   'npos_gt1': len(r.get('pos', [])) > 1, 'has_error': r.get('has_error'), 'has_peak': r.get('has_peak')}
            ctx.violation(v['clause'] if not r.get('persource') else 'result_independent_of_other_positions', sig, {'case': r})
        else:
            ctx.traces += 1
        if (r['kind'] == 'loop' and len(r['pos']) > 1) or r['kind'] == 'pair' or (r['kind'] == 'com' and r['bad']):
            nt += 1
    ctx.evaluations += len(recs); ctx.nontrivial += nt
    for kind in ('loop', 'com', 'pair'):
        ex = next((r for r in recs if r['kind'] == kind), None)
        if ex:
            ctx.sample({k: ex[k] for k in list(ex)[:12]})
    good = [r for r in recs if ver[r['id']]['ok'] and r['kind'] == 'loop' and r['has_error'] and len(r['pos']) > 1][:4]
    badr = []
    for k, r in enumerate(good):
        r2 = core.jcopy(r); r2['id'] = 10**9 + k
        r2['calls'][-1]['err_origin'][1] += 1
        badr.append(r2)
    good2 = [r for r in recs if ver[r['id']]['ok'] and r['kind'] == 'com' and not r['isnan']][:3]
    for k, r in enumerate(good2):
        r2 = core.jcopy(r); r2['id'] = 10**9 + 100 + k; r2['x'] += 40
        badr.append(r2)
    if badr:
        vb = core.validate_batch(ctx, 'Trace_Centroid', badr, 'SelfTest:Centroid', shards=2)
        ctx.selftest('shifted error-cutout origin / perturbed centre of mass', all(not v['ok'] for v in vb.values()))
    ctx.assumptions += ['positions compared in fixed point 2^-14 px with tolerance 2 units (1.2e-4 px)',
                        'centroid_quadratic on a point-symmetric source with tied maxima (half-integer centre) is a known finding and is not generated here']


def replay(ctx, rep):
    print(json.dumps(rep, indent=1, default=str)[:6000])
