"""C06 Deblending only refines segments and is independent of worker scheduling.
spec/Deblend.tla (all interleavings of submit/start/finish/collect/merge |= ScheduleIndependent, fresh labels, label-order merge,
termination; the 'appended' variant must FAIL as vacuity guard), DeblendOps.tla (serial allocation, Refines relation),
Trace_Deblend.tla (hook-event traces + Refines on recorded triples)."""
import json, os, pickle, random, warnings
import numpy as np
from .. import core


def gauss(shape, x0, y0, amp, sx, sy=None):
    y, x = np.mgrid[:shape[0], :shape[1]]
    sy = sy or sx
    return amp * np.exp(-0.5 * (((x - x0) / sx) ** 2 + ((y - y0) / sy) ** 2))


def make_hdr_scene(kids, seed):
    """high-dynamic-range variant: blends are a bright source with a faint companion (separated only by finely spaced low
    thresholds), and the first segment contains a non-positive pixel (forces the per-source fallback of the threshold mode)"""
    from photutils.segmentation import detect_sources
    cell = 40
    n = len(kids)
    shape = (36, cell * n + 10)
    data = np.zeros(shape)
    for i, k in enumerate(kids):
        cx, cy = cell * i + cell / 2, shape[0] / 2
        if k == 0:
            data += gauss(shape, cx, cy, 300, 2.5)
        else:
            data += gauss(shape, cx - 4, cy, 2000, 2.5) + gauss(shape, cx + 9 + (seed % 3), cy, 8, 2.0)
            if k >= 3:
                data += gauss(shape, cx - 4, cy + 11, 6, 2.0)
    with warnings.catch_warnings():
        warnings.simplefilter('ignore')
        segm = detect_sources(data, 0.5, npixels=4)
    if segm is not None:
        ys, xs = np.nonzero(segm.data == segm.labels[0])
        data[ys[0], xs[0]] = -0.25
    return data, segm


def make_scene(kids, seed, noise=0.0):
    """one cell per task; kids[i] components blended in cell i.  returns data, segm (labels with gaps, extra small segment)"""
    from photutils.segmentation import detect_sources
    rng = random.Random(seed)
    cell = 26
    n = len(kids)
    shape = (cell + 4, cell * n + 14)
    data = np.zeros(shape)
    for i, k in enumerate(kids):
        cx, cy = cell * i + cell / 2, shape[0] / 2
        comps = max(1, k)
        for j in range(comps):
            off = (j - (comps - 1) / 2) * 6.5
            data += gauss(shape, cx + off + rng.uniform(-0.3, 0.3), cy + rng.uniform(-1, 1) * (j % 2), 90 + 15 * rng.random() - 10 * j, 2.0)
    # a small extra segment that can never be deblended (area < 2 * npixels)
    data[2:4, shape[1] - 4:shape[1] - 2] += 50
    if noise:
        data += np.random.default_rng(seed).normal(0, noise, shape)
    with warnings.catch_warnings():
        warnings.simplefilter('ignore')
        segm = detect_sources(data, 2.0, npixels=4)
    return data, segm


def digest(segm):
    dm = sorted([int(k), [int(c) for c in v]] for k, v in segm.deblended_labels_inverse_map.items())
    return segm.data.dtype.str, segm.data.shape, segm.data.tobytes(), json.dumps(dm)


class _FakeFuture:
    def __init__(self, fn, args):
        self.fn, self.args = fn, args

    def result(self):
        return self.fn(*self.args)


def run_with_order(order, data, segm, **kw):
    """deblend_sources(nproc=2) with an in-process executor whose completion order is dictated (0-based task indices)"""
    import photutils.segmentation.deblend as D
    if not all(hasattr(D, a) for a in ('ProcessPoolExecutor', 'as_completed')):
        return None
    subs = []

    class FakeExecutor:
        def __init__(self, *a, **k):
            pass

        def __enter__(self):
            return self

        def __exit__(self, *a):
            return False

        def submit(self, fn, *args):
            # a process pool hands every task its own pickled copy of the callable and its arguments
            fn, args = pickle.loads(pickle.dumps((fn, args)))
            f = _FakeFuture(fn, args)
            subs.append(f)
            return f

    def fake_as_completed(fs):
        fl = list(fs)
        if sorted(order) != list(range(len(fl))):
            raise core.Machinery(f'dictated order {order} does not fit {len(fl)} submitted tasks')
        for idx in order:
            yield fl[idx]
    saved = D.ProcessPoolExecutor, D.as_completed
    D.ProcessPoolExecutor, D.as_completed = FakeExecutor, fake_as_completed
    try:
        with warnings.catch_warnings():
            warnings.simplefilter('ignore')
            return D.deblend_sources(data, segm, nproc=2, progress_bar=False, **kw)
    finally:
        D.ProcessPoolExecutor, D.as_completed = saved


def case_record(cid, data, segm, out, serial, events, kw, nproc, labels_arg=None):
    inp_before = kw['_inp_digest']
    tasks_all = [int(x) for x in (segm.labels if labels_arg is None else labels_arg)]
    areas = {int(l): int(a) for l, a in zip(segm.labels, segm.areas)}
    tasks = [l for l in tasks_all if areas[l] >= 2 * kw['npixels']]
    dm = sorted([int(k), [int(c) for c in v]] for k, v in out.deblended_labels_inverse_map.items())
    return {'id': cid, 'nproc': nproc, 'tasks': tasks, 'maxlab0': int(segm.max_label), 'relabel': bool(kw['relabel']),
            'npixels': kw['npixels'], 'contrast1': kw['contrast'] == 1, 'events': events, 'has_events': bool(events),
            'inp': segm.data.tolist(), 'out': out.data.tolist(), 'dmap': dm,
            'same_as_serial': digest(out) == digest(serial), 'input_unchanged': digest(segm)[:3] == inp_before[:3], 'finder_same': True}


def one_schedule_case(args):
    """spec -> code: one TLC behaviour (kids, completion order) through the real merge code with a dictated order"""
    cid, kids, order, seed = args
    from photutils.segmentation import deblend_sources
    import photutils.utils._verif as V
    data, segm = make_hdr_scene(kids, seed) if seed % 3 == 1 else make_scene(kids, seed)
    # label gaps: move one label up, so that max_label > nlabels
    segm = segm.copy()
    if segm.nlabels >= 2 and seed % 2 == 0:
        segm.reassign_label(int(segm.labels[0]), int(segm.max_label) + 3)
    kw = dict(npixels=4, nlevels=16, contrast=0.001, mode='exponential', connectivity=8, relabel=bool(seed % 3 == 0))
    before = digest(segm)
    with warnings.catch_warnings():
        warnings.simplefilter('ignore')
        serial = deblend_sources(data.copy(), segm, nproc=1, progress_bar=False, **kw)
    events = []
    V.set_sink(events)
    try:
        out = run_with_order([o - 1 for o in order], data, segm, **kw)
    finally:
        V.set_sink(None)
    if out is None:
        return None
    kw['_inp_digest'] = before
    rec = case_record(cid, data, segm, out, serial, events, kw, 2)
    rec['order'] = order; rec['kids'] = kids
    rec['hook_seen'] = bool(events)
    return rec


def real_pool_case(args):
    cid, kids, nproc, seed = args
    from photutils.segmentation import deblend_sources
    import photutils.utils._verif as V
    data, segm = make_scene(kids, seed, noise=0.3)
    kw = dict(npixels=4, nlevels=32, contrast=0.001, mode='exponential', connectivity=8, relabel=bool(seed % 2))
    before = digest(segm)
    with warnings.catch_warnings():
        warnings.simplefilter('ignore')
        serial = deblend_sources(data.copy(), segm, nproc=1, progress_bar=False, **kw)
        events = []
        V.set_sink(events)
        try:
            out = deblend_sources(data, segm, nproc=nproc, progress_bar=False, **kw)
        finally:
            V.set_sink(None)
    kw['_inp_digest'] = before
    rec = case_record(cid, data, segm, out, serial, events, kw, nproc)
    rec['hook_seen'] = bool(events)
    return rec


def touching_case(seed, rng):
    """a hand-made segmentation with touching segments: an L-shaped single-peaked parent with a bright neighbour in the corner of its
    bounding box; a pixel of the parent next to the neighbour is slightly brighter than its surroundings (an 'object' that lies mostly in
    the neighbour and pokes fewer than npixels pixels into the parent must not become a child)"""
    from photutils.segmentation import SegmentationImage, deblend_sources
    import photutils.utils._verif as V
    n1, n2 = rng.randint(9, 15), rng.randint(3, 6)
    h, w = rng.randint(6, 9), n1 + 6
    r0 = rng.randint(2, h - 4)
    peak = rng.randint(1, 3)
    prof = [max(8, int(100 * 0.5 ** (abs(k - peak - 1) / 1.2))) for k in range(n1)]
    data = np.zeros((h, w)); seg = np.zeros((h, w), dtype=int)
    data[r0, 3:3 + n1] = prof; data[r0 + 1, 3:3 + n1 - n2] = prof[:n1 - n2]
    seg[r0, 3:3 + n1] = 1; seg[r0 + 1, 3:3 + n1 - n2] = 1
    data[r0 + 1, 3 + n1 - n2:3 + n1] = rng.randint(70, 120); seg[r0 + 1, 3 + n1 - n2:3 + n1] = 2
    bump = 3 + n1 - n2 + rng.randint(0, n2 - 1)
    data[r0, bump] = rng.randint(40, 70)                       # brighter than its neighbours in the parent, next to segment 2
    if rng.random() < 0.5:                                     # mirrored / transposed variants
        data, seg = data[:, ::-1].copy(), seg[:, ::-1].copy()
    if rng.random() < 0.3:
        data, seg = data.T.copy(), seg.T.copy()
    segm = SegmentationImage(seg)
    kw = dict(npixels=rng.choice([n2, n2 + 1, 5]), nlevels=rng.choice([16, 32]), contrast=rng.choice([0, 0.001]), mode=rng.choice(['linear', 'exponential']),
              connectivity=rng.choice([4, 8]), relabel=rng.random() < 0.5)
    before = digest(segm)
    with warnings.catch_warnings():
        warnings.simplefilter('ignore')
        serial = deblend_sources(data.copy(), segm, nproc=1, progress_bar=False, **kw)
    kw['_inp_digest'] = before
    return case_record(seed, data, segm, serial, serial, [], kw, 1, None)


def enclosed_case(seed, rng):
    """a bright L-shaped two-core source whose bounding box ENCLOSES (without touching) a faint two-blob source; a flagged (NaN) pixel sits
    in the one-pixel gap between the blobs.  Each source must be deblended from the caller's pixel values only - whatever was done
    to the shared image while another source was being processed must not leak (serial run = pickled-copy run)"""
    from photutils.segmentation import deblend_sources, detect_sources
    import photutils.utils._verif as V
    a, f = rng.choice([8.0, 10.0, 15.0]), rng.choice([1.0, 2.0])
    gx = rng.randint(18, 21)
    data = np.zeros((38, 46))
    data[2:34, 2:6] = a; data[30:34, 2:42] = a
    data[8:12, 3:5] = 2 * a; data[31:33, 28:32] = 2 * a
    data[9:18, 11:gx + 9] = f
    data[10:17, 12:gx] = 4 * f; data[10:17, gx + 1:gx + 8] = 4 * f
    with warnings.catch_warnings():
        warnings.simplefilter('ignore')
        segm = detect_sources(data, 0.5, 5)
    flagged = data.copy()
    if rng.random() < 0.8:
        flagged[rng.randint(11, 15), gx] = np.nan
    if rng.random() < 0.5:
        flagged, segm = flagged[::-1, ::-1].copy(), type(segm)(segm.data[::-1, ::-1].copy())
    if rng.random() < 0.3:
        flagged, segm = flagged.T.copy(), type(segm)(segm.data.T.copy())
    kw = dict(npixels=5, nlevels=rng.choice([16, 32]), contrast=0.001, mode=rng.choice(['linear', 'exponential', 'sinh']), connectivity=8,
              relabel=rng.random() < 0.5)
    before = digest(segm)
    with warnings.catch_warnings():
        warnings.simplefilter('ignore')
        serial = deblend_sources(flagged.copy(), segm, nproc=1, progress_bar=False, **kw)
    events = []
    V.set_sink(events)
    try:
        out = run_with_order(rng.choice([[0, 1], [1, 0]]), flagged.copy(), segm, **kw)
    finally:
        V.set_sink(None)
    if out is None:
        out = serial
    kw['_inp_digest'] = before
    return case_record(seed, flagged, segm, out, serial, events, kw, 2 if events else 1, None)


def random_refine_case(seed):
    """code -> spec: random blended noisy scene, random parameters; Refines decided by TLC"""
    from photutils.segmentation import deblend_sources, detect_sources
    rng = random.Random(seed)
    if rng.random() < 0.15:
        return touching_case(seed, rng)
    if rng.random() < 0.08:
        return enclosed_case(seed, rng)
    h, w = rng.randint(14, 26), rng.randint(14, 30)
    data = np.zeros((h, w))
    for _ in range(rng.randint(2, 7)):
        data += gauss((h, w), rng.uniform(2, w - 2), rng.uniform(2, h - 2), rng.uniform(20, 120), rng.uniform(1.0, 2.6), rng.uniform(1.0, 2.6))
    data += np.random.default_rng(seed).normal(0, rng.choice([0.0, 0.5, 2.0]), (h, w))
    if rng.random() < 0.4:                 # hot pixels in the wings: islands smaller than npixels inside a parent
        for _ in range(rng.randint(1, 3)):
            data[rng.randrange(h), rng.randrange(w)] += rng.uniform(15, 80)
    if rng.random() < 0.3:
        data -= rng.uniform(0, 3)          # non-positive minima -> mode fallback
    npix = rng.choice([1, 2, 3, 5, 8])
    conn = rng.choice([4, 8])
    quiet = rng.random() < 0.15            # nothing will qualify (area < 2 * npixels) or nothing will split
    with warnings.catch_warnings():
        warnings.simplefilter('ignore')
        thr0 = rng.choice([1.5, 3.0, 6.0])
        segm = detect_sources(data, thr0, npixels=npix, connectivity=conn)
        if segm is None:
            return None
        finder_same = True
        if rng.random() < 0.3:
            # the one-step interface: SourceFinder(deblend=True) is detect_sources followed by deblend_sources with the same parameters
            from photutils.segmentation import SourceFinder
            fkw = dict(nlevels=rng.choice([4, 32]), contrast=rng.choice([0, 0.001, 0.05]), mode=rng.choice(['exponential', 'linear', 'sinh']), relabel=rng.random() < 0.5)
            sf = SourceFinder(npixels=npix, connectivity=conn, deblend=True, progress_bar=False, nproc=1, **fkw)(data, thr0)
            man = deblend_sources(data, segm, npixels=npix, connectivity=conn, progress_bar=False, **fkw)
            finder_same = sf is not None and digest(sf) == digest(man)
        segm = segm.copy()
        if rng.random() < 0.5 and segm.nlabels >= 2:      # label gaps / non-consecutive labels
            for l in rng.sample([int(x) for x in segm.labels], rng.randint(1, min(2, segm.nlabels))):
                segm.reassign_label(l, int(segm.max_label) + rng.randint(1, 4))
        if rng.random() < 0.3:
            # second pass: the input is an already deblended map (touching segments inside each other's bounding boxes), deblended
            # again on differently processed data (e.g. segmentation from the smoothed detection image, deblending on the raw one)
            try:
                first = deblend_sources(data, segm, npixels=npix, nlevels=8, contrast=0.001, connectivity=conn, progress_bar=False)
                if first.nlabels > segm.nlabels:
                    from photutils.segmentation import SegmentationImage
                    segm = SegmentationImage(first.data.copy())      # a plain map (no deblend bookkeeping carried over)
                    data = data + np.random.default_rng(seed + 17).normal(0, 1.5, (h, w)) + 0.3 * gauss((h, w), rng.uniform(2, w - 2), rng.uniform(2, h - 2), 60.0, 1.2, 1.2)
            except Exception:  # noqa
                pass
        if rng.random() < 0.35:
            # the caller's label array in another integer dtype (int64: built from a plain Python/NumPy integer array or read back from a file)
            from photutils.segmentation import SegmentationImage
            segm = SegmentationImage(segm.data.astype(rng.choice([np.int64, np.int64, np.int16, np.uint32])))
        if rng.random() < 0.35:
            # NaN-flagged pixels inside segments (segmentation made on a clean/convolved image, deblending on the flagged one); in crowded
            # scenes they lie inside the bounding boxes of OTHER deblending candidates
            ys, xs = np.nonzero(segm.data)
            data = data.copy()
            for k in rng.sample(range(len(ys)), min(len(ys), rng.randint(1, 5))):
                data[ys[k], xs[k]] = np.nan
        labels_arg = None
        if rng.random() < 0.3:
            labels_arg = sorted(rng.sample([int(x) for x in segm.labels], rng.randint(1, segm.nlabels)))
        if rng.random() < 0.35:
            data = data - rng.uniform(1.0, 6.0)     # deblend on differently background-subtracted data: segments hold values <= 0
        elif rng.random() < 0.25:
            data = data + rng.choice([1.0e7, 3.0e7])     # a large un-subtracted pedestal: the structure is only resolved in double precision
        if quiet:
            npix = int(max(segm.areas)) // 2 + 1 if rng.random() < 0.5 else npix
        kw = dict(npixels=npix, nlevels=rng.choice([1, 4, 32]) if not quiet else 1, contrast=rng.choice([0, 0, 0.001, 0.05, 0.3, 1]),
                  mode=rng.choice(['exponential', 'linear', 'sinh']), connectivity=conn, relabel=rng.random() < 0.5)
        before = digest(segm)
        serial = deblend_sources(data.copy(), segm, labels=labels_arg, nproc=1, progress_bar=False, **kw)   # every run gets a fresh image
        # a second, dictated-order run (reverse completion) must be identical
        ntasks = sum(1 for l, a in zip(segm.labels, segm.areas) if a >= 2 * npix and (labels_arg is None or int(l) in labels_arg))
        import photutils.utils._verif as V
        events = []
        V.set_sink(events)
        try:
            if ntasks:
                out = run_with_order(list(range(ntasks))[::-1], data, segm, labels=labels_arg, **kw)
            else:      # nothing qualifies for deblending: the multi-process entry must still give the serial result
                out = deblend_sources(data, segm, labels=labels_arg, nproc=2, progress_bar=False, **kw)
        finally:
            V.set_sink(None)
        if out is None:
            out = serial
    kw['_inp_digest'] = before
    rec = case_record(seed, data, segm, out, serial, events, kw, 2 if events else 1, labels_arg)
    rec['finder_same'] = bool(finder_same)
    return rec


def run(ctx):
    q = ctx.quick
    ctx.rule = ('schedules: every (child-count vector, completion order) TLC reaches in Deblend.tla is replayed through deblend_sources with an '
                'order-dictating executor and compared byte-wise with nproc=1; non-trivial = order is not the identity and >= 1 task was deblended; '
                'Refines: seeded random blended scenes validated by TLC')
    n = 4 if q else 5
    mc = core.make_cfg(ctx, 'MC_Deblend.cfg', N=n)
    r = ctx.mc('Deblend', mc, coverage=True, timeout=1800)
    ctx.need_coverage('Deblend', r, ['Submit', 'Start', 'Finish', 'Collect', 'Merge'])
    # vacuity guard: the wrong design (append in completion order) must violate ScheduleIndependent
    bad = ctx.mc('Deblend', core.make_cfg(ctx, 'MC_Deblend_appended.cfg', N=3), expect_hold=False, timeout=600, check_ok=False)
    if 'ScheduleIndependent' not in bad.violated:
        raise core.Machinery('vacuity guard: the appended-results design was not rejected by ScheduleIndependent')
    g = ctx.tlc('Deblend', core.make_cfg(ctx, 'GEN_Deblend.cfg', N=n), part='GEN:Deblend', workers=1, timeout=1800)
    beh = [(rec['kids'], rec['order']) for rec in g.records if rec.get('_tag') == 'GEN']
    if q:   # all orders for a fixed set of child-count vectors
        keep = {(0, 2, 2, 0), (2, 2, 2, 2), (2, 0, 0, 2)}
        beh = [b for b in beh if tuple(b[0]) in keep]
    cases = core.pmap(one_schedule_case, [(k, b[0], b[1], ctx.seed + k) for k, b in enumerate(beh)], chunksize=4, on_raise='drop')
    degraded = sum(1 for c in cases if c is None)
    cases = [c for c in cases if c is not None]
    if degraded:
        ctx.assumptions.append(f'{degraded} schedule replays skipped: deblend.ProcessPoolExecutor/as_completed not substitutable (real pools only)')
    pool = core.pmap(real_pool_case, [(10**6 + k, [2, 0, 2, 2], 2 + k % 2, ctx.seed + k) for k in range(2 if q else 6)], procs=2, chunksize=1, on_raise='drop') \
        if True else []
    refs = [c for c in core.pmap(random_refine_case, [ctx.seed * 104729 + 5000 + i for i in range(400 if q else 4000)], chunksize=8, on_raise='drop') if c is not None]
    allc = cases + pool + refs
    ver = core.validate_batch(ctx, 'Trace_Deblend', allc, 'Trace:Deblend')
    nontriv = set()
    for c in allc:
        v = ver[c['id']]
        if not v['ok']:
            ctx.violation(v['clause'], {'nproc': c['nproc'], 'relabel': c['relabel'], 'contrast1': c['contrast1'],
                                        'label_gaps': c['maxlab0'] > len(set(x for row in c['inp'] for x in row) - {0})},
                          {'case': {k: c[k] for k in c if k not in ()}})
        else:
            ctx.traces += 1
        if c.get('order') and c['order'] != sorted(c['order']) and c['dmap']:
            nontriv.add(json.dumps([c['kids'], c['order']]))
        elif not c.get('order') and c['dmap']:
            nontriv.add(str(c['id']))
    if pool and not all(c['hook_seen'] for c in pool):
        ctx.assumptions.append('hook events missing in real-pool runs (PHOTUTILS_VERIF hook not present): event clauses vacuous there')
    ctx.evaluations += len(allc); ctx.nontrivial += len(nontriv)
    if cases:
        ctx.sample({'kind': 'schedule replay', 'kids': cases[-1]['kids'], 'completion_order': cases[-1]['order'], 'events': cases[-1]['events'][:12], 'dmap': cases[-1]['dmap']})
    if pool:
        ctx.sample({'kind': 'real pool', 'nproc': pool[0]['nproc'], 'events': pool[0]['events'], 'dmap': pool[0]['dmap']})
    # binding self-test
    good = [c for c in allc if ver[c['id']]['ok'] and c['dmap']][:6]
    badc = []
    for k, c in enumerate(good):
        c2 = core.jcopy(c); c2['id'] = 10**9 + k
        if k % 3 == 0:
            # move one pixel of a child into the background
            ch = c2['dmap'][0][1][0]
            for r, row in enumerate(c2['out']):
                if ch in row:
                    row[row.index(ch)] = 0
                    break
        elif k % 3 == 1 and c2['events']:
            me = [e for e in c2['events'] if e['ev'] == 'merge']
            if me:
                me[-1]['max_before'] += 1
            else:
                c2['dmap'][0][1][0] += 50
        else:
            c2['dmap'][0][1][0] += 50
        badc.append(c2)
    if badc:
        vb = core.validate_batch(ctx, 'Trace_Deblend', badc, 'SelfTest:Deblend', shards=2)
        ctx.selftest('corrupted output pixel / merge event / map entry', all(not v['ok'] for v in vb.values()),
                     str({k: v['clause'] for k, v in vb.items()}))
    ctx.assumptions += ['byte comparison of outputs (same_as_serial, input_unchanged) is a harness projection',
                        'dictated completion orders use an in-process executor substituted for deblend.ProcessPoolExecutor/as_completed; '
                        'real ProcessPoolExecutor runs (spawn) are traced through the PHOTUTILS_VERIF hook']


def replay(ctx, rep):
    print(json.dumps(rep, indent=1, default=str)[:6000])
