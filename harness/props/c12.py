"""C12 PSF photometry recovers rendered scenes and keeps its bookkeeping straight.
spec/PSFBook.tla (grouped-fit permutation algebra: OwnRow for every group assignment; two wrong ungroup designs rejected),
Trace_PSFBook.tla (result tables validated: ids, single-linkage / supplied group ids by first appearance, group sizes, npixfit from the
window rule, flags, fixed parameters, recovery of rendered positions and fluxes, residual, scaling, iterative(1) = single)."""
import json, random, warnings
import numpy as np
from .. import core
from ..canon import digest

SP = 4096


def make_model(kind):
    import photutils.psf as P
    from astropy.nddata import NDData
    if kind in ('circ', 'circfree'):
        return P.CircularGaussianPRF(fwhm=3.1)
    if kind == 'gauss':
        return P.GaussianPRF(x_fwhm=3.4, y_fwhm=2.6, theta=0.0)
    y, x = np.mgrid[:25, :25]
    base = P.CircularGaussianPRF(fwhm=3.3)
    arr = base.evaluate(x, y, 1.0, 12.0, 12.0, 3.3)
    if kind == 'image':
        return P.ImagePSF(arr)
    arrs = []
    xy = [(0, 0), (60, 0), (0, 60), (60, 60)]
    for k, _ in enumerate(xy):
        arrs.append(base.evaluate(x, y, 1.0, 12.0, 12.0, 3.3 + 0.1 * k))
    return P.GriddedPSFModel(NDData(np.array(arrs), meta={'grid_xypos': xy, 'oversampling': 1}))


def _with_lbkg(init, value):
    t = init.copy()
    t['local_bkg'] = np.full(len(t), float(value))
    return t


def rec_scene(seed):
    from astropy.table import Table
    from photutils.background import LocalBackground
    from photutils.psf import IterativePSFPhotometry, PSFPhotometry, SourceGrouper
    from photutils.detection import DAOStarFinder
    warnings.simplefilter('ignore')
    rng = random.Random(seed)
    h, w = 40, 46
    mkind = rng.choice(['circ', 'circ', 'gauss', 'image', 'gridded', 'circfree'])     # circfree: the width is a free parameter starting off the truth
    model = make_model(mkind)
    n = rng.randint(1, 5)
    # true positions on the quarter-pixel lattice; clusters of close sources, sources near the edge
    pos = []
    for k in range(n):
        if pos and rng.random() < 0.5:
            bx, by = pos[rng.randrange(len(pos))]
            px, py = bx + rng.choice([-1, 1]) * rng.randint(16, 26), by + rng.randint(-8, 8)
        else:
            px, py = rng.randint(12, 4 * (w - 1) - 12), rng.randint(12, 4 * (h - 1) - 12)
        if rng.random() < 0.15:
            px = rng.choice([4, 8, 4 * (w - 1) - 6, 4 * (w - 1) + 1, 4 * (w - 1) + 2])     # the last two: in the outer half of the last column
        elif rng.random() < 0.05:
            py = rng.choice([4 * (h - 1) + 1, 4 * (h - 1) + 2, 3])
        px = min(max(px, 2), 4 * (w - 1) + 2); py = min(max(py, 2), 4 * (h - 1) + 2)
        if all((px - a) ** 2 + (py - b) ** 2 >= 14 ** 2 for a, b in pos):
            pos.append((px, py))
    n = len(pos)
    flux = [300.0 + 170.0 * k + 13.0 * ((k * k) % 7) for k in range(n)]
    order = list(range(n)); rng.shuffle(order)
    pos = [pos[k] for k in order]; flux = [flux[k] for k in order]
    y, x = np.mgrid[:h, :w]
    data = np.zeros((h, w))
    for (px, py), f in zip(pos, flux):
        m = model.copy(); m.x_0, m.y_0, m.flux = px / 4.0, py / 4.0, f
        data += np.asarray(m(x.astype(float), y.astype(float)))
    # optional sloping background with the exact local value supplied per source (local_bkg column)
    use_lbkg = rng.random() < 0.3
    slope = 0.15 if use_lbkg else 0.0
    data += slope * x + 2.0 * (1 if use_lbkg else 0)
    grouping = rng.choice(['grouper', 'grouper', 'supplied', 'both', 'none'])     # both: a grouper is configured and group_id is supplied (the column wins)
    t = rng.choice([20, 28, 40, 80])            # quarter pixels
    supplied = [rng.randint(1, 3) for _ in range(n)]
    mask_l = []
    if rng.random() < 0.4:
        k = rng.randrange(n)
        cx, cy = pos[k][0] // 4, pos[k][1] // 4
        mask_l = [[min(h - 1, max(0, cy + dy)), min(w - 1, max(0, cx + dx))] for dy, dx in ((2, 2), (2, 3), (-3, 1))]
        mask_l = [list(z) for z in {tuple(z) for z in mask_l}]
    # a dead block beside one source (outside its fit window, inside its local-background annulus) and non-finite pixels
    dead = []
    if mask_l and rng.random() < 0.6:
        k = rng.randrange(n)
        cx, cy = pos[k][0] // 4, pos[k][1] // 4
        dead = [[r, c] for r in range(max(0, cy - 9), min(h, cy + 10)) for c in range(cx + 6, min(w, cx + 11))]
        mask_l = [list(z) for z in {tuple(z) for z in mask_l + dead}]
    nan_l = []
    if rng.random() < 0.3:
        k = rng.randrange(n)
        cx, cy = pos[k][0] // 4, pos[k][1] // 4
        nan_l = [[min(h - 1, max(0, cy + rng.randint(-2, 2))), min(w - 1, max(0, cx + rng.randint(-2, 2)))]]
    use_lbkg_est = bool(mask_l) and rng.random() < 0.6
    fit = (rng.choice([5, 7]), rng.choice([5, 7, 9]))
    fix_x = rng.random() < 0.2
    bounds = rng.random() < 0.35
    bval = rng.choice([1.5, 0.25, 0.2]) if bounds else None       # tight bounds: some fits end on the bound (flag 32)
    init = Table()
    jit = [(rng.uniform(-0.35, 0.35), rng.uniform(-0.35, 0.35)) for _ in range(n)]
    # initial positions on the quarter lattice too (window rule is evaluated by TLC on them)
    ipos = [(px + int(round(4 * jx)), py + int(round(4 * jy))) for (px, py), (jx, jy) in zip(pos, jit)]
    if fix_x:
        ipos = [(px, ipy) for (px, _), (_, ipy) in zip(pos, ipos)]
    ipos = [(min(max(a, 0), 4 * (w - 1) + 2), min(max(b, 0), 4 * (h - 1) + 2)) for a, b in ipos]
    init['x'] = [a / 4.0 for a, _ in ipos]; init['y'] = [b / 4.0 for _, b in ipos]
    if grouping in ('supplied', 'both'):
        init['group_id'] = supplied
    if use_lbkg:
        init['local_bkg'] = [slope * (px / 4.0) + 2.0 for px, _ in pos]
    m = None
    if mask_l:
        m = np.zeros((h, w), dtype=bool)
        for r, c in mask_l:
            m[r, c] = True
    for r, c in nan_l:
        data[r, c] = [np.nan, np.inf][seed % 2]
    mod = model.copy()
    if fix_x:
        mod.x_0.fixed = True
    if mkind == 'circfree':
        mod.fwhm = 2.7; mod.fwhm.fixed = False
    from photutils.background import MeanBackground
    lbe = LocalBackground(6, 10, bkg_estimator=MeanBackground(sigma_clip=None)) if use_lbkg_est else None
    mk = lambda: PSFPhotometry(mod, fit, grouper=SourceGrouper(t / 4.0) if grouping in ('grouper', 'both') else None, aperture_radius=4,  # noqa
                               xy_bounds=(bval, bval) if bounds else None, localbkg_estimator=lbe)
    rec = {'id': seed, 'model': mkind, 'pos': [list(p) for p in ipos], 'h': h, 'w': w, 't': t, 'grouping': grouping, 'supplied': supplied,
           'mask': [list(z) for z in {tuple(z) for z in mask_l + nan_l}], 'nonfinite': bool(nan_l), 'lbkg_estimator': use_lbkg_est, 'maskblind_ok': True,
           'fit': list(fit), 'local_bkg': use_lbkg, 'raised': False, 'check_recovery': False, 'scaled_ok': True, 'scaled_tiny_ok': True, 'scaled_huge_ok': True, 'units_ok': True, 'iter_equal': True, 'n': n}
    try:
        ph = mk()
        # a uniform error map (as float64, or as the integer array a constant read noise is often stored in): uniform weights, same fit
        errmap = [None, None, np.full(data.shape, 2.0), np.full(data.shape, 2), np.full(data.shape, 3, dtype=np.int16)][seed % 5]
        res = ph(data, mask=m, error=errmap, init_params=init.copy())
        if m is not None:
            # the values stored under the mask are irrelevant (fit, local background, initial fluxes)
            da, db = data.copy(), data.copy()
            da[m] = 1e4; db[m] = -3e3
            ra, rb = mk()(da, mask=m, error=errmap, init_params=init.copy()), mk()(db, mask=m, error=errmap, init_params=init.copy())
            rec['maskblind_ok'] = bool(all(np.allclose(np.asarray(ra[cn], dtype=float), np.asarray(rb[cn], dtype=float), rtol=1e-6, atol=1e-6, equal_nan=True)
                                           for cn in ('x_fit', 'y_fit', 'flux_fit', 'local_bkg', 'flux_init', 'npixfit', 'flags')))
        rec.update(id_=None)
        rec['id'] = seed
        rec['ids'] = [int(v) for v in res['id']]
        g = lambda name: [float(v) for v in res[name]]  # noqa
        rec['group_id'] = [int(v) for v in res['group_id']]; rec['group_size'] = [int(v) for v in res['group_size']]
        rec['npixfit'] = [int(v) for v in res['npixfit']]; rec['flags'] = [int(v) for v in res['flags']]
        rec['x_fit'] = [int(round(v * SP)) for v in g('x_fit')]; rec['y_fit'] = [int(round(v * SP)) for v in g('y_fit')]
        rec['x_true'] = [int(round(p[0] / 4.0 * SP)) for p in pos]; rec['y_true'] = [int(round(p[1] / 4.0 * SP)) for p in pos]
        rec['flux_fit'] = [int(round(v / f * 16384)) for v, f in zip(g('flux_fit'), flux)]; rec['flux_true'] = [16384] * n
        # distance of each fitted position from the nearest bound of its box (units of 1e-9 px, capped); -1 without bounds
        gaps = []
        for xf, yf, (a, b) in zip(g('x_fit'), g('y_fit'), ipos):
            if not bounds:
                gaps.append(-1); continue
            gx = min(abs(xf - (a / 4.0 - bval)), abs(xf - (a / 4.0 + bval))) if not fix_x else 1.0
            gy = min(abs(yf - (b / 4.0 - bval)), abs(yf - (b / 4.0 + bval)))
            gaps.append(int(min(gx, gy, 1.0) * 1e9))
        rec['bound_gap'] = gaps
        rec['fixed_changed'] = [bool(fix_x and abs(xf - a / 4.0) > 0) for xf, (a, _) in zip(g('x_fit'), ipos)]
        rec['id'] = seed
        # recovery is demanded when every source is well constrained: complete unmasked windows, away from the edge, start within a pixel
        full = all(npx == fit[0] * fit[1] for npx in rec['npixfit'])
        grouped_ok = grouping != 'none' or all((a - c) ** 2 + (b - d) ** 2 > 36 ** 2 for k, (a, b) in enumerate(pos) for (c, d) in pos[k + 1:])
        merged_ok = grouping not in ('supplied', 'both')
        rec['check_recovery'] = bool(full and grouped_ok and merged_ok and not fix_x and not mask_l and not nan_l and mkind in ('circ', 'gauss', 'image', 'circfree'))
        if mkind == 'circfree':      # a free width per source makes blends degenerate: recovery is demanded for sources at least 9 px apart
            rec['check_recovery'] = rec['check_recovery'] and all((a - c) ** 2 + (b - d) ** 2 >= 36 ** 2 for k, (a, b) in enumerate(pos) for (c, d) in pos[k + 1:])
        if bounds:       # the truth must lie inside every xy_bounds box
            rec['check_recovery'] = rec['check_recovery'] and all(abs(a - c) / 4.0 < bval - 0.02 and abs(b - d) / 4.0 < bval - 0.02 for (a, b), (c, d) in zip(ipos, pos))
        if grouping == 'grouper':      # every close pair must actually be in one group for joint fitting to recover it
            rec['check_recovery'] = rec['check_recovery'] and all((a - c) ** 2 + (b - d) ** 2 <= t * t or (a - c) ** 2 + (b - d) ** 2 > 36 ** 2
                                                                  for k, (a, b) in enumerate(ipos) for (c, d) in ipos[k + 1:])
        if use_lbkg:      # a residual background slope inside the windows biases heavy blends: demand recovery only for separations >= 5 px
            rec['check_recovery'] = rec['check_recovery'] and all((a - c) ** 2 + (b - d) ** 2 >= 20 ** 2 for k, (a, b) in enumerate(pos) for (c, d) in pos[k + 1:])
        rec['tol_pos'] = int((2e-3 if not use_lbkg else 0.12) * SP) + 1; rec['tol_flux'] = int((2e-3 if not use_lbkg else 0.02) * 16384) + 1
        resid = ph.make_residual_image(data - slope * x - 2.0 * (1 if use_lbkg else 0), psf_shape=(15, 15))
        rec['resid_k'] = int(round(float(np.max(np.abs(resid[np.isfinite(resid)]))) / max(flux) * 16384 * 16)); rec['tol_resid'] = int((2e-3 if not use_lbkg else 0.02) * 16384 * 16)
        # scaling the image (and the supplied local backgrounds) scales the fluxes
        init3 = init.copy()
        if use_lbkg:
            init3['local_bkg'] = np.asarray(init['local_bkg']) * 3.0
        res3 = mk()(data * 3.0, mask=m, error=None if errmap is None else errmap * 3, init_params=init3)
        # (demanded for well-constrained scenes only: separately fitted heavy blends converge to ill-defined values)
        rec['scaled_ok'] = bool((not rec['check_recovery']) or np.allclose(np.asarray(res3['flux_fit']), 3.0 * np.asarray(res['flux_fit']), rtol=1e-5, atol=1e-5))
        # ... also by the factors that separate detector counts from physical flux units (exact powers of two: 2^-30 ~ 1e-9, 2^30 ~ 1e9)
        rec['scaled_tiny_ok'] = rec['scaled_huge_ok'] = True
        if rec['check_recovery'] and errmap is None and seed % 2 == 0:
            for tag, kk in (('scaled_tiny_ok', 2.0 ** -30), ('scaled_huge_ok', 2.0 ** 30)):
                initk = init.copy()
                if use_lbkg:
                    initk['local_bkg'] = np.asarray(init['local_bkg']) * kk
                resk = mk()(data * kk, mask=m, init_params=initk)
                rec[tag] = bool(np.allclose(np.asarray(resk['flux_fit']) / kk, np.asarray(res['flux_fit']), rtol=1e-5, atol=1e-5)
                                and np.allclose(np.asarray(resk['x_fit']), np.asarray(res['x_fit']), rtol=0, atol=1e-4))
        # the same scene with units: data in Jy, the supplied local backgrounds (and initial fluxes) written in mJy - the same physical
        # numbers must come back (or the call must refuse)
        rec['units_ok'] = True
        if seed % 4 == 1 and not nan_l:
            import astropy.units as u
            from astropy.table import QTable
            init_u = QTable(init)
            if use_lbkg:
                init_u['local_bkg'] = (np.asarray(init['local_bkg']) * 1000.0) * u.mJy
            else:
                init_u['local_bkg'] = np.full(n, 2500.0) * u.mJy
            du = (data + (0.0 if use_lbkg else 2.5)) * u.Jy
            try:
                ru = mk()(du, mask=m, error=None if errmap is None else errmap * u.Jy, init_params=init_u)
                ref = res if use_lbkg else mk()(data + 2.5, mask=m, error=errmap, init_params=Table(init, copy=True) if False else _with_lbkg(init, 2.5))
                rec['units_ok'] = bool(np.allclose(np.asarray(ru['flux_fit'].to_value(u.Jy)), np.asarray(ref['flux_fit'], dtype=float), rtol=1e-6, atol=1e-6, equal_nan=True)
                                       and np.allclose(np.asarray(ru['x_fit'], dtype=float), np.asarray(ref['x_fit'], dtype=float), rtol=1e-6, atol=1e-6, equal_nan=True))
            except (ValueError, u.UnitsError):
                pass          # refusing mixed units is allowed
        # IterativePSFPhotometry with one iteration equals PSFPhotometry on the shared columns
        if seed % 3 == 0:
            it = IterativePSFPhotometry(mod, fit, DAOStarFinder(1e9, 3.0), grouper=SourceGrouper(t / 4.0) if grouping in ('grouper', 'both') else None,
                                        aperture_radius=4, maxiters=1, xy_bounds=(bval, bval) if bounds else None, localbkg_estimator=lbe)
            if seed % 6 == 0:      # the same image, mask and errors carried by an NDData object
                from astropy.nddata import NDData, StdDevUncertainty
                r2 = it(NDData(data, mask=m, uncertainty=None if errmap is None else StdDevUncertainty(errmap)), init_params=init.copy())
            else:
                r2 = it(data, mask=m, error=errmap, init_params=init.copy())
            same = all(np.allclose(np.asarray(r2[cn], dtype=float), np.asarray(res[cn], dtype=float), rtol=1e-9, atol=1e-9, equal_nan=True)
                       for cn in ('id', 'group_id', 'x_fit', 'y_fit', 'flux_fit', 'npixfit', 'flags') if cn in r2.colnames)
            rec['iter_equal'] = bool(same and len(r2) == len(res))
        rec['id_list'] = rec.pop('ids')
    except Exception as e:  # noqa
        rec['raised'] = True; rec['exc'] = repr(e)
        for k in ('bound_gap', 'group_id', 'group_size', 'npixfit', 'flags', 'x_fit', 'y_fit', 'x_true', 'y_true', 'flux_fit', 'flux_true', 'fixed_changed'):
            rec.setdefault(k, [0] * n)
        rec.update(tol_pos=0, tol_flux=0, resid_k=0, tol_resid=0, id_list=list(range(1, n + 1)))
    rec.pop('id_', None)
    rec['idx'] = rec['id_list']
    return rec


# ------------------------------------------------------------------------------------------------ IterPSF.tla -> code
ITER_ROOTS = {1: (20.2, 20.4, 0.3), 2: (60.3, 22.1, 2.0), 3: (40.0, 50.0, -1.0)}


def iter_scene(depth, twin):
    """noise-free realisation of a forest of companion chains: source <<c, d>> has 0.18**(d-1) of the root flux and sits 3.6 px
    from <<c, d-1>> (hidden in its wing until that one is subtracted); twin chains run in parallel 4.6 px apart"""
    import math
    from photutils.psf import CircularGaussianPRF
    m = CircularGaussianPRF(fwhm=3.0)
    y, x = np.mgrid[:70, :90]
    nodes = {}
    for c, dep in enumerate(depth, start=1):
        rx, ry, ang = ITER_ROOTS[c]
        if c == 2 and twin:
            r1x, r1y, ang = ITER_ROOTS[1]
            rx, ry = r1x - 4.6 * math.sin(ang), r1y + 4.6 * math.cos(ang)
        f = 1000.0 - 70.0 * c
        for d in range(1, dep + 1):
            nodes[(c, d)] = (rx + 3.6 * (d - 1) * math.cos(ang), ry + 3.6 * (d - 1) * math.sin(ang), f)
            f *= 0.18
    data = np.zeros(x.shape)
    for (px, py, f) in nodes.values():
        data += m.evaluate(x, y, f, px, py, 3.0)
    return data, nodes


def replay_iter(c):
    from photutils.detection import DAOStarFinder
    from photutils.psf import CircularGaussianPRF, IterativePSFPhotometry, SourceGrouper
    warnings.simplefilter('ignore')
    depth, twin, mode, k = c['depth'], c['twin'], c['mode'], c['maxiters']
    sig = {'what': 'IterPSF', 'mode': mode, 'maxiters': k, 'twin': twin, 'depth': depth, 'stopped': c['stopped']}
    data, nodes = iter_scene(depth, twin)
    out = []
    try:
        ph = IterativePSFPhotometry(CircularGaussianPRF(fwhm=3.0), (5, 5), DAOStarFinder(1.0, 3.0), grouper=SourceGrouper(5.0), aperture_radius=4,
                                    maxiters=k, mode=mode)
        t = ph(data)
    except Exception as e:  # noqa
        return [('iterative_run_raises', sig, {'case': c, 'exc': repr(e)})]
    exp_nodes = [tuple(n) for b in c['blocks'] for n in b]
    rows = []
    for r in t:
        near = min(nodes, key=lambda n: (nodes[n][0] - float(r['x_fit'])) ** 2 + (nodes[n][1] - float(r['y_fit'])) ** 2)
        dist = ((nodes[near][0] - float(r['x_fit'])) ** 2 + (nodes[near][1] - float(r['y_fit'])) ** 2) ** 0.5
        rows.append((near if dist < 0.8 else None, int(r['id']), int(r['iter_detected']), int(r['group_id']), int(r['group_size']),
                     float(r['x_fit']), float(r['y_fit']), float(r['flux_fit'])))
    det = {'case': c, 'rows': [[list(r[0]) if r[0] else None] + list(r[1:5]) for r in rows]}
    if sorted(r[0] for r in rows if r[0]) != sorted(exp_nodes) or any(r[0] is None for r in rows):
        return [('table_holds_the_sources_detectable_within_maxiters_iterations', sig, det)]
    if [r[1] for r in rows] != list(range(1, len(rows) + 1)):
        out.append(('rows_in_input_order_with_ids_1_to_n', sig, det))
    if any(r[2] != r[0][1] for r in rows) or [r[2] for r in rows] != sorted(r[2] for r in rows):
        out.append(('iter_detected_is_the_iteration_of_first_detection', sig, det))
    got_groups = sorted(sorted(list(r[0]) for r in rows if r[3] == g) for g in {r[3] for r in rows})
    exp_groups = sorted(sorted(list(n) for n in g) for g in c['groups'])
    if got_groups != exp_groups:
        out.append(('group_ids_are_single_linkage_clusters_or_supplied', sig, dict(det, got_groups=got_groups)))
    else:
        first = []
        for r in rows:
            if r[3] not in first:
                first.append(r[3])
        if first != list(range(1, len(first) + 1)):
            out.append(('group_ids_numbered_by_first_appearance', sig, det))
        if any(r[4] != sum(1 for q in rows if q[3] == r[3]) for r in rows):
            out.append(('group_size_counts_group_members', sig, det))
    # all sources fitted together on the data once everything is detected: the rendered values come back
    if mode == 'all' and k >= max(depth):
        bad = [(r[0], r[5], r[6], r[7]) for r in rows if abs(r[5] - nodes[r[0]][0]) > 2e-3 or abs(r[6] - nodes[r[0]][1]) > 2e-3 or abs(r[7] / nodes[r[0]][2] - 1) > 2e-3]
        if bad:
            out.append(('recovers_rendered_positions', sig, dict(det, bad=str(bad)[:300])))
    return out


def rec_iter_trace(seed):
    """code -> spec: IterativePSFPhotometry on a random crowded, noisy scene for maxiters = 1..4; the tables are validated by
    Trace_IterPSF.tla as consecutive Iterate steps"""
    from photutils.detection import DAOStarFinder
    from photutils.psf import CircularGaussianPRF, IterativePSFPhotometry, SourceGrouper
    warnings.simplefilter('ignore')
    rng = random.Random(seed)
    h, w = 48, 56
    y, x = np.mgrid[:h, :w]
    m = CircularGaussianPRF(fwhm=3.0)
    data = np.zeros((h, w))
    n = rng.randint(0, 6)
    for _ in range(n):
        px, py, f = rng.uniform(4, w - 5), rng.uniform(4, h - 5), rng.uniform(200, 1500)
        data += m.evaluate(x, y, f, px, py, 3.0)
        for _ in range(rng.randint(0, 2)):          # companions of decreasing brightness
            ang = rng.uniform(0, 2 * np.pi); px, py, f = px + 3.4 * np.cos(ang), py + 3.4 * np.sin(ang), f * rng.uniform(0.1, 0.3)
            data += m.evaluate(x, y, f, px, py, 3.0)
    data += np.random.default_rng(seed).normal(0, rng.choice([0.0, 0.2, 0.6]), (h, w))
    mode = rng.choice(['new', 'all'])
    sep = rng.choice([4.0, 6.0, 9.0])
    thr = rng.choice([1.5, 3.0])
    tables = []
    rec = {'id': seed, 'mode': mode, 'tables': tables, 'raised': False, 'h': h, 'w': w, 'half': 160}      # half = 64 * fit_shape / 2
    try:
        for k in (1, 2, 3, 4):
            ph = IterativePSFPhotometry(CircularGaussianPRF(fwhm=3.0), (5, 5), DAOStarFinder(thr, 3.0), grouper=SourceGrouper(sep), aperture_radius=4,
                                        maxiters=k, mode=mode)
            t = ph(data)
            if t is None:
                tables.append({'ids': [], 'iters': [], 'gids': [], 'gsizes': [], 'key': [], 'x': [], 'y': []})
                continue
            key = [int(digest([float(a), float(b), float(c)])[:7], 16) for a, b, c in zip(t['x_fit'], t['y_fit'], t['flux_fit'])]
            tables.append({'ids': [int(v) for v in t['id']], 'iters': [int(v) for v in t['iter_detected']], 'gids': [int(v) for v in t['group_id']],
                           'gsizes': [int(v) for v in t['group_size']], 'key': key,
                           'x': [int(round(max(-1e6, min(1e6, float(v))) * 64)) for v in t['x_fit']], 'y': [int(round(max(-1e6, min(1e6, float(v))) * 64)) for v in t['y_fit']]})
    except Exception as e:  # noqa
        rec['raised'] = True; rec['exc'] = repr(e)
    return rec


def run(ctx):
    q = ctx.quick
    ctx.rule = ('seeded scenes rendered from the fitted PSF model (Gaussian PRFs, image-based, gridded), 1-5 sources with distinct fluxes in shuffled row order, '
                'clusters of close sources and sources near the edge, grouper thresholds / supplied group ids (with and without a grouper) / no grouping, masks incl. dead blocks, '
                'NaN/inf pixels, local-background estimator, fit shapes, fixed x, xy bounds; '
                'non-trivial = >= 2 sources with a non-trivial group structure or a clipped / masked window')
    ctx.mc('PSFBook', 'MC_PSFBook.cfg', workers=8)
    for b in ('MC_PSFBook_bad1.cfg', 'MC_PSFBook_bad2.cfg'):
        r = ctx.mc('PSFBook', b, workers=2, expect_hold=False, check_ok=False)
        if 'OwnRow' not in r.violated:
            raise core.Machinery(f'vacuity guard: {b} not rejected')
    # IterativePSFPhotometry as a state machine: every state of IterPSF.tla is the predicted table of a run with maxiters = it
    ctx.mc('IterPSF', 'MC_IterPSF.cfg', workers=4)
    for b, inv in (('MC_IterPSF_bad1.cfg', 'GidsContiguous'), ('MC_IterPSF_bad2.cfg', 'GroupsAreFitGroups')):
        r = ctx.mc('IterPSF', b, workers=2, expect_hold=False, check_ok=False)
        if inv not in r.violated:
            raise core.Machinery(f'vacuity guard: {b} not rejected')
    g = ctx.tlc('IterPSF', 'GEN_IterPSF.cfg', part='GEN:IterPSF', workers=1)
    icases = [rec for rec in g.records if rec.get('_tag') == 'GEN']
    if q:
        icases = icases[ctx.seed % 2::2]
    for vs in core.pmap(replay_iter, icases, chunksize=2):
        for v in vs:
            ctx.violation(*v)
    ctx.evaluations += len(icases); ctx.traces += len(icases)
    ctx.nontrivial += sum(1 for c in icases if len(c['blocks']) >= 2)
    ctx.sample({'kind': 'GEN IterPSF state', **{k: icases[len(icases) // 2][k] for k in ('depth', 'twin', 'mode', 'maxiters', 'blocks', 'groups')}})
    # ... and recorded executions on arbitrary scenes are validated against the same step structure (Trace_IterPSF.tla)
    itr = core.pmap(rec_iter_trace, [ctx.seed * 7907 + 10**6 + i for i in range(96 if q else 1500)], chunksize=2, on_raise='drop')
    for r in itr:
        if r['raised']:
            ctx.violation('iterative_run_raises', {'what': 'IterPSF trace', 'mode': r['mode']}, {'case': r})
    itr = [r for r in itr if not r['raised']]
    iv = core.validate_batch(ctx, 'Trace_IterPSF', itr, 'Trace:IterPSF', shards=8)
    for r in itr:
        v = iv[r['id']]
        if not v['ok']:
            ctx.violation(v['clause'], {'what': 'IterPSF trace', 'mode': r['mode'], 'sizes': [len(t['ids']) for t in r['tables']]}, {'case': r})
        else:
            ctx.traces += 1
    ctx.evaluations += len(itr)
    ctx.nontrivial += sum(1 for r in itr if len(r['tables'][-1]['ids']) > len(r['tables'][0]['ids']))
    grown = [r for r in itr if iv[r['id']]['ok'] and len(r['tables'][1]['ids']) > len(r['tables'][0]['ids'])][:4]
    if grown:
        ctx.sample({'kind': 'IterPSF trace', 'mode': grown[0]['mode'], 'iter_detected': [t['iters'] for t in grown[0]['tables']], 'group_id': [t['gids'] for t in grown[0]['tables']]})
        bad = []
        for k, r in enumerate(grown):
            r2 = core.jcopy(r); r2['id'] = 10**9 + 500 + k
            if k % 2:
                r2['tables'][1]['iters'][-1] = 1           # a source of iteration 2 claims iteration 1
            else:
                r2['tables'][1]['ids'][-1] += 1            # an id is skipped
            bad.append(r2)
        vb = core.validate_batch(ctx, 'Trace_IterPSF', bad, 'SelfTest:IterPSF', shards=1)
        ctx.selftest('corrupted iteration / id of an appended row', all(not v['ok'] for v in vb.values()))
    n = 320 if q else 5000
    recs = core.pmap(rec_scene, [ctx.seed * 9301 + i for i in range(n)], chunksize=2, on_raise='drop')
    for r in recs:      # rename for the trace spec (id = case id, idx = id column)
        r['id_col'] = r.pop('idx'); r.pop('id_list', None)
    ver = core.validate_batch(ctx, 'Trace_PSFBook', [dict(r, **{'id': r['id']}) for r in recs], 'Trace:PSFBook')
    for r in recs:
        v = ver[r['id']]
        if not v['ok']:
            ctx.violation(v['clause'], {'model': r['model'], 'grouping': r['grouping'], 'masked': bool(r['mask']), 'nonfinite': r['nonfinite'], 'lbkg_estimator': r['lbkg_estimator'], 'n': r['n']}, {'case': r})
        else:
            ctx.traces += 1
    ctx.evaluations += len(recs)
    ctx.nontrivial += sum(1 for r in recs if not r['raised'] and (len(set(r['group_id'])) not in (1, r['n']) or r['mask'] or any(f % 2 for f in r['flags'])))
    ex = next(r for r in recs if not r['raised'] and r['n'] >= 3)
    ctx.sample({k: ex[k] for k in ('model', 'pos', 't', 'grouping', 'group_id', 'group_size', 'npixfit', 'flags')})
    good = [r for r in recs if ver[r['id']]['ok'] and not r['raised'] and r['n'] >= 2][:4]
    bad = []
    for k, r in enumerate(good):
        r2 = core.jcopy(r); r2['id'] = 10**9 + k
        if k % 2:
            r2['npixfit'][0] -= 1
        else:
            r2['group_size'][0] += 1
        bad.append(r2)
    if bad:
        vb = core.validate_batch(ctx, 'Trace_PSFBook', bad, 'SelfTest:PSFBook', shards=2)
        rej = [not v['ok'] for v in vb.values()]
        ctx.selftest('perturbed npixfit / group_size', sum(rej) >= len(rej) - 1, f'{sum(rej)}/{len(rej)} (separation ties are don\'t-care)')
    ctx.assumptions += ['recovery clauses apply only to well-constrained scenes (complete unmasked windows, close pairs fitted jointly); tolerances 2e-3 px / 2e-3 relative',
                        'fitters other than the default are not exercised']


def replay(ctx, rep):
    print(json.dumps(rep, indent=1, default=str)[:6000])
