"""C10 No public call modifies the arrays, tables or models passed to it.
spec/Alias.tla: the programs quantifier (entry x representation x condition, with the inapplicable combinations declared in TLA+),
InputsUntouched over recorded store ids, completeness of the executed program set."""
import copy, json, warnings
import numpy as np
from .. import core
from ..canon import digest
from .. import entries as E


def build_inputs(entry, rep, cond):
    """caller-owned store for one program"""
    import astropy.units as u
    from astropy.table import Table
    base = E.base_scene(seed=3)
    d, err, mask, bkg = base['data'].copy(), base['error'].copy(), base['mask'].copy(), base['bkg'].copy()
    if cond == 'nonfinite':
        d[8, 9] = np.nan; d[12, 22] = np.inf; d[0, 0] = np.nan; d[21, 14] = -np.inf
        err[5, 5] = np.nan
    if cond == 'negative':
        d -= 30.0
    store = {}
    segm = E._segm({'data': base['data']})

    def wrap(a, name):
        if rep == 'view':
            big = np.zeros((a.shape[0] * 2 + 3, a.shape[1] * 2 + 1), dtype=a.dtype)
            big[1:1 + 2 * a.shape[0]:2, 1:1 + 2 * a.shape[1]:2] = a
            store[name + '_parent'] = big
            return big[1:1 + 2 * a.shape[0]:2, 1:1 + 2 * a.shape[1]:2]
        if rep == 'quantity' and a.dtype != bool:
            return a * u.Jy
        if rep == 'f4' and a.dtype != bool:
            return a.astype(np.float32)
        return a
    if rep == 'masked':
        store['data'] = np.ma.MaskedArray(d, mask=(mask.copy() if cond in ('masked', 'nonfinite') else np.zeros_like(mask)))
    else:
        store['data'] = wrap(d, 'data')
    store['error'] = wrap(err, 'error')
    if rep == 'masked':      # the error map as a MaskedArray that owns a mask array too
        em = np.zeros(E.SHAPE, dtype=bool); em[1, 1] = True; em[25, 3] = True
        store['error'] = np.ma.MaskedArray(err, mask=em)
    if entry == 'calc_total_error':      # an exposure / gain map with uncovered (zero) pixels
        gm = np.full(E.SHAPE, 2.0); gm[0:3, :] = 0.0; gm[10, 10] = 0.0
        store['gain_map'] = wrap(gm, 'gain_map') if rep != 'quantity' else None
    store['bkg'] = wrap(bkg, 'bkg')
    if cond in ('masked', 'nonfinite'):
        store['mask'] = wrap(mask, 'mask') if rep == 'view' else mask
    if cond == 'invalid':
        store['mask'] = np.zeros((3, 3), dtype=bool)
    if cond == 'emptymask':            # a mask array is supplied but selects nothing
        store['mask'] = np.zeros(E.SHAPE, dtype=bool)
    if entry in ('epsf', 'epsf_weights'):
        from astropy.nddata import NDData, StdDevUncertainty
        store['nddata_data'] = np.asarray(getattr(store['data'], 'value', store['data']), dtype=float).copy() if not isinstance(store['data'], np.ma.MaskedArray) else np.asarray(store['data'].filled(0.0))
        store['nddata_unc'] = np.asarray(getattr(store['error'], 'value', store['error']), dtype=float).copy()
        store['nddata_mask'] = None if store.get('mask') is None or store['mask'].shape != E.SHAPE else store['mask']
        unc = E.weights_uncertainty(store['nddata_unc']) if entry == 'epsf_weights' else StdDevUncertainty(store['nddata_unc'])
        store['nddata'] = NDData(store['nddata_data'], uncertainty=unc, mask=store['nddata_mask'])
        st = Table(); st['x'] = [p[0] for p in E._positions()]; st['y'] = [p[1] for p in E._positions()]
        store['stars_table'] = st
    store['segm'] = segm
    store['coverage_mask'] = None
    if entry == 'background2d' and cond == 'masked':
        cm = np.zeros(E.SHAPE, dtype=bool); cm[:, :3] = True
        store['coverage_mask'] = cm
    # other caller-owned arguments
    y, x = np.mgrid[:7, :7]
    store['kernel'] = np.exp(-0.5 * (((x - 3) / 1.5) ** 2 + ((y - 3) / 1.5) ** 2)) * 5.0
    store['footprint'] = np.ones((3, 5), dtype=bool)
    fp7 = np.ones((7, 7), dtype=bool); fp7[0, 0] = fp7[6, 6] = fp7[0, 6] = False
    store['footprint7'] = fp7
    t = Table(); t['x'] = [p[0] + 0.2 for p in E._positions()]; t['y'] = [p[1] - 0.1 for p in E._positions()]
    if cond == 'masked':
        t['group_id'] = [1, 1, 2, 3]
    if rep == 'quantity' and entry == 'psf_photometry':
        # initial guesses written in a convertible unit (data in Jy, guesses in mJy): converted in a copy
        from astropy.table import QTable
        t = QTable(t)
        t['flux'] = np.array([450.0, 720.0, 585.0, 300.0])[:len(t)] * 1000.0 * u.mJy
        t['local_bkg'] = np.array([10.0, -20.0, 5.0, 0.0])[:len(t)] * u.mJy
    store['table'] = t
    store['model'] = E._psf_model()
    yy, xx = np.mgrid[:9, :11]
    store['xgrid'] = xx.astype(float); store['ygrid'] = yy.astype(float)
    store['psfdata'] = np.exp(-0.5 * (((xx - 5) / 1.5) ** 2 + ((yy - 4) / 1.5) ** 2))
    store['xarr'] = np.array([p[0] for p in E._positions()] + [10.0, 23.5]); store['yarr'] = np.array([p[1] for p in E._positions()] + [9.0, 12.5])
    p = Table(); p['x_0'] = [q[0] for q in E._positions()]; p['y_0'] = [q[1] for q in E._positions()]; p['flux'] = [100.0, 200.0, 50.0, 80.0]
    p['local_bkg'] = [1.0, 0.0, 2.0, 0.5]
    store['params'] = p
    gy, gx = np.mgrid[:41, :41]
    store['galaxy'] = 200.0 * np.exp(-np.sqrt(((gx - 20.3) ** 2 + ((gy - 19.8) / 0.7) ** 2)) / 5.0)
    store['idw_pos'] = np.array(E._positions()); store['idw_vals'] = np.array([1.0, 2.0, 3.0, 4.0])
    store['local_bkg'] = np.array([0.5, 1.0, 0.0, 2.0, 0.1])
    # configured helper objects handed to other objects (they must come back as configured)
    if entry in ('background2d', 'psf_photometry'):
        import photutils.background as B
        from astropy.stats import SigmaClip
        from photutils.detection import DAOStarFinder
        from photutils.psf import SourceGrouper
        store['bkg_estimator'] = B.MedianBackground()                     # default: sigma_clip = SigmaClip(3)
        store['bkgrms_estimator'] = B.MADStdBackgroundRMS()
        store['sigma_clip_obj'] = SigmaClip(sigma=2.5, maxiters=4)
        store['interpolator'] = B.BkgZoomInterpolator(order=2)
        store['grouper'] = SourceGrouper(9.0)
        store['localbkg_est'] = B.LocalBackground(5, 9, bkg_estimator=B.MedianBackground())
        store['finder'] = DAOStarFinder(10.0, 3.5)
        # (an astropy fitter is not tracked: storing fit_info on itself is the documented behaviour of astropy's fitters)
    # caller-owned size arguments given as arrays, larger than the image (they are clipped to it - in a copy)
    store['box_size_arr'] = np.array([40, 50]); store['border_width_arr'] = np.array([2, 50])
    store['fit_boxsize_arr'] = np.array([15, 17]); store['search_boxsize_arr'] = np.array([21, 15])
    if entry == 'plotting':
        from photutils.aperture import EllipticalAperture, RectangularAperture
        store['apertures_more'] = [EllipticalAperture(E._positions()[0], 4.0, 2.0, theta=0.3), RectangularAperture(E._positions(), 4.0, 2.0)]
    if entry in ('aperture_photometry', 'aperture_stats', 'plotting'):
        from astropy.stats import SigmaClip
        from photutils.aperture import CircularAnnulus, CircularAperture
        store['ap_positions'] = np.array(E._positions() + [(1.0, 1.0)])
        store['aperture5'] = CircularAperture(store['ap_positions'], 4.0)
        store['apertures'] = [CircularAperture(E._positions(), 3.0), CircularAnnulus(E._positions(), 4.0, 6.0)]
        store['sigma_clip_obj'] = SigmaClip(sigma=3.0, maxiters=3)
    if entry == 'source_catalog' and rep in ('ndarray', 'view') and cond in ('clean', 'negative'):
        from photutils.segmentation import SourceCatalog
        store['detection_data'] = np.asarray(base['data'], dtype=float) + 1.0
        store['detection_cat'] = SourceCatalog(store['detection_data'], segm)
    store['sigclip'] = cond in ('nonfinite', 'negative')
    store['localbkg_width'] = 4 if cond == 'negative' else 0
    if cond == 'invalid' and entry in E.NOIMG_INVALID:
        E.NOIMG_INVALID[entry](store)
    if rep == 'quantity':
        store['thr'] = 12.0 * u.Jy
        store['gain'] = 2.0 / u.Jy
    return store


def describe(obj, depth=0):
    """public configuration of a helper object (estimator, sigma clip, interpolator, grouper, finder, fitter): type + public attributes"""
    if isinstance(obj, (bool, int, float, str, type(None))):
        return obj
    if isinstance(obj, (np.ndarray, np.generic)):
        return ['array', digest(np.asarray(obj))]
    if isinstance(obj, (list, tuple)):
        return [describe(x, depth + 1) for x in obj]
    if isinstance(obj, dict):
        return {str(k): describe(v, depth + 1) for k, v in sorted(obj.items(), key=lambda kv: str(kv[0]))}
    if callable(obj) and not hasattr(obj, '__dict__'):
        return getattr(obj, '__name__', type(obj).__name__)
    d = {'__type__': type(obj).__name__}
    if depth < 3:
        for k, v in sorted(getattr(obj, '__dict__', {}).items()):
            if not k.startswith('_'):
                d[k] = describe(v, depth + 1) if not callable(v) or hasattr(v, '__dict__') else getattr(v, '__name__', type(v).__name__)
    return d


def snapshot(store):
    out = {}
    for k, v in store.items():
        if isinstance(v, (bool, int, float, type(None))) or k == 'nddata':
            continue
        if hasattr(v, 'deblended_labels_inverse_map') and hasattr(v, 'data'):      # SegmentationImage
            out[k] = digest([np.asarray(v.data), sorted((int(a), [int(c) for c in b]) for a, b in v.deblended_labels_inverse_map.items())])
        elif k == 'detection_cat':
            out[k] = digest([np.asarray(v.labels), np.asarray(v.xcentroid), np.asarray(v.ycentroid), np.asarray(v.kron_radius.value), list(v.extra_properties)])
        elif k in ('apertures', 'aperture5', 'apertures_more'):      # defining parameters only (lazily cached derived attributes live in __dict__ too)
            aps = v if isinstance(v, list) else [v]
            out[k] = digest([[type(a).__name__, np.asarray(a.positions), {q: float(getattr(getattr(a, q), 'value', getattr(a, q))) for q in a._params if q != 'positions'}] for a in aps])
        elif type(v).__module__.split('.')[0] in ('photutils', 'astropy') and not hasattr(v, 'param_names') and not hasattr(v, 'colnames') \
                and not isinstance(v, np.ndarray) and not hasattr(v, 'uncertainty'):
            out[k] = digest(describe(v))
        elif hasattr(v, 'param_names'):
            out[k] = digest([[float(np.ravel(getattr(v, n).value)[0]) for n in v.param_names], [bool(getattr(v, n).fixed) for n in v.param_names]])
        elif isinstance(v, np.ma.MaskedArray):      # values, mask and the fill value (reading it here also materialises it, as user code may have)
            out[k] = digest([v, repr(v.fill_value), str(v.dtype)])
        else:
            try:
                out[k] = digest(v)
            except Exception:  # noqa
                out[k] = repr(type(v))
    return out


def run_program(args):
    pid, entry, rep, cond = args
    warnings.simplefilter('ignore')
    store = build_inputs(entry, rep, cond)
    pre = snapshot(store)
    status, _ = E.run_entry(entry, store)
    post = snapshot(store)
    ids = {}
    objs = []
    for k in pre:
        for s in (pre[k], post.get(k, 'missing')):
            ids.setdefault(s, len(ids) + 1)
        objs.append({'name': k, 'pre': ids[pre[k]], 'post': ids[post.get(k, 'missing')]})
    return {'id': pid, 'entry': entry, 'rep': rep, 'cond': cond, 'status': status, 'objects': objs}


def run(ctx):
    ctx.rule = ('programs = entry point x representation (ndarray, strided view of a larger array, MaskedArray, Quantity) x condition (clean, empty mask array, '
                'NaN/inf, negative, masked, invalid argument); every program executed once per run; non-trivial = the call returned normally '
                'on non-clean data or raised on an invalid argument')
    # the programs quantifier lives in TLA+: ask TLC for the set
    from .. import tlc as T
    E.NOIMG_INVALID = NOIMG_INVALID
    progs = programs(ctx)
    cases = core.pmap(run_program, [(k, *p) for k, p in enumerate(progs)], chunksize=4, on_raise='drop')
    ver = core.validate_batch(ctx, 'Alias', cases, 'Trace:Alias')
    for c in cases:
        v = ver[c['id']]
        if not v['ok']:
            ctx.violation(v['clause'], {'entry': c['entry'], 'rep': c['rep'], 'cond': c['cond']}, {'case': c})
        else:
            ctx.traces += 1
    # completeness: one more TLC run over the list of executed programs
    f = ctx.datafile('executed.json', [{'id': c['id'], 'entry': c['entry'], 'rep': c['rep'], 'cond': c['cond'], 'objects': []} for c in cases])
    r = ctx.tlc('Alias', 'Alias_complete.cfg', part='MC:Alias/Complete', env={'TRACE_FILE': f}, workers=1, check_ok=False)
    if r.violated or r.errors:
        raise core.Machinery('programs quantifier incomplete: ' + '\n'.join(r.stdout.splitlines()[-12:]))
    ctx.evaluations += len(cases); ctx.exhaustive = True
    ctx.nontrivial += sum(1 for c in cases if (c['status'] == 'ok' and c['cond'] != 'clean') or (c['status'] == 'raise' and c['cond'] == 'invalid'))
    ctx.parts['programs'] = {'executed': len(cases), 'returned': sum(1 for c in cases if c['status'] == 'ok'), 'raised': sum(1 for c in cases if c['status'] == 'raise')}
    ctx.sample({'kind': 'program', **{k: cases[7][k] for k in ('entry', 'rep', 'cond', 'status')}, 'objects': cases[7]['objects'][:6]})
    # binding self-test
    bad = [core.jcopy(c) for c in cases[:4]]
    for k, c in enumerate(bad):
        c['id'] = 10**9 + k; c['objects'][0]['post'] += 1000
    vb = core.validate_batch(ctx, 'Alias', bad, 'SelfTest:Alias', shards=1)
    ctx.selftest('changed post id of one stored object', all(not v['ok'] for v in vb.values()))
    ctx.assumptions += ['objects reachable only through third-party containers (WCS internals) are not snapshot',
                        'documented in-place mutators of their own object (SegmentationImage label methods, normalize) are not called by the adapters']


def _inv_grouper(s):
    s['xarr'] = np.array([[1.0, 2.0]])


def _inv_models(s):
    s['xgrid'] = s['xgrid'][:, :5]


def _inv_mmi(s):
    s['params'].remove_column('flux'); s['params']['fluxx'] = [1.0, 2.0, 3.0, 4.0]


def _inv_iso(s):
    s['galaxy'] = s['galaxy'] * 0.0


def _inv_srcmask(s):
    s['footprint'] = np.ones((3,), dtype=bool)


NOIMG_INVALID = {'grouper': _inv_grouper, 'psf_models': _inv_models, 'make_model_image': _inv_mmi, 'isophote': _inv_iso, 'source_mask': _inv_srcmask}


def programs(ctx):
    """TLC evaluates Alias!Programs (the TLA+ table is the single source of truth for the quantifier)"""
    import os
    spec = os.path.join(ctx.tmp, 'AliasPrograms.tla')
    # a tiny wrapper module next to the spec files is not wanted in /verif/spec at run time; TLC can load modules from the metadir-independent
    # working directory only, so the wrapper is kept in spec/ as a committed file
    r = ctx.tlc('AliasPrograms', 'AliasPrograms.cfg', part='GEN:Alias/Programs', env={'TRACE_FILE': ctx.datafile('empty.json', [])}, workers=1)
    out = [tuple(rec['v']) for rec in r.records if rec.get('_tag') == 'GEN']
    if not out:
        raise core.Machinery('no programs generated')
    return sorted(out)


def replay(ctx, rep):
    print(json.dumps(rep, indent=1, default=str)[:6000])
