"""C01 Aperture masks are the true pixel-overlap fractions of the shape.
spec/BBoxOps.tla + BBox.tla (closed form = minimal box; overlap slices select exactly the common pixels), ApMask.tla +
ApMaskGen.tla (exact integer membership of (sub)pixel centres for circles, ellipses, rectangles and annuli at rational angles;
sub-cell brackets for 'exact' circles), Trace_ApMask.tla (recorded masks of arbitrary apertures)."""
import json, math, random, warnings
import numpy as np
from .. import core

ANG = {0: (1, 0, 1), 1: (4, 3, 5), 2: (3, 4, 5), 3: (0, 1, 1), 4: (4, -3, 5), 5: (-1, 0, 1), 6: (-3, 4, 5)}


def build(sh, cx, cy, q, tx=0, ty=0, theta_unit=None):
    import photutils.aperture as A
    c, s, n = ANG[sh['ang']]
    th = math.atan2(s, c)
    if theta_unit and sh['ang'] != 0:      # the rotation angle given as a Quantity / Angle in another unit (the same angle)
        import astropy.units as u
        from astropy.coordinates import Angle
        th = {'deg': math.degrees(th) * u.deg, 'arcmin': math.degrees(th) * 60.0 * u.arcmin, 'angle': Angle(math.degrees(th), 'deg'), 'rad': th * u.rad}[theta_unit]
    pos = (cx / q + tx, cy / q + ty)
    p = [sh['p%d' % k] / q for k in (1, 2, 3, 4)]
    k = sh['kind']
    if k == 'circle':
        return A.CircularAperture(pos, p[0])
    if k == 'ellipse':
        return A.EllipticalAperture(pos, p[0], p[1], theta=th)
    if k == 'rect':
        return A.RectangularAperture(pos, p[0], p[1], theta=th)
    if k == 'cann':
        return A.CircularAnnulus(pos, p[0], p[1])
    if k == 'eann':
        return A.EllipticalAnnulus(pos, p[0], p[1], p[3], b_in=p[2], theta=th)
    if k == 'rann':
        return A.RectangularAnnulus(pos, p[0], p[1], p[3], h_in=p[2], theta=th)
    raise core.Machinery(k)


def replay_mask(args):
    idx, c = args
    warnings.simplefilter('ignore')
    sh = c['shape']
    tx, ty = (idx * 7) % 5 - 2, (idx * 3) % 4 - 1
    sig = {'kind': sh['kind'], 'ang': sh['ang'], 's': c['s'], 'boxtie': c['boxtie']}
    out = []
    try:
        ap = build(sh, c['cx'], c['cy'], c['q'], tx, ty, theta_unit=[None, 'deg', None, 'angle', 'arcmin', 'rad'][idx % 6])
        bb = ap.bbox
        got = [bb.ixmin - tx, bb.ixmax - tx, bb.iymin - ty, bb.iymax - ty]
        rotated = (sh['kind'] not in ('circle', 'cann') and sh['ang'] != 0) or c['s'] not in (1, 2, 4, 8)
        if got != c['box']:
            if not (c['boxtie'] and rotated) or any(abs(a - b) > 1 for a, b in zip(got, c['box'])) or got[0] > c['box'][0] or got[1] < c['box'][1] or got[2] > c['box'][2] or got[3] < c['box'][3]:
                return [('bbox_is_minimal', sig, {'case': {k: c[k] for k in ('shape', 'cx', 'cy', 'q', 'box')}, 'got': got})]
            return out       # tie: one pixel larger is accepted, weights are then not comparable cell by cell
        s2 = c['s'] ** 2
        m = ap.to_mask(method='subpixel', subpixels=c['s'])
        w = np.rint(np.asarray(m.data) * s2).astype(int)
        lo, hi = np.array(c['lower']), np.array(c['upper'])
        if w.shape != lo.shape:
            return [('mask_shape_is_bbox_shape', sig, {'case': c['shape'], 'got': list(w.shape), 'expected': list(lo.shape)})]
        if not rotated:
            lo = hi = np.array(c['impl'])          # dyadic, unrotated: exact arithmetic, the strict convention decides boundary points
        if np.any(np.abs(np.asarray(m.data) * s2 - w) > 1e-9) or np.any(w < np.minimum(lo, hi)) or np.any(w > np.maximum(lo, hi)):
            out.append(('subpixel_weight_is_fraction_of_centres_inside', sig, {'case': {k: c[k] for k in ('shape', 'cx', 'cy', 'q', 's', 'box', 'lower', 'upper')}, 'got': w.tolist()}))
        if c['s'] == 1:
            mc = ap.to_mask(method='center')
            if not np.array_equal(np.asarray(mc.data), np.asarray(m.data)):
                out.append(('center_equals_subpixels_1', sig, {'case': c['shape']}))
        if c['s'] == 1:
            # 'exact' on the same lattice case (tangent / corner configurations are hit by construction): finite, in [0, 1], sums to the area
            me = np.asarray(ap.to_mask(method='exact').data, dtype=float)
            esig = dict(sig, method='exact', elliptical_exact_kernel=sh['kind'] in ('ellipse', 'eann'))
            if not np.all(np.isfinite(me)):
                out.append(('exact_weights_finite', esig, {'case': {k: c[k] for k in ('shape', 'cx', 'cy', 'q')}}))
            elif np.any(me < -1e-12) or np.any(me > 1 + 1e-9):
                out.append(('exact_weights_in_unit_interval', esig, {'case': {k: c[k] for k in ('shape', 'cx', 'cy', 'q')}, 'min': float(me.min()), 'max': float(me.max())}))
            elif 'r' != sh['kind'][0] and abs(float(me.sum()) - float(ap.area)) > 1e-6 * max(1.0, float(ap.area)):
                out.append(('exact_weights_sum_to_area', esig, {'case': {k: c[k] for k in ('shape', 'cx', 'cy', 'q')}, 'sum': float(me.sum()), 'area': float(ap.area)}))
            # exact weights lie between the strict / non-strict centre counts scaled? no - but a pixel whose centre-count bracket is empty
            # on both sides of every subdivision is not decided here; per-pixel accuracy is bracketed for circles in Trace_ApMask
        if (m.bbox.ixmin - tx, m.bbox.ixmax - tx, m.bbox.iymin - ty, m.bbox.iymax - ty) != tuple(c['box']):
            out.append(('mask_bbox_is_aperture_bbox', sig, {'case': c['shape']}))
    except Exception as e:  # noqa
        out.append(('raises', sig, {'case': c['shape'], 'exc': repr(e)}))
    return out


def replay_bbox(c):
    from photutils.aperture import BoundingBox
    out = []
    if c['kind'] == 'interval':
        q = c['q']
        b = BoundingBox.from_float(c['xmin'] / q, c['xmax'] / q, c['xmin'] / q, c['xmax'] / q)
        if (b.ixmin, b.ixmax, b.iymin, b.iymax) != (c['lo'], c['hi'], c['lo'], c['hi']):
            out.append(('from_float_is_minimal_box', {'what': 'from_float'}, {'case': c, 'got': [b.ixmin, b.ixmax, b.iymin, b.iymax]}))
        return out
    ix0, ix1, iy0, iy1 = c['box']
    b = BoundingBox(ix0, ix1, iy0, iy1)
    sl = b.get_overlap_slices((c['ny'], c['nx']))
    exp = c['slices']
    if not exp:
        from photutils.aperture import ApertureMask as _AM
        sl0 = _AM(np.ones((iy1 - iy0, ix1 - ix0)), b).get_overlap_slices((c['ny'], c['nx']))
        if not (sl0[0] is None and sl0[1] is None):
            out.append(('overlap_slices_none_iff_no_common_pixel', {'what': 'mask.get_overlap_slices'}, {'case': c, 'got': repr(sl0)}))
        if not (sl[0] is None and sl[1] is None):
            out.append(('overlap_slices_none_iff_no_common_pixel', {'what': 'slices'}, {'case': c, 'got': repr(sl)}))
        return out
    if sl[0] is None:
        return [('overlap_slices_none_iff_no_common_pixel', {'what': 'slices'}, {'case': c, 'got': repr(sl)})]
    got = {'large': [[sl[0][0].start, sl[0][0].stop], [sl[0][1].start, sl[0][1].stop]], 'small': [[sl[1][0].start, sl[1][0].stop], [sl[1][1].start, sl[1][1].stop]]}
    if got != exp:
        out.append(('overlap_slices_select_common_pixels', {'what': 'slices'}, {'case': c, 'got': got}))
    # to_image / cutout with an index-valued image reveal which pixels were selected
    from photutils.aperture import ApertureMask
    img = np.arange(c['ny'] * c['nx'], dtype=float).reshape(c['ny'], c['nx']) + 1.0
    am = ApertureMask(np.ones((iy1 - iy0, ix1 - ix0)), b)
    sl2 = am.get_overlap_slices((c['ny'], c['nx']))          # the mask's own entry point must select the same pixels
    got2 = None if sl2[0] is None else {'large': [[sl2[0][0].start, sl2[0][0].stop], [sl2[0][1].start, sl2[0][1].stop]],
                                        'small': [[sl2[1][0].start, sl2[1][0].stop], [sl2[1][1].start, sl2[1][1].stop]]}
    if got2 != exp:
        out.append(('overlap_slices_select_common_pixels', {'what': 'mask.get_overlap_slices'}, {'case': c, 'got': got2}))
        return out
    cut = am.cutout(img, fill_value=-1.0)
    ref = np.full((iy1 - iy0, ix1 - ix0), -1.0)
    for r in range(iy0, iy1):
        for q in range(ix0, ix1):
            if 0 <= r < c['ny'] and 0 <= q < c['nx']:
                ref[r - iy0, q - ix0] = img[r, q]
    if cut is None or not np.array_equal(cut, ref):
        out.append(('cutout_selects_common_pixels', {'what': 'cutout'}, {'case': c}))
    ti = am.to_image((c['ny'], c['nx']))
    ref2 = np.zeros((c['ny'], c['nx']))
    ref2[max(iy0, 0):max(iy1, 0), max(ix0, 0):max(ix1, 0)] = 1.0
    if ti is None or not np.array_equal(ti, ref2):
        out.append(('to_image_places_mask_on_common_pixels', {'what': 'to_image'}, {'case': c}))
    return out


def record_mask(seed):
    """code -> spec: arbitrary (irrational) parameters, large sizes, thin shapes, near-equal annuli, all methods"""
    import photutils.aperture as A
    warnings.simplefilter('ignore')
    rng = random.Random(seed)
    kind = rng.choice(['circle', 'circle', 'ellipse', 'rect', 'cann', 'eann', 'rann', 'latcircle', 'latcircle'])
    method = rng.choice(['exact', 'exact', 'center', 'subpixel'])
    sub = rng.choice([1, 2, 5, 13, 32])
    big = rng.random() < 0.08
    L = 300.0 if big else 12.0
    pos = (rng.choice([rng.uniform(-50, 50), float(rng.randint(-5, 5)), rng.randint(-5, 5) + 0.5]), rng.choice([rng.uniform(-50, 50), float(rng.randint(-5, 5)), rng.randint(-5, 5) + 0.5]))
    th = rng.choice([rng.uniform(-7, 7), 0.0, math.pi / 4, math.pi / 2, -math.pi / 4, math.pi])
    a = rng.uniform(0.03, L)
    rec = {'id': seed, 'kind': kind, 'method': method, 'subpixels': sub, 'lattice_circle': False, 'r': 0, 'cx': 0, 'cy': 0, 'q': 4}
    if kind == 'latcircle':
        q = 4
        cx, cy, r = rng.randint(-8, 8), rng.randint(-8, 8), rng.randint(1, 14)
        ap = A.CircularAperture((cx / q, cy / q), r / q)
        area = math.pi * (r / q) ** 2
        rec.update(lattice_circle=True, r=r, cx=cx, cy=cy, kind='circle')
        method = rec['method'] = 'exact'
    elif kind == 'circle':
        ap = A.CircularAperture(pos, a); area = math.pi * a * a
    elif kind == 'ellipse':
        b = a * rng.uniform(0.02, 1.0)
        ap = A.EllipticalAperture(pos, a, b, theta=th); area = math.pi * a * b
    elif kind == 'rect':
        h = rng.uniform(0.03, L)
        ap = A.RectangularAperture(pos, a, h, theta=th); area = a * h
    elif kind == 'cann':
        rin = a * rng.choice([rng.uniform(0.05, 0.95), 0.999])
        ap = A.CircularAnnulus(pos, rin, a); area = math.pi * (a * a - rin * rin)
    elif kind == 'eann':
        f = rng.choice([rng.uniform(0.05, 0.95), 0.999]); b = a * rng.uniform(0.05, 1.0)
        ap = A.EllipticalAnnulus(pos, a * f, a, b, theta=th); area = math.pi * (a * b - a * f * b * f)
    else:
        f = rng.choice([rng.uniform(0.05, 0.95), 0.999]); h = rng.uniform(0.05, L)
        ap = A.RectangularAnnulus(pos, a * f, a, h, theta=th); area = a * h - a * f * h * f
    m = ap.to_mask(method=method, subpixels=sub)
    w = np.asarray(m.data, dtype=float)
    bb = ap.bbox
    rec['box'] = [bb.ixmin, bb.ixmax, bb.iymin, bb.iymax]
    rec['has_nan'] = bool(np.any(~np.isfinite(w)))
    wf = np.where(np.isfinite(w), w, 0.0)
    keep = w.size <= 900
    rec['w'] = np.rint(np.clip(wf, -2, 3) * 65536).astype(int).tolist() if keep else [[int(round(float(np.clip(wf.min(), -2, 3)) * 65536)), int(round(float(np.clip(wf.max(), -2, 3)) * 65536))]]
    if not keep:
        rec['box'] = [0, 2, 0, 1]
    # sums in 1/16 px^2 units; tolerance: 1e-6 relative for circles/ellipses (analytic), the documented 32x32 sub-sampling for rectangles
    rel = 1e-6 if 'rect' not in kind and kind != 'rann' else None
    per = {'rect': 2 * (a + (locals().get('h') or 0)), 'rann': 4 * (a + (locals().get('h') or 0))}.get(kind, 0)
    tol = area * 1e-6 + 1e-6 if rel else per / 32.0 + 0.01
    rec['sum_k'] = int(round(float(wf.sum()) * 16)); rec['area_k'] = int(round(area * 16)); rec['tol_k'] = int(math.ceil(tol * 16)) + 1
    rec['thin'] = kind in ('ellipse', 'eann')
    return rec


def run(ctx):
    q = ctx.quick
    ctx.rule = ('GEN: every shape of ApMaskGen (circle, ellipse, rectangle and annuli; sizes and 3-4-5 angles) x centres on the half-pixel '
                'lattice x subpixel factors, with exact inside-counts from TLC; every lattice interval / box-vs-image pair of BBox; non-trivial = '
                'mask has a partially covered pixel; Trace: random apertures incl. sizes to 300 px, axis ratio 0.02, annulus ratio 0.999')
    ctx.mc('BBox', 'MC_BBox.cfg', timeout=900)
    ctx.mc('ApMaskGen', 'MC_ApMaskGen_q.cfg' if q else 'MC_ApMaskGen.cfg', timeout=3000)
    g = ctx.tlc('BBox', 'GEN_BBox.cfg', part='GEN:BBox', workers=1, timeout=900)
    bcases = [r for r in g.records if r.get('_tag') == 'GEN']
    for vs in core.pmap(replay_bbox, bcases, chunksize=256):
        for v in vs:
            ctx.violation(*v)
    cases = []
    for r in core.tlc_sharded(ctx, 'ApMaskGen', 'GEN_ApMaskGen_q.cfg' if q else 'GEN_ApMaskGen.cfg', 16, part='GEN:ApMask', threads=16, timeout=3000):
        cases += [rec for rec in r.records if rec.get('_tag') == 'GEN']
    for vs in core.pmap(replay_mask, list(enumerate(cases)), chunksize=32):
        for v in vs:
            ctx.violation(*v)
    ctx.evaluations += len(bcases) + len(cases); ctx.traces += len(bcases) + len(cases); ctx.exhaustive = True
    ctx.nontrivial += sum(1 for c in cases if any(0 < v < c['s'] ** 2 for row in c['upper'] for v in row) or c['s'] == 1)
    ctx.sample({'kind': 'GEN mask case', **{k: cases[len(cases) // 2][k] for k in ('shape', 'cx', 'cy', 'q', 's', 'box', 'lower', 'upper')}})
    n = 1200 if q else 20000
    recs = core.pmap(record_mask, [ctx.seed * 2654435 + i for i in range(n)], chunksize=16, on_raise='drop')
    ver = core.validate_batch(ctx, 'Trace_ApMask', recs, 'Trace:ApMask')
    for r in recs:
        v = ver[r['id']]
        if not v['ok']:
            ctx.violation('trace:' + v['clause'], {'kind': r['kind'], 'method': r['method'], 'elliptical_exact_kernel': r['thin'] and r['method'] == 'exact'},
                          {'case': {k: r[k] for k in r if k != 'w'}})
        else:
            ctx.traces += 1
    ctx.evaluations += n; ctx.nontrivial += sum(1 for r in recs if r['method'] == 'exact')
    ctx.sample({'kind': 'recorded mask', **{k: recs[0][k] for k in ('kind', 'method', 'subpixels', 'box', 'sum_k', 'area_k')}})
    good = [r for r in recs if ver[r['id']]['ok'] and r['lattice_circle'] and len(r['w']) > 1][:4]
    bad = []
    for k, r in enumerate(good):
        r2 = core.jcopy(r); r2['id'] = 10**9 + k
        r2['w'][0][0] = 40000 if r2['w'][0][0] < 20000 else 0
        r2['sum_k'] = r2['area_k']
        bad.append(r2)
    if bad:
        vb = core.validate_batch(ctx, 'Trace_ApMask', bad, 'SelfTest:ApMask', shards=2)
        ctx.selftest('perturbed exact weight of a lattice circle', all(not v['ok'] for v in vb.values()))
    ctx.assumptions += ['a (sub)pixel centre exactly on the shape boundary and an extent exactly on a pixel edge are ties (either convention accepted)',
                        "per-pixel accuracy of 'exact' is bracketed only for circles on the quarter-pixel lattice (8x8 sub-cells); other shapes: range and area",
                        'the Cython kernels cannot be rebuilt in this sandbox: the prebuilt binaries are what is exercised']


def replay(ctx, rep):
    print(json.dumps(rep, indent=1, default=str)[:6000])
