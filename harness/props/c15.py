"""C15 Results do not depend on how the same numbers are represented.
spec/Repr.tla: programs = entry point x representation with the expectation table (same / units / raise / skip) in TLA+; TLC prints the
programs, validates every recorded pair (reference float64 call vs representation) and checks completeness."""
import json, warnings
import numpy as np
from .. import core
from ..canon import canon
from .. import entries as E


def represent(a, rep, unit=None):
    import astropy.units as u
    a = np.asarray(a)
    if a.dtype == bool:
        return a
    if rep == 'i8':
        return a.astype(np.int64)
    if rep == 'i2':
        return a.astype(np.int16)
    if rep == 'u2':
        return a.astype(np.uint16)
    if rep == 'f4':
        return a.astype(np.float32)
    if rep == 'bigendian':
        return a.astype('>f8')
    if rep == 'fortran':
        return np.asfortranarray(a.astype(float))
    if rep == 'strided':
        big = np.zeros((a.shape[0] * 2, a.shape[1] * 3), dtype=float)
        big[::2, ::3] = a
        return big[::2, ::3]
    if rep == 'ma_nomask':
        return np.ma.MaskedArray(a.astype(float))
    if rep == 'ma_allfalse':
        return np.ma.MaskedArray(a.astype(float), mask=np.zeros(a.shape, dtype=bool))
    if rep in ('quantity', 'mixed_units', 'convertible_units'):
        return a.astype(float) * u.Jy
    return a.astype(float)


def leaves(v, out, path=''):
    """flatten an output into (path, kind, value) leaves: kind 'real' (float arrays), 'exact' (ints, bools, strings, shapes)"""
    import astropy.units as u
    from astropy.table import Table
    if v is None:
        out.append((path, 'exact', 'none', False)); return
    if hasattr(v, 'uncertainty') and hasattr(v, 'data') and hasattr(v, 'meta'):      # NDData result -> its data
        v = v.data
    if isinstance(v, Table):
        out.append((path + '/cols', 'exact', tuple(v.colnames), False))
        for cn in v.colnames:
            leaves(v[cn], out, path + '/' + cn)
        return
    if isinstance(v, dict):
        for k in sorted(v, key=str):
            leaves(v[k], out, path + '/' + str(k))
        return
    if isinstance(v, (list, tuple)) and not (len(v) and all(isinstance(x, (int, float, np.number)) for x in v)):
        out.append((path + '/len', 'exact', len(v), False))
        for k, x in enumerate(v):
            leaves(x, out, path + f'/{k}')
        return
    has_unit = isinstance(v, u.Quantity) and str(v.unit) not in ('', 'pix', 'pix2', 'deg', 'rad')
    try:
        if isinstance(v, u.Quantity) and v.unit.is_equivalent(u.Jy):      # compare physical values
            v = v.to(u.Jy)
        a = np.asarray(getattr(v, 'value', v))
        if isinstance(v, np.ma.MaskedArray):
            a = np.ma.filled(v.astype(float), np.nan) if v.dtype.kind in 'fiu' else np.asarray(v)
            a = np.asarray(getattr(a, 'value', a))
        if a.dtype.kind == 'b':
            out.append((path, 'exact', (a.shape, a.astype(np.int64).tobytes()), has_unit))
        elif a.dtype.kind in 'fiu':      # the dtype of a numeric output may follow the input dtype; the numbers must agree
            out.append((path, 'real', a.astype(float), has_unit))
        else:
            out.append((path, 'exact', repr(canon(v))[:200], has_unit))
    except Exception:  # noqa
        out.append((path, 'exact', repr(type(v)), has_unit))


def run_program(args):
    pid, entry, rep = args
    warnings.simplefilter('ignore')
    import astropy.units as u
    from astropy.nddata import NDData, StdDevUncertainty
    base = E.base_scene(seed=5)
    # a read-noise dominated error map (values ~305): squares of the integer representations exceed the 16-bit ranges
    base['error'] = base['error'] + 300.0      # (squares exceed the int16 AND the uint16 range)
    segm = E._segm(base)
    if entry == 'isophote_fit':
        base['galaxy'] = E.galaxy_counts()
    ref_inp = dict(base, segm=segm, method='center' if entry == 'aperture_photometry' and rep in ('f4',) else 'exact')
    st0, ref = E.run_entry(entry, dict(ref_inp))
    rec = {'id': pid, 'entry': entry, 'rep': rep, 'ref_ok': st0 == 'ok', 'raised': False, 'struct_equal': True, 'maxdev': 0, 'maxabs': 0, 'out_has_units': False}
    if st0 != 'ok':
        rec['ref_exc'] = ref
        return rec
    if entry == 'calc_total_error' and rep not in ('quantity', 'mixed_units', 'nddata'):
        gm = np.full(E.SHAPE, 2.0); gm[0:3, :] = 0.0; gm[10, 10] = 0.0; gm[12:20, 5:9] = 3.0       # gain / exposure map with uncovered pixels
        base = dict(base, gain_map=gm)
        ref_inp['gain_map'] = gm
        st0, ref = E.run_entry(entry, dict(ref_inp))
    if rep == 'nddata_ma':      # no uncertainty, no mask: the reference is the bare image
        ref_inp = dict(ref_inp, error=None, mask=None)
        st0, ref = E.run_entry(entry, dict(ref_inp))
        if st0 != 'ok':
            rec['ref_ok'] = False; rec['ref_exc'] = ref
            return rec
    inp = dict(ref_inp)
    uses = E.ENTRIES[entry]['uses']
    if rep == 'nddata_ma':
        inp['data'] = NDData(np.ma.MaskedArray(np.asarray(base['data'], dtype=float)))
    elif rep == 'nddata':
        unc = StdDevUncertainty(base['error'])
        if entry == 'psf_photometry':      # the other uncertainty flavours of NDData (documented: converted to standard deviations)
            from astropy.nddata import InverseVariance, VarianceUncertainty
            unc = VarianceUncertainty(base['error'] ** 2) if pid % 2 else InverseVariance(1.0 / base['error'] ** 2)
        inp['data'] = NDData(base['data'], uncertainty=unc, mask=base['mask'])
        inp.pop('error', None); inp.pop('mask', None)
        inp['error'] = None; inp['mask'] = None
    else:
        for k in ('data', 'error', 'bkg', 'gain_map', 'galaxy'):
            if k in ('gain_map', 'galaxy') and k not in base:
                continue
            if k in uses or k == 'data':
                if rep == 'mixed_units' and k != 'data':
                    continue
                inp[k] = represent(base[k], rep)
                if rep == 'convertible_units' and k != 'data':      # the same physical values written in mJy
                    inp[k] = (np.asarray(base[k], dtype=float) * 1000.0) * u.mJy
        if rep in ('quantity', 'convertible_units'):
            inp['thr'] = 12.0 * u.Jy if entry in ('detect_sources', 'source_finder', 'find_peaks') else (10.0 * u.Jy if entry in ('daofinder', 'iraffinder', 'starfinder') else 12.0)
            inp['gain'] = 2.0 / u.Jy
            if entry in ('daofinder', 'iraffinder', 'starfinder', 'detect_sources', 'source_finder', 'deblend_sources', 'iterative_psf'):
                pass
    st, out = E.run_entry(entry, inp)
    if st != 'ok':
        rec['raised'] = True; rec['exc'] = out
        return rec
    la, lb = [], []
    leaves(ref, la); leaves(out, lb)
    if [x[:2] for x in la] != [x[:2] for x in lb]:
        rec['struct_equal'] = False
        rec['diff'] = str([(a[0], a[1], b[0], b[1]) for a, b in zip(la, lb) if a[:2] != b[:2]][:3])
        return rec
    dev = 0.0
    for (pa, ka, va, _), (pb, kb, vb, ub) in zip(la, lb):
        rec['out_has_units'] = rec['out_has_units'] or ub
        if ka == 'exact':
            if va != vb:
                rec['struct_equal'] = False; rec['diff'] = pa
        else:
            if va.shape != vb.shape:
                rec['struct_equal'] = False; rec['diff'] = pa + ':shape'
                continue
            fin = np.isfinite(va) & np.isfinite(vb)
            if not np.array_equal(np.isnan(va), np.isnan(vb)):
                dev = max(dev, 1.0); rec['where'] = pa + ':nan'
                continue
            if fin.any():
                scale = max(1.0, float(np.max(np.abs(va[fin]))))
                rec['maxabs'] = max(rec['maxabs'], int(min(float(np.max(np.abs(va[fin] - vb[fin]))), 1000.0) * 1024))
                d = float(np.max(np.abs(va[fin] - vb[fin]))) / scale
                if d > dev:
                    dev = d; rec['where'] = pa
    rec['maxdev'] = int(min(dev, 1.0) * 2 ** 20)
    return rec


def run(ctx):
    ctx.rule = ('programs = entry point x representation (int64, int16, uint16, float32, big-endian, Fortran order, strided view, MaskedArray nomask / all-False, '
                'NDData, Quantity, mixed units) from Repr.tla, every program executed against the float64 reference on an integer-valued scene; '
                'non-trivial = the representation changes dtype, layout or container')
    r = ctx.tlc('Repr', 'Repr_programs.cfg', part='GEN:Repr/Programs', env={'TRACE_FILE': ctx.datafile('empty.json', [])}, workers=1)
    progs = sorted(tuple(rec['v']) for rec in r.records if rec.get('_tag') == 'GEN')
    cases = core.pmap(run_program, [(k, *p) for k, p in enumerate(progs)], chunksize=2, on_raise='drop')
    ver = core.validate_batch(ctx, 'Repr', cases, 'Trace:Repr')
    for c in cases:
        v = ver[c['id']]
        if not v['ok']:
            ctx.violation(v['clause'], {'entry': c['entry'], 'rep': c['rep']}, {'case': c})
        else:
            ctx.traces += 1
    f = ctx.datafile('executed.json', cases)
    rr = ctx.tlc('Repr', 'Repr_complete.cfg', part='MC:Repr/Complete', env={'TRACE_FILE': f}, workers=1, check_ok=False)
    if rr.violated or rr.errors:
        raise core.Machinery('programs quantifier incomplete')
    ctx.evaluations += len(cases); ctx.nontrivial += len(cases); ctx.exhaustive = True
    ctx.sample({k: cases[3][k] for k in ('entry', 'rep', 'raised', 'struct_equal', 'maxdev', 'out_has_units')})
    bad = [core.jcopy(c) for c in cases if ver[c['id']]['ok'] and not c['raised']][:3]
    for k, c in enumerate(bad):
        c['id'] = 10**9 + k; c['maxdev'] = 5000
    vb = core.validate_batch(ctx, 'Repr', bad, 'SelfTest:Repr', shards=1)
    ctx.selftest('inflated deviation of an accepted pair', all(not v['ok'] for v in vb.values()))
    ctx.assumptions += ['float16 / longdouble / structured dtypes are not covered', 'relative tolerance 4*2^-20 (2^-10 for float32)']


def replay(ctx, rep):
    print(json.dumps(rep, indent=1, default=str)[:6000])
