"""C07 SourceCatalog measurements equal their definitions on the segment pixels.
spec/Trace_Catalog.tla: TLC evaluates the defining formulas on integer scenes (touching / nested / single-pixel / edge-hugging segments,
non-consecutive labels, masks cutting segments, NaN/inf data, separate convolved image with negatives) and validates every row;
locality, renumbering, reordering and detection-catalog delegation are validated as pairs."""
import json, random, warnings
import numpy as np
from .. import core

S = 4096


def make_scene(rng):
    h, w = rng.randint(5, 10), rng.randint(5, 11)
    segm = np.zeros((h, w), dtype=int)
    labels = sorted(rng.sample(range(1, 15), rng.randint(1, 5)))
    for lab in labels:
        kind = rng.choice(['blob', 'blob', 'pixel', 'edge', 'ring', 'L'])
        r0, c0 = rng.randrange(h), rng.randrange(w)
        if kind == 'pixel':
            segm[r0, c0] = lab
        elif kind == 'edge':
            if rng.random() < 0.5:
                segm[0:rng.randint(1, 2), c0:min(w, c0 + rng.randint(1, 4))] = lab
            else:
                segm[r0:min(h, r0 + rng.randint(1, 4)), w - 1] = lab
        elif kind == 'ring':
            r1, c1 = min(h, r0 + 4), min(w, c0 + 4)
            segm[r0:r1, c0:c1] = lab
            if r1 - r0 > 2 and c1 - c0 > 2:
                segm[r0 + 1:r1 - 1, c0 + 1:c1 - 1] = 0          # the next label may nest inside
        elif kind == 'L':
            segm[r0:min(h, r0 + 4), c0] = lab; segm[r0, c0:min(w, c0 + 4)] = lab
        else:
            segm[r0:min(h, r0 + rng.randint(1, 4)), c0:min(w, c0 + rng.randint(1, 4))] = lab
    if not segm.any():
        segm[h // 2, w // 2] = labels[0]
    data = np.array([[rng.randint(-3, 9) for _ in range(w)] for _ in range(h)])
    conv = data + np.array([[rng.randint(-2, 2) for _ in range(w)] for _ in range(h)]) if rng.random() < 0.6 else data.copy()
    err = np.array([[rng.randint(0, 3) for _ in range(w)] for _ in range(h)])
    bkg = np.array([[rng.randint(0, 4) for _ in range(w)] for _ in range(h)])
    mask = [[r, c] for r in range(h) for c in range(w) if rng.random() < 0.1] if rng.random() < 0.6 else []
    if rng.random() < 0.2 and segm.any():           # completely mask one segment
        lab = rng.choice([x for x in np.unique(segm) if x])
        mask = sorted(set(map(tuple, mask)) | {(int(r), int(c)) for r, c in zip(*np.nonzero(segm == lab))})
        mask = [list(m) for m in mask]
    nonfin = [[r, c] for r in range(h) for c in range(w) if rng.random() < 0.03] if rng.random() < 0.5 else []
    convnf = [[r, c] for r in range(h) for c in range(w) if rng.random() < 0.02] if rng.random() < 0.3 else []
    # the representation of the error map (no draw from rng: earlier scenes keep their arrays): narrow integer maps carry values whose
    # SQUARE leaves the dtype (16 .. 48) - the quadrature sum must be the one of the numbers, not of wrapped squares
    err_rep = ('float', 'uint8', 'int8', 'uint16')[int(err.sum()) % 4]
    if err_rep != 'float':
        err = err * 16
    return dict(segm=segm, data=data, conv=conv, err=err, bkg=bkg, mask=mask, nonfinite=nonfin, conv_nonfinite=convnf, err_rep=err_rep)


def arrays(sc):
    d = sc['data'].astype(float)
    for k, (r, c) in enumerate(sc['nonfinite']):
        d[r, c] = [np.nan, np.inf, -np.inf][k % 3]
    cv = sc['conv'].astype(float)
    for k, (r, c) in enumerate(sc['conv_nonfinite']):
        cv[r, c] = [np.nan, np.inf][k % 2]
    m = None
    if sc['mask']:
        m = np.zeros(d.shape, dtype=bool)
        for r, c in sc['mask']:
            m[r, c] = True
    return d, cv, m


def fk(v, s=S):
    v = float(np.asarray(getattr(v, 'value', v)))
    return (int(round(v * s)) if np.isfinite(v) else 0), (not np.isfinite(v))


def catalog(sc, use_err=True, use_bkg=True, detcat=None, order=None, relabel=None, lbw=0):
    from photutils.segmentation import SegmentationImage, SourceCatalog
    d, cv, m = arrays(sc)
    seg = sc['segm'].copy()
    if relabel:
        seg = np.vectorize(lambda x: relabel.get(int(x), 0))(seg)
    seg = seg.astype(np.int32)
    free = np.argwhere(seg == 0)
    if len(free) and (int(seg.sum()) + len(free)) % 2:
        # the map arrives from an in-place operation of the caller (a label has just been removed): its lazily evaluated attributes
        # are not cached yet when the catalog reads them in its own order
        r_, c_ = free[len(free) // 2]
        seg = seg.copy(); seg[r_, c_] = int(seg.max()) + 5
        segm = SegmentationImage(seg)
        segm.remove_label(int(seg.max()))
    else:
        segm = SegmentationImage(seg)
    cat = SourceCatalog(d, segm, convolved_data=cv, error=sc['err'].astype(sc.get('err_rep', 'float')) if use_err else None, mask=m,
                        background=sc['bkg'].astype(float) if use_bkg else None, detection_cat=detcat, localbkg_width=lbw)
    if order is not None:
        cat = cat[order]
    return cat


def rows_of(cat, has_err, has_bkg):
    rows = []
    n = cat.nlabels
    g = lambda name: np.atleast_1d(getattr(cat, name))  # noqa
    lab = g('labels')
    mom = np.atleast_3d(np.asarray(cat.moments)) if n == 1 and np.asarray(cat.moments).ndim == 2 else np.asarray(cat.moments)
    if mom.ndim == 2:
        mom = mom[np.newaxis]
    for k in range(n):
        r = {'label': int(lab[k])}
        r['flux_k'], r['flux_nan'] = fk(g('segment_flux')[k])
        fe = float(np.asarray(getattr(g('segment_fluxerr')[k], 'value', g('segment_fluxerr')[k]))) if has_err else 0.0
        r['fluxerr2_k'] = int(round(fe * fe * 16)) if np.isfinite(fe) else 0
        a = float(np.asarray(getattr(g('area')[k], 'value', g('area')[k])))
        r['area'], r['area_nan'] = (int(round(a)) if np.isfinite(a) else 0), (not np.isfinite(a))
        r['segment_area'] = int(round(float(np.asarray(getattr(g('segment_area')[k], 'value', g('segment_area')[k])))))
        r['bbox'] = [int(g('bbox_xmin')[k]), int(g('bbox_xmax')[k]) + 1, int(g('bbox_ymin')[k]), int(g('bbox_ymax')[k]) + 1]
        r['min_k'], r['min_nan'] = fk(g('min_value')[k]); r['max_k'], _ = fk(g('max_value')[k])
        mi = np.atleast_2d(cat.minval_index)[k]; ma = np.atleast_2d(cat.maxval_index)[k]
        ii = lambda v: int(v) if np.isfinite(v) else -1  # noqa
        r['minidx'] = [ii(mi[0]), ii(mi[1])]; r['maxidx'] = [ii(ma[0]), ii(ma[1])]
        if has_bkg:
            r['bkgsum_k'], r['bkgsum_nan'] = fk(g('background_sum')[k]); r['bkgmean_k'], _ = fk(g('background_mean')[k])
        else:
            r['bkgsum_k'], r['bkgsum_nan'], r['bkgmean_k'] = 0, r['flux_nan'], 0
        mm = mom[k]
        vals = [mm[0, 0], mm[0, 1], mm[1, 0], mm[1, 1], mm[0, 2], mm[2, 0]]
        r['moments'] = [int(round(float(v))) if np.isfinite(v) else -999999 for v in vals]
        r['xcen_k'], r['cen_nan'] = fk(g('xcentroid')[k]); r['ycen_k'], _ = fk(g('ycentroid')[k])
        lb = float(np.asarray(getattr(g('local_background')[k], 'value', g('local_background')[k])))
        r['localbkg_k'] = int(round(lb * S)) if np.isfinite(lb) else 0
        cv = [fk(g(nm)[k], 256) for nm in ('covar_sigx2', 'covar_sigxy', 'covar_sigy2')]
        r['cov'] = [c_[0] for c_ in cv]; r['cov_nan'] = any(c_[1] for c_ in cv)
        rows.append(r)
    return rows


def canon_rows(rows, bylabel=None):
    out = []
    for r in rows:
        r2 = dict(r)
        if bylabel:
            r2['label'] = bylabel.get(r['label'], -1000 - r['label'])      # a label the map does not carry stays recognisable (and mismatches)
        out.append(json.dumps(r2, sort_keys=True))
    return sorted(out)


def rec_scene(seed):
    rng = random.Random(seed)
    sc = make_scene(rng)
    has_err, has_bkg = rng.random() < 0.8, rng.random() < 0.8
    lbw = rng.choice([0, 0, 2, 3])
    with warnings.catch_warnings():
        warnings.simplefilter('ignore')
        cat = catalog(sc, has_err, has_bkg, lbw=lbw)
        rows = rows_of(cat, has_err, has_bkg)
        base = {'id': seed, 'kind': 'rows', 'segm': sc['segm'].tolist(), 'data': sc['data'].tolist(), 'conv': sc['conv'].tolist(), 'err': sc['err'].tolist(),
                'bkg': sc['bkg'].tolist(), 'mask': sc['mask'], 'nonfinite': sc['nonfinite'], 'conv_nonfinite': sc['conv_nonfinite'],
                'has_error': has_err, 'has_bkg': has_bkg, 'rows': rows}
        out = [base]
        labs = [r['label'] for r in rows]

        def pair(rel, a, b):
            out.append({'id': 100000000 + seed * 10 + len(out), 'kind': 'pair', 'rel': rel, 'a': a, 'b': b})
        # locality: poison everything outside the labelled pixels' own values? (outside every segment and under the mask)
        sc2 = dict(sc); d2 = sc['data'].copy(); c2 = sc['conv'].copy()
        out_px = sc['segm'] == 0
        d2[out_px] = 777; c2[out_px] = -555
        for r, c in sc['mask']:
            d2[r, c] = 999; c2[r, c] = 888
        sc2['data'], sc2['conv'] = d2, c2
        if lbw == 0:
            pair('rows_depend_only_on_own_footprint', canon_rows(rows_of(catalog(sc2, has_err, has_bkg), has_err, has_bkg)), canon_rows(rows))
        # renumber labels (order preserving and not)
        perm = labs[:]; rng.shuffle(perm)
        rl = {a: b + 20 for a, b in zip(labs, perm)}
        inv = {v: k for k, v in rl.items()}
        pair('label_renumbering_changes_nothing_else', canon_rows(rows_of(catalog(sc, has_err, has_bkg, relabel=rl, lbw=lbw), has_err, has_bkg), bylabel=inv), canon_rows(rows))
        # reorder rows
        if len(labs) > 1:
            order = list(range(len(labs))); rng.shuffle(order)
            pair('row_reordering_changes_nothing_else', canon_rows(rows_of(catalog(sc, has_err, has_bkg, order=order, lbw=lbw), has_err, has_bkg)), canon_rows(rows))
        # a selection of a selection (re-ordered, then sub-selected) still reports each label's own row
        if len(labs) > 2:
            order = list(range(len(labs))); rng.shuffle(order)
            sub = [len(labs) - 1, 0] if len(labs) > 2 else [0]
            c2 = catalog(sc, has_err, has_bkg, order=order, lbw=lbw)[sub]
            want = {labs[order[k]] for k in sub}
            pair('row_reordering_changes_nothing_else', canon_rows(rows_of(c2, has_err, has_bkg)), canon_rows([r for r in rows if r['label'] in want]))
        # read order: fluxes first vs moments first (a fresh catalog each)
        c_a = catalog(sc, has_err, has_bkg, lbw=lbw); _ = c_a.segment_flux, c_a.area, c_a.min_value
        c_b = catalog(sc, has_err, has_bkg, lbw=lbw); _ = c_b.moments, c_b.centroid
        pair('independent_of_property_read_order', canon_rows(rows_of(c_a, has_err, has_bkg)), canon_rows(rows_of(c_b, has_err, has_bkg)))
        # detection catalog: moment-based properties come from the detection image, fluxes from the measurement image
        sc3 = dict(sc); sc3['data'] = sc['data'] + 1; sc3['conv'] = sc['conv'] * 2 + 1
        if seed % 2:      # the detection image has its own bad pixels (band-specific masks): none of them may leak into the measurement
            hh, ww = sc['data'].shape
            inseg = [[r, c] for r in range(hh) for c in range(ww) if sc['segm'][r, c] > 0]
            rng.shuffle(inseg)
            sc3['mask'] = [p for p in inseg[:2] if p not in sc['mask']]
            sc3['nonfinite'] = [p for p in inseg[2:3] if p not in sc['nonfinite']]
        det = catalog(sc3, has_err, has_bkg, lbw=lbw)
        cat_d = catalog(sc, has_err, has_bkg, detcat=det, lbw=lbw)
        rd = rows_of(cat_d, has_err, has_bkg); rdet = rows_of(det, has_err, has_bkg)
        pick = lambda rs, keys: [json.dumps({k: r[k] for k in keys}, sort_keys=True) for r in rs]  # noqa
        pair('detection_catalog_supplies_shape_and_position', pick(rd, ['label', 'moments', 'xcen_k', 'ycen_k', 'bbox', 'segment_area']), pick(rdet, ['label', 'moments', 'xcen_k', 'ycen_k', 'bbox', 'segment_area']))
        pair('measurement_image_supplies_fluxes', pick(rd, ['label', 'flux_nan', 'min_k', 'max_k', 'flux_k']), pick(rows, ['label', 'flux_nan', 'min_k', 'max_k', 'flux_k']))
    return out


def run(ctx):
    q = ctx.quick
    ctx.rule = ('seeded integer scenes 5x5..10x11 with 1-5 segments of kinds blob / single pixel / edge-hugging / ring (nesting) / L, non-consecutive '
                'labels, masks (sometimes covering a whole segment), NaN/inf data, separate convolved image with negatives and NaN; every row validated '
                'by TLC; non-trivial = scene has >= 2 segments and a mask or non-finite pixel inside a segment')
    n = 500 if q else 8000
    recs = [r for rs in core.pmap(rec_scene, [ctx.seed * 16807 + i for i in range(n)], chunksize=8) for r in rs]
    ver = core.validate_batch(ctx, 'Trace_Catalog', recs, 'Trace:Catalog')
    for r in recs:
        v = ver[r['id']]
        if not v['ok']:
            ctx.violation(v['clause'], {'kind': r['kind'], 'rel': r.get('rel'), 'has_mask': bool(r.get('mask')), 'has_nonfinite': bool(r.get('nonfinite')),
                                        'separate_convolved': r.get('conv') != r.get('data') if r['kind'] == 'rows' else None}, {'case': r})
        else:
            ctx.traces += 1
    ctx.evaluations += len(recs)
    ctx.nontrivial += sum(1 for r in recs if r['kind'] == 'pair' or (len(r['rows']) >= 2 and (r['mask'] or r['nonfinite'])))
    ex = next(r for r in recs if r['kind'] == 'rows' and len(r['rows']) >= 2)
    ctx.sample({'segm': ex['segm'], 'data': ex['data'], 'mask': ex['mask'], 'rows': ex['rows'][:2]})
    good = [r for r in recs if ver[r['id']]['ok'] and r['kind'] == 'rows' and not r['rows'][0]['flux_nan']][:4]
    bad = []
    for k, r in enumerate(good):
        r2 = core.jcopy(r); r2['id'] = 10**9 + k
        if k % 2:
            r2['rows'][0]['flux_k'] += S
        else:
            r2['rows'][0]['moments'][1] += 1
        bad.append(r2)
    if bad:
        vb = core.validate_batch(ctx, 'Trace_Catalog', bad, 'SelfTest:Catalog', shards=2)
        ctx.selftest('perturbed flux / moment of a row', all(not v['ok'] for v in vb.values()))
    ctx.assumptions += ['Kron / circular / fluxfrac photometry and windowed / quadratic centroids are not re-derived (footprints exceed the segment)',
                        'second-moment shape parameters are checked through the raw moments they are computed from']


def replay(ctx, rep):
    print(json.dumps(rep, indent=1, default=str)[:6000])
