"""C11 Background2D maps are full-size, finite, mask-blind and equivariant.
spec/Trace_Bkg2D.tla (+ Num.tla): TLC recomputes the box partition incl. padded edge boxes, the good-pixel sets with an exact integer
sigma clip, npixels_mesh, the exclusion rule and the Median/Mean mesh values, and checks range / finiteness / fill-value clauses of the
full maps; relations (mask-blindness, constant image, +c, xk) are pairs; everything is run with and without bottleneck."""
import json, os, random, subprocess, sys, warnings
import numpy as np
from .. import core

S = 1024


def fxa(a, s=S):
    a = np.asarray(getattr(a, 'value', a), dtype=float)
    return np.where(np.isfinite(a), np.rint(np.where(np.isfinite(a), a, 0.0) * s), -999999).astype(int).tolist()


def rec_case(seed):
    import photutils.background as B
    rng = random.Random(seed)
    h, w = rng.randint(2, 14), rng.randint(2, 14)
    by, bx = rng.randint(1, h), rng.randint(1, w)
    if rng.random() < 0.2:
        by, bx = h, w                              # box == image
    if rng.random() < 0.08:
        by, bx = rng.choice([(1, 1), (1, 1), (1, bx), (by, 1)])      # one mesh element per pixel (zoom factor 1)
    large = seed % 8 == 3
    if large:                                      # boxes of more than 600 pixels (numpy's large-array median path)
        h, w = rng.randint(26, 30), rng.randint(26, 34)
        by, bx = rng.randint(25, h), rng.randint(25, w)
    base = rng.choice([rng.randint(0, 20), rng.randint(-4, -2)])      # also background-subtracted frames (level ~0 below the noise level)
    data = [[base + rng.randint(0, 6) for _ in range(w)] for _ in range(h)]
    if rng.random() < 0.4:                          # a source
        r0, c0 = rng.randrange(h), rng.randrange(w)
        for r in range(r0, min(h, r0 + 2)):
            for c in range(c0, min(w, c0 + 2)):
                data[r][c] += rng.randint(20, 60)
    mask = [[r, c] for r in range(h) for c in range(w) if rng.random() < 0.1] if rng.random() < 0.5 else []
    if rng.random() < 0.2:                          # one box completely masked
        mask += [[r, c] for r in range(min(by, h)) for c in range(min(bx, w))]
    nonfin = [[r, c] for r in range(h) for c in range(w) if rng.random() < 0.03] if rng.random() < 0.4 else []
    cov = [[r, c] for r in range(h) for c in range(min(w, rng.randint(1, 2)))] if rng.random() < 0.3 else []
    p = rng.choice([0, 10, 50, 90, 100])
    estimator = rng.choice(['median', 'mean', 'mmm', 'sextractor', 'mode', 'biweight'])     # biweight: relations only (not re-derived)
    rmsest = rng.choice(['std', 'std', 'madstd'])
    zoom = rng.random() < 0.6
    sigma, maxiters = 3, 10
    fill = rng.choice([0.0, -7.0])
    d = np.array(data, dtype=float)
    for k, (r, c) in enumerate(nonfin):
        d[r, c] = [np.nan, np.inf][k % 2]
    m = None
    if mask:
        m = np.zeros((h, w), dtype=bool)
        for r, c in mask:
            m[r, c] = True
    cm = None
    if cov:
        cm = np.zeros((h, w), dtype=bool)
        for r, c in cov:
            cm[r, c] = True
    est = {'median': B.MedianBackground, 'mean': B.MeanBackground, 'mmm': B.MMMBackground, 'sextractor': B.SExtractorBackground,
           'mode': B.ModeEstimatorBackground, 'biweight': B.BiweightLocationBackground}[estimator]()
    if estimator == 'biweight':
        rmsest = 'biweight'
    rest = {'std': B.StdBackgroundRMS, 'madstd': B.MADStdBackgroundRMS, 'biweight': B.BiweightScaleBackgroundRMS}[rmsest]()
    noclip = rng.random() < 0.2            # sigma_clip=None: every unmasked finite pixel of a box is used
    interp = B.BkgZoomInterpolator() if zoom else B.BkgIDWInterpolator()
    from astropy.stats import SigmaClip

    def run(dd, mm=m, fsize=1, fthr=None):
        return B.Background2D(dd, (by, bx), mask=mm, coverage_mask=cm, exclude_percentile=float(p), filter_size=fsize, filter_threshold=fthr,
                              bkg_estimator=est, bkgrms_estimator=rest, sigma_clip=None if noclip else SigmaClip(sigma=float(sigma), maxiters=maxiters), interpolator=interp, fill_value=fill)
    # median filter of the meshes (whole mesh, or only the boxes above filter_threshold)
    fsize = rng.choice([(3, 3), (1, 3), (3, 1), (5, 3), (3, 5)]) if rng.random() < 0.5 else None
    selective = rng.random() < 0.6
    fthr = base + rng.randint(0, 6) + 0.37
    bad = sorted({(r, c) for r, c in mask} | {(r, c) for r, c in nonfin} | {(r, c) for r, c in cov})
    rec = {'id': seed, 'kind': 'mesh', 'data': data, 'bad': [list(x) for x in bad], 'coverage': cov, 'box': [by, bx], 'p': p, 'estimator': estimator, 'rmsest': rmsest,
           'sigma': sigma, 'maxiters': 0 if noclip else maxiters, 'zoom': zoom, 'fill_k': int(round(fill * S)), 'raised': False,
           'mesh': [[0]], 'rmsmesh': [[0]], 'madmesh': [[0]], 'npix': [[0]], 'bkg': [[0]], 'rms': [[0]], 'map_finite': True}
    out = [rec]
    with warnings.catch_warnings():
        warnings.simplefilter('ignore')
        try:
            b = run(d)
            bkg, rms = np.asarray(b.background), np.asarray(b.background_rms)
            rec['madmesh'] = fxa(np.asarray(getattr(b.background_rms_mesh, 'value', b.background_rms_mesh), dtype=float) / 1.482602218505602)
            rec.update(mesh=fxa(b.background_mesh), rmsmesh=fxa(b.background_rms_mesh), npix=np.asarray(b.npixels_mesh).astype(int).tolist(), bkg=fxa(bkg), rms=fxa(rms),
                       map_finite=bool(np.all(np.isfinite(bkg)) and np.all(np.isfinite(rms)) and np.all(np.isfinite(b.background_mesh))
                                       and np.all(np.isfinite(b.background_rms_mesh))))
        except ValueError:
            rec['raised'] = True
            if large:
                rec['kind'] = 'large'
            return out
        if large:
            # too large for the exact re-derivation by TLC: the record is paired with the same case run in the other optional-dependency
            # environment (with / without bottleneck) - see run(); the relations below are checked as for every case
            rec['kind'] = 'large'
            fsize = None

        if fsize is not None:
            frec = {'id': 200000000 + seed, 'kind': 'filter', 'raw': rec['mesh'], 'rawrms': rec['rmsmesh'], 'fs': list(fsize), 'sel': selective,
                    'thr': int(round(fthr * S)), 'zoom': zoom, 'coverage': cov, 'fill_k': rec['fill_k'], 'raised': False, 'read_rms_first': bool(seed % 2),
                    'mesh': [[0]], 'rmsmesh': [[0]], 'bkg': [[0]], 'rms': [[0]], 'map_finite': True}
            try:
                bf = run(d, fsize=fsize, fthr=fthr if selective else None)
                if frec['read_rms_first']:
                    frec['rmsmesh'] = fxa(bf.background_rms_mesh)
                frec['mesh'] = fxa(bf.background_mesh)
                frec['rmsmesh'] = fxa(bf.background_rms_mesh)
                fb, fr = np.asarray(bf.background), np.asarray(bf.background_rms)
                frec.update(bkg=fxa(fb), rms=fxa(fr), map_finite=bool(np.all(np.isfinite(fb)) and np.all(np.isfinite(fr))))
            except Exception as e:  # noqa
                frec['raised'] = True
                frec['exc'] = repr(e)
            out.append(frec)

        def pair(rel, a, bb, tol=2, raised=False):
            out.append({'id': 100000000 + seed * 10 + len(out), 'kind': 'pair', 'rel': rel, 'a': np.ravel(fxa(a)).tolist(), 'b': np.ravel(fxa(bb)).tolist(),
                        'tol': tol, 'raised': raised})
        try:
            # read order: a second instance whose meshes are read BEFORE its maps (the main run read the maps first)
            bo = run(d)
            for deprecated in ('background_mesh_masked', 'background_rms_mesh_masked', 'mesh_nmasked'):      # (still public: read first)
                try:
                    getattr(bo, deprecated)
                except AttributeError:
                    pass
            mo, ro = fxa(bo.background_mesh), fxa(bo.background_rms_mesh)
            bo.background, bo.background_rms
            pair('meshes_do_not_depend_on_whether_the_maps_were_read', np.concatenate([np.ravel(mo), np.ravel(ro), np.ravel(fxa(bo.background_mesh)), np.ravel(fxa(bo.background_rms_mesh))]) / S,
                 np.concatenate([np.ravel(rec['mesh']), np.ravel(rec['rmsmesh'])] * 2) / S, tol=0)
            pair('maps_do_not_depend_on_what_was_read_before', np.concatenate([np.ravel(fxa(bo.background)), np.ravel(fxa(bo.background_rms))]) / S,
                 np.concatenate([np.ravel(rec['bkg']), np.ravel(rec['rms'])]) / S, tol=0)
            d2 = d.copy()
            for r, c in mask + cov:
                d2[r, c] = rng.choice([1e7, -1e7, np.nan])
            b2 = run(d2)
            pair('independent_of_values_in_masked_and_coverage_pixels', np.concatenate([np.ravel(b2.background), np.ravel(b2.background_rms)]),
                 np.concatenate([np.ravel(bkg), np.ravel(rms)]))
            cst = float(rng.randint(1, 9))
            dc = np.where(np.isfinite(d), cst, d)
            bc = run(dc)
            okc = np.ones((h, w), dtype=bool)
            if cm is not None:
                okc &= ~cm
            pair('constant_image_reproduced_with_zero_rms', np.concatenate([np.asarray(bc.background)[okc], np.asarray(bc.background_rms)[okc]]),
                 np.concatenate([np.full(int(okc.sum()), cst), np.zeros(int(okc.sum()))]), tol=1)
            sh = 5.0
            bs = run(d + sh)
            fillmask = okc
            pair('adding_constant_shifts_background_only', np.concatenate([np.asarray(bs.background)[fillmask], np.asarray(bs.background_rms)[fillmask]]),
                 np.concatenate([bkg[fillmask] + sh, rms[fillmask]]), tol=3)
            # a large un-subtracted pedestal (2^27 ~ 1.3e8, exactly representable next to the small integers): the estimators work on
            # differences, not on raw moments
            big_sh = 2.0 ** 27
            bb2 = run(d + big_sh)
            pair('adding_a_large_pedestal_shifts_background_only', np.concatenate([np.asarray(bb2.background)[fillmask] - big_sh, np.asarray(bb2.background_rms)[fillmask]]),
                 np.concatenate([bkg[fillmask], rms[fillmask]]), tol=3)
            if estimator == 'biweight' and noclip and h % by == 0 and w % bx == 0 and not large:
                # the biweight estimators against astropy.stats on the good pixels of every kept box (no clipping: hot pixels stay in)
                from astropy.stats import biweight_location, biweight_scale
                okm = np.isfinite(d)
                if m is not None:
                    okm &= ~m
                if cm is not None:
                    okm &= ~cm
                got_b, got_r, exp_b, exp_r = [], [], [], []
                for r_ in range(h // by):
                    for c_ in range(w // bx):
                        vals = d[r_ * by:(r_ + 1) * by, c_ * bx:(c_ + 1) * bx][okm[r_ * by:(r_ + 1) * by, c_ * bx:(c_ + 1) * bx]]
                        if 100 * vals.size > (100 - p) * by * bx and vals.size >= 2:
                            got_b.append(float(b.background_mesh[r_, c_])); got_r.append(float(b.background_rms_mesh[r_, c_]))
                            exp_b.append(float(biweight_location(vals))); exp_r.append(float(biweight_scale(vals)))
                if got_b:
                    pair('biweight_meshes_equal_astropy_biweight_of_the_box_pixels', got_b + got_r, exp_b + exp_r, tol=2)
            kf = rng.choice([3.0, 3.0, 2.0 ** -33, 2.0 ** 20])          # also tiny and huge absolute values (powers of two: exact scaling)
            bk = run(d * kf)
            pair('scaling_scales_background_and_rms', np.concatenate([np.asarray(bk.background)[fillmask], np.asarray(bk.background_rms)[fillmask]]) * (3.0 / kf),
                 np.concatenate([bkg[fillmask] * 3.0, rms[fillmask] * 3.0]), tol=6)
            if seed % 5 == 0:
                # a large box of a constant single-precision image whose value is not exactly summable
                cval = np.float32(1000.1 + (seed % 7))
                big = np.full((rng.choice([50, 64]), rng.choice([50, 64, 100])), cval, dtype=np.float32)
                bb_ = B.Background2D(big, big.shape if seed % 2 else (50, 50), filter_size=1, bkg_estimator=est, interpolator=interp)
                bgm, brm = np.asarray(bb_.background, dtype=float), np.asarray(bb_.background_rms, dtype=float)
                pair('constant_image_reproduced_with_zero_rms', [bgm.min(), bgm.max(), brm.min(), brm.max()], [float(cval), float(cval), 0.0, 0.0], tol=2)
        except ValueError:
            pair('relations', [0], [1], raised=True)
    return out


def _main_record():
    """subprocess entry: record cases with bottleneck disabled"""
    import photutils.utils._optional_deps as od
    od.HAS_BOTTLENECK = False
    sys.modules['bottleneck'] = None
    seeds = json.loads(sys.argv[2])
    out = []
    for sd in seeds:
        out += rec_case(sd)
    import photutils.utils._stats as st
    json.dump({'recs': out, 'numpy_path': st.nanmedian is np.nanmedian}, open(sys.argv[3], 'w'))


def record_without_bottleneck(ctx, seeds):
    chunks = [seeds[i::16] for i in range(16)]
    procs = []
    for k, ch in enumerate(chunks):
        if not ch:
            continue
        f = os.path.join(ctx.tmp, f'nobn_{k}.json')
        env = dict(os.environ, PYTHONPATH=core.ROOT + (os.pathsep + os.environ['PYTHONPATH'] if os.environ.get('PYTHONPATH') else ''))
        procs.append((subprocess.Popen([core.PY, '-c', 'import sys; from harness.props import c11; c11._main_record()', '--', json.dumps(ch), f],
                                       cwd=core.ROOT, env=env, stdout=subprocess.DEVNULL, stderr=subprocess.PIPE), f))
    recs, ok = [], True
    for p, f in procs:
        _, err = p.communicate()
        if p.returncode != 0:
            raise core.Machinery('recording without bottleneck failed: ' + err.decode()[-400:])
        d = json.load(open(f))
        ok &= d['numpy_path']
        for r in d['recs']:
            r['id'] += 500000000
            r['nobottleneck'] = True
        recs += d['recs']
    if not ok:
        ctx.assumptions.append('bottleneck could not be disabled; numpy path not exercised')
    return recs


def run(ctx):
    q = ctx.quick
    ctx.rule = ('seeded integer images 2x2..14x14, box sizes 1..image (dividing or not, box == image), masks (sometimes a whole box), NaN/inf, '
                'coverage masks, exclude_percentile in {0,10,50,90,100}, filter sizes 1/3/5 per axis (whole mesh or selective above a threshold), Median/Mean/MMM/SExtractor/Mode estimators, Std/MADStd RMS, zoom/IDW interpolators, with and without bottleneck; '
                'non-trivial = image has a padded edge box or an excluded box')
    n = 500 if q else 8000
    seeds = [ctx.seed * 40692 + i for i in range(n)]
    recs = [r for rs in core.pmap(rec_case, seeds, chunksize=8) for r in rs]
    recs += record_without_bottleneck(ctx, seeds[: n // 2])
    # large-box cases: the same call with and without bottleneck must agree (meshes, pixel counts, maps)
    big = {r['id']: r for r in recs if r['kind'] == 'large'}
    recs = [r for r in recs if r['kind'] != 'large']
    for i, r in big.items():
        o = big.get(i + 500000000)
        if o is None or i >= 500000000:
            continue
        flat = lambda x: [v for k in ('mesh', 'rmsmesh', 'npix', 'bkg', 'rms') for v in np.ravel(x[k]).tolist()] + [int(x['raised']), int(x['map_finite'])]
        fa, fb = flat(r), flat(o)
        recs.append({'id': 700000000 + i, 'kind': 'pair', 'rel': 'large_boxes_same_result_with_and_without_bottleneck', 'a': fa if len(fa) == len(fb) else [0],
                     'b': fb if len(fa) == len(fb) else [1], 'tol': 2, 'raised': False})
    ver = core.validate_batch(ctx, 'Trace_Bkg2D', recs, 'Trace:Bkg2D')
    for r in recs:
        v = ver[r['id']]
        if not v['ok']:
            ctx.violation(v['clause'], {'kind': r['kind'], 'rel': r.get('rel'), 'estimator': r.get('estimator'), 'zoom': r.get('zoom'),
                                        'no_bottleneck': bool(r.get('nobottleneck')), 'fs': r.get('fs'), 'sel': r.get('sel'),
                                        'divides': (len(r['data']) % r['box'][0] == 0 and len(r['data'][0]) % r['box'][1] == 0) if r['kind'] == 'mesh' else None},
                          {'case': r})
        else:
            ctx.traces += 1
    ctx.evaluations += len(recs)
    ctx.nontrivial += sum(1 for r in recs if r['kind'] in ('pair', 'filter') or len(r['data']) % r['box'][0] or len(r['data'][0]) % r['box'][1] or r['bad'])
    ex = next(r for r in recs if r['kind'] == 'mesh' and not r['raised'])
    ctx.sample({k: ex[k] for k in ('data', 'bad', 'box', 'p', 'estimator', 'mesh', 'npix')})
    good = [r for r in recs if ver[r['id']]['ok'] and r['kind'] == 'mesh' and not r['raised'] and r['p'] == 100][:4]
    bad = []
    for k, r in enumerate(good):
        r2 = core.jcopy(r); r2['id'] = 10**9 + k
        if k % 2:
            r2['npix'][0][0] += 1
        else:
            r2['mesh'][0][0] += 40 * S
        bad.append(r2)
    if bad:
        vb = core.validate_batch(ctx, 'Trace_Bkg2D', bad, 'SelfTest:Bkg2D', shards=2)
        rej = [not v['ok'] for v in vb.values()]
        ctx.selftest('perturbed mesh value / npixels_mesh', sum(rej) >= len(rej) - 1, f'{sum(rej)}/{len(rej)} rejected (clip ties are don\'t-care)')
    ctx.assumptions += ['the biweight estimators and the numerical quality of the interpolators are not re-derived '
                        '(range, finiteness and relations only)', 'constant image is compared at 1/1024 (the IDW fill is exact only to 1 ulp)']


def replay(ctx, rep):
    print(json.dumps(rep, indent=1, default=str)[:6000])
