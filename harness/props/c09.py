"""C09 Results never depend on access order or on earlier calls.
Sub-machines: Bkg2DLazy.tla (Background2D lazy meshes + memory-saving deletions), ApertureAttrs.tla (descriptor-driven cache
invalidation), ProfileNorm.tla (normalize/unnormalize vs first reads; shared with C19), CallSeq.tla (repeated calls of one
PSFPhotometry / IterativePSFPhotometry / star finder / Ellipse / GriddedPSFModel instance).  For each, TLC enumerates every
transition of the model (BFS path + one more request); the harness drives ONE real instance along the path and compares every
returned value bit-wise (canon digest) with what a FRESH instance returns for the same request."""
import json, warnings
import numpy as np
from .. import core
from ..canon import digest, close


# ------------------------------------------------------------------------------------------ Background2D
def bkg_scene():
    y, x = np.mgrid[:30, :36]
    data = 10.0 + 0.05 * x + 0.08 * y + 40.0 * np.exp(-0.5 * (((x - 8) / 2.5) ** 2 + ((y - 21) / 2.5) ** 2))
    data = data + np.random.default_rng(5).normal(0, 0.5, data.shape)
    return data


def bkg_make(cfg):
    from photutils.background import Background2D, BkgIDWInterpolator, BkgZoomInterpolator, MedianBackground
    data = bkg_scene()
    mask = None
    if cfg['excluded']:
        mask = np.zeros(data.shape, dtype=bool)
        mask[0:6, 0:6] = True          # one box completely masked -> NaN mesh, filled by IDW
    thr = {'none': None, 'below_min': 1.0, 'selective': 13.5, 'selective_zero': 0.0}[cfg['thr']]
    if cfg['thr'] == 'selective_zero':
        data = data - 13.5          # background-subtracted data: some meshes are <= 0, and the threshold 0.0 is falsy
    interp = BkgZoomInterpolator() if cfg['interp'] == 'zoom' else BkgIDWInterpolator()
    return Background2D(data, 6, mask=mask, filter_size=cfg['filter_size'], filter_threshold=thr, interpolator=interp,
                        bkg_estimator=MedianBackground(), exclude_percentile=(10.0 if cfg['excluded'] else 100.0))


def bkg_replay(args):
    cfg, path = args
    warnings.simplefilter('ignore')
    out = []
    fresh = {}
    for r in set(path):
        try:
            fresh[r] = digest(getattr(bkg_make(cfg), r))
        except Exception as e:  # noqa
            return [('fresh_object_raises', {'obj': 'Background2D', 'read': r, **cfg}, {'exc': repr(e)})]
    obj = bkg_make(cfg)
    for k, r in enumerate(path):
        sig = {'obj': 'Background2D', 'read': r, 'after': path[k - 1] if k else None, 'thr': cfg['thr']}
        try:
            v = getattr(obj, r)
        except Exception as e:  # noqa
            out.append(('read_raises_after_history', sig, {'exc': repr(e), 'path': path, 'cfg': cfg}))
            break
        if digest(v) != fresh[r]:
            out.append(('value_differs_from_fresh', sig, {'path': path, 'cfg': cfg}))
    return out


def run_bkg(ctx):
    r = ctx.mc('Bkg2DLazy', 'MC_Bkg2DLazy.cfg', workers=4, coverage=True)
    bad = ctx.mc('Bkg2DLazy', 'MC_Bkg2DLazy_pinned.cfg', workers=4, expect_hold=False, check_ok=False)
    if 'NoReadRaises' not in bad.violated:
        raise core.Machinery('vacuity guard: delete-before-filter variant not rejected')
    g = ctx.tlc('Bkg2DLazy', core.make_cfg(ctx, 'GEN_Bkg2DLazy.cfg', MaxDepth=(4 if ctx.quick else 6)), part='GEN:Bkg2DLazy', workers=1)
    beh = [(rec['thr'], rec['path']) for rec in g.records if rec.get('_tag') == 'GEN']
    # plus every history of length 3 (no state abstraction: the model's VIEW merges histories a wrong implementation may distinguish)
    g2 = ctx.tlc('Bkg2DLazy', core.make_cfg(ctx, 'GEN_Bkg2DLazy_leaves.cfg', MaxDepth=(3 if ctx.quick else 4)), part='GEN:Bkg2DLazy/leaves', workers=1)
    beh += [(rec['thr'], rec['path']) for rec in g2.records if rec.get('_tag') == 'GEN']
    beh = [json.loads(x) for x in sorted({json.dumps(b) for b in beh})]
    jobs = []
    for thr, path in beh:
        for interp in ('zoom', 'idw'):
            for excluded in (False, True):
                for fs in ((3,) if ctx.quick else (1, 3)):
                    jobs.append(({'thr': thr, 'interp': interp, 'excluded': excluded, 'filter_size': fs}, path))
    res = core.pmap(bkg_replay, jobs, chunksize=8)
    for vs in res:
        for v in vs:
            ctx.violation(*v)
    ctx.evaluations += len(jobs); ctx.traces += len(jobs)
    ctx.nontrivial += len({json.dumps(j) for j in jobs if len(j[1]) >= 2})
    ctx.sample({'kind': 'Background2D read order', 'cfg': jobs[len(jobs) // 2][0], 'path': jobs[len(jobs) // 2][1]})


# ------------------------------------------------------------------------------------------ apertures
AP_POS = {1: (7.3, 6.1), 2: [(7.3, 6.1), (12.0, 9.5)], 3: [(3.2, 4.4), (10.1, 11.7), (15.5, 2.25)]}
AP_DELTA = np.array([1.5, -2.0])
AP_CLASSES = ['CircularAperture', 'CircularAnnulus', 'EllipticalAperture', 'EllipticalAnnulus', 'RectangularAperture', 'RectangularAnnulus']


def ap_sizes(cls, k):
    f = 1.0 if k == 1 else 1.6
    return {'CircularAperture': {'r': 2.5 * f}, 'CircularAnnulus': {'r_in': 1.5 * f, 'r_out': 3.5 * f},
            'EllipticalAperture': {'a': 3.5 * f, 'b': 1.5 * f}, 'EllipticalAnnulus': {'a_in': 1.5 * f, 'a_out': 4.0 * f, 'b_out': 2.0 * f, 'b_in': 0.75 * f},
            'RectangularAperture': {'w': 5.0 * f, 'h': 2.0 * f}, 'RectangularAnnulus': {'w_in': 2.0 * f, 'w_out': 6.0 * f, 'h_out': 3.0 * f, 'h_in': 1.0 * f}}[cls]


def ap_theta(k):
    if k == 3:      # the SAME bare number as id 1 in another unit: a different orientation (a setter that compares numbers only keeps stale caches)
        import astropy.units as u
        return 0.3 * u.deg
    return 0.3 if k == 1 else 1.1


def ap_build(cls, p):
    import photutils.aperture as A
    pos = np.array(AP_POS[p['pos']], dtype=float) + p['shift'] * AP_DELTA
    kw = dict(ap_sizes(cls, p['size']))
    if not cls.startswith('Circular'):
        kw['theta'] = ap_theta(p['theta'])
    return getattr(A, cls)(pos, **kw)


_AP_IMG = None


def ap_read(ap, r):
    global _AP_IMG
    if _AP_IMG is None:
        y, x = np.mgrid[:16, :20]
        _AP_IMG = (1.0 + x + 20.0 * y + 0.01 * x * y).astype(float)
    if r == 'shape':
        try:
            n = len(ap)
        except TypeError:
            n = 'scalar'
        return [tuple(ap.shape), bool(ap.isscalar), n]
    if r == 'bbox':
        b = ap.bbox
        b = [b] if ap.isscalar else list(b)
        return [(x.ixmin, x.ixmax, x.iymin, x.iymax) for x in b]
    if r == 'mask':
        m = ap.to_mask(method='exact')
        m = [m] if not isinstance(m, list) else m
        return [(np.asarray(x.data), (x.bbox.ixmin, x.bbox.iymin)) for x in m]
    if r == 'phot':
        return [np.asarray(v) for v in ap.do_photometry(_AP_IMG, method='subpixel', subpixels=3)]
    if r == 'area':
        return [float(ap.area), np.asarray(ap.area_overlap(_AP_IMG))]
    raise core.Machinery(r)


def ap_replay(args):
    cls, hist = args
    warnings.simplefilter('ignore')
    p = {'pos': hist[0]['arg'], 'shift': 0, 'size': 1, 'theta': 1}
    ap = ap_build(cls, p)
    caller_arr = np.array(AP_POS[p['pos']], dtype=float)      # the caller's own float64 array, handed to the setter below
    ap.positions = caller_arr
    out = []
    path = []
    for ev in hist[1:]:
        op, arg = ev['op'], ev['arg']
        path.append([op, arg])
        sig = {'obj': cls, 'op': op, 'arg': arg, 'after': path[-2] if len(path) > 1 else None}
        try:
            if op == 'set_pos':
                p.update(pos=arg, shift=0)
                caller_arr = np.array(AP_POS[arg], dtype=float)
                ap.positions = caller_arr
            elif op == 'caller_mutates':
                caller_arr += 3.25                 # must not reach the aperture
                caller_arr = caller_arr.copy()
            elif op == 'used_with_mask':
                ap_read(ap, 'area')                       # make sure the image exists
                bad = np.zeros(_AP_IMG.shape, dtype=bool); bad[::2, ::2] = True
                ap.area_overlap(_AP_IMG, mask=bad, method='exact')
                ap.do_photometry(_AP_IMG, mask=bad, method='exact')
                mk = ap.to_mask(method='exact')
                for x in (mk if isinstance(mk, list) else [mk]):
                    x.data[...] = 0.0                    # the caller's own copy of the weights
                ap._to_patch(origin=(3.0, -2.0))         # drawn shifted by an origin (what plot(origin=...) does): a copy is shifted
            elif op == 'iadd_pos':
                p['shift'] += 1
                ap.positions += AP_DELTA
            elif op == 'set_size':
                p['size'] = arg
                for k, v in ap_sizes(cls, arg).items():
                    setattr(ap, k, v)
            elif op == 'set_theta':
                p['theta'] = arg
                if not cls.startswith('Circular'):
                    ap.theta = ap_theta(arg)
            else:
                got = ap_read(ap, arg)
                exp = ap_read(ap_build(cls, p), arg)
                if digest(got) != digest(exp):
                    out.append(('value_differs_from_fresh', sig, {'path': path, 'params': dict(p)}))
        except Exception as e:  # noqa
            out.append(('raises_after_history', sig, {'exc': repr(e), 'path': path}))
            break
    return out


def run_apertures(ctx):
    ctx.mc('ApertureAttrs', 'MC_ApertureAttrs.cfg', workers=4)
    for bad in ('MC_ApertureAttrs_bad1.cfg', 'MC_ApertureAttrs_bad2.cfg'):
        b = ctx.mc('ApertureAttrs', bad, workers=2, expect_hold=False, check_ok=False)
        if 'Coherent' not in b.violated:
            raise core.Machinery(f'vacuity guard: {bad} not rejected')
    g = ctx.tlc('ApertureAttrs', core.make_cfg(ctx, 'GEN_ApertureAttrs.cfg', MaxDepth=(4 if ctx.quick else 5)), part='GEN:ApertureAttrs', workers=1)
    hists = [rec['v'] for rec in g.records if rec.get('_tag') == 'GEN']
    jobs = [(cls, h) for h in hists for cls in AP_CLASSES]
    for vs in core.pmap(ap_replay, jobs, chunksize=32):
        for v in vs:
            ctx.violation(*v)
    ctx.evaluations += len(jobs); ctx.traces += len(jobs)
    ctx.nontrivial += len({json.dumps(j) for j in jobs if any(e['op'] != 'read' for e in j[1][1:]) and j[1][-1]['op'] == 'read'})
    ctx.sample({'kind': 'aperture attribute history', 'class': jobs[-1][0], 'history': jobs[-1][1]})


def run(ctx):
    ctx.rule = ('per sub-machine: one case per transition of the TLA+ model (BFS path + one request); non-trivial = path length >= 2; '
                'every returned value compared by digest with a fresh instance')
    ctx.exhaustive = True
    run_bkg(ctx)
    run_apertures(ctx)
    from .profnorm import run_profnorm
    run_profnorm(ctx)
    from .callseq import run_callseq
    run_callseq(ctx)
    ctx.assumptions += ['bit-identity of repeated computations on this platform (measured: fresh vs fresh digests are equal)']


def replay(ctx, rep):
    print(json.dumps(rep, indent=1, default=str)[:6000])
