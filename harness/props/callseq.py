"""CallSeq.tla replay (C09): every request sequence TLC generates is executed on ONE real instance; after each call the result
(canon digest) and the public configuration are compared with a FRESH instance's result for the same single request."""
import json, warnings
import numpy as np
from .. import core
from ..canon import digest, canon


def _scene(seed, n=4, shape=(41, 47), shift=0.0):
    from photutils.psf import CircularGaussianPRF
    rng = np.random.default_rng(seed)
    y, x = np.mgrid[:shape[0], :shape[1]]
    pos = [(10.3 + shift, 9.6), (15.2 + shift, 11.8), (30.7, 25.1 + shift), (36.4, 30.2)][:n]
    data = np.zeros(shape)
    m = CircularGaussianPRF(fwhm=3.0)
    for k, (px, py) in enumerate(pos):
        data += m.evaluate(x, y, 100.0 + 40 * k, px, py, 3.0)
    data += 2.0 + 0.01 * x + rng.normal(0, 0.05, shape)
    return data, pos


# ---- object kinds: make() -> object ; requests: name -> callable(obj) -> observable -------------------------------
def _phot_requests():
    from astropy.table import Table
    d1, p1 = _scene(1)
    d2, p2 = _scene(2, shift=0.7)

    def tab(pos, **extra):
        t = Table()
        t['x'] = [p[0] + 0.2 for p in pos]
        t['y'] = [p[1] - 0.15 for p in pos]
        for k, v in extra.items():
            t[k] = v
        return t
    mask = np.zeros(d1.shape, dtype=bool); mask[9:11, 10:12] = True

    def obs(obj, res):
        img = obj.make_model_image(d1.shape, psf_shape=(9, 9)) if res is not None else None
        # the public per-call result attributes are part of what the object reports after the call
        state = {k: getattr(obj, k, None) for k in ('results', 'fit_params', 'finder_results', 'init_params')}
        fr = getattr(obj, 'fit_results', None)
        if fr is not None:
            state['fit_results'] = [getattr(x, 'results', None) for x in fr]
        return [res, img, getattr(obj, 'fit_info', None) and sorted(obj.fit_info.keys()), state]
    return {
        'plain1': lambda o: obs(o, o(d1, init_params=tab(p1))),
        'plain2': lambda o: obs(o, o(d2, init_params=tab(p2))),
        # the same sources started a fraction of a pixel elsewhere (e.g. a rerun from earlier fit results): same nearest pixels, other annuli
        'plain1_subpix': lambda o: obs(o, o(d1, init_params=tab([(round(a + 0.2) - 0.3 - 0.2, round(b - 0.15) + 0.35 + 0.15) for a, b in p1]))),
        'groupid': lambda o: obs(o, o(d1, init_params=tab(p1, group_id=[1, 1, 2, 3]))),
        'localbkg': lambda o: obs(o, o(d1, init_params=tab(p1, local_bkg=[1.0, 2.0, 0.5, 0.0]))),
        'masked': lambda o: obs(o, o(d1, mask=mask, init_params=tab(p1))),
        'finder': lambda o: obs(o, o(d2)),
        'nosources': lambda o: obs(o, o(np.zeros_like(d1))),          # the finder detects nothing: the call ends before any fit
    }


def _phot_make():
    from photutils.background import LocalBackground
    from photutils.detection import DAOStarFinder
    from photutils.psf import CircularGaussianPRF, PSFPhotometry, SourceGrouper
    return PSFPhotometry(CircularGaussianPRF(fwhm=3.0), (7, 7), grouper=SourceGrouper(7.0), finder=DAOStarFinder(5.0, 3.0),
                         localbkg_estimator=LocalBackground(6, 10), aperture_radius=4)


def _phot_config(o):
    top = o
    o = getattr(o, '_psfphot', o)          # IterativePSFPhotometry wraps a PSFPhotometry
    extra = {'maxiters': getattr(top, 'maxiters', None), 'mode': getattr(top, 'mode', None)}
    return {**extra, 'grouper': type(o.grouper).__name__, 'finder': type(o.finder).__name__, 'localbkg': type(o.localbkg_estimator).__name__,
            'fit_shape': tuple(int(v) for v in o.fit_shape), 'aperture_radius': o.aperture_radius,
            'psf_params': [float(getattr(o.psf_model, n).value) for n in o.psf_model.param_names],
            'psf_fixed': [bool(getattr(o.psf_model, n).fixed) for n in o.psf_model.param_names]}


def _iter_make():
    from photutils.background import LocalBackground
    from photutils.detection import DAOStarFinder
    from photutils.psf import CircularGaussianPRF, IterativePSFPhotometry, SourceGrouper
    return IterativePSFPhotometry(CircularGaussianPRF(fwhm=3.0), (7, 7), DAOStarFinder(5.0, 3.0), grouper=SourceGrouper(7.0),
                                  localbkg_estimator=LocalBackground(6, 10), aperture_radius=4, maxiters=2)


def _images_setup(kind):
    """an object that has been called once; the requests are the image builders in either include_localbkg setting"""
    from astropy.table import Table
    d1, p1 = _scene(1)

    def mk():
        from photutils.background import LocalBackground
        from photutils.detection import DAOStarFinder
        from photutils.psf import CircularGaussianPRF, IterativePSFPhotometry, PSFPhotometry, SourceGrouper
        if kind == 'psf':
            o = PSFPhotometry(CircularGaussianPRF(fwhm=3.0), (7, 7), grouper=SourceGrouper(7.0), localbkg_estimator=LocalBackground(6, 10), aperture_radius=4)
            t = Table(); t['x'] = [p[0] + 0.2 for p in p1]; t['y'] = [p[1] - 0.1 for p in p1]
            o(d1, init_params=t)
        else:
            o = IterativePSFPhotometry(CircularGaussianPRF(fwhm=3.0), (7, 7), DAOStarFinder(5.0, 3.0), grouper=SourceGrouper(7.0), localbkg_estimator=LocalBackground(6, 10),
                                       aperture_radius=4, maxiters=1 if kind == 'iter_new1' else 2, mode='all' if kind == 'iter_all' else 'new')
            o(d1)
        return o
    reqs = {'model_lb': lambda o: o.make_model_image(d1.shape, psf_shape=(9, 9), include_localbkg=True),
            'model': lambda o: o.make_model_image(d1.shape, psf_shape=(9, 9), include_localbkg=False),
            'resid_lb': lambda o: o.make_residual_image(d1, psf_shape=(9, 9), include_localbkg=True),
            'resid': lambda o: o.make_residual_image(d1, psf_shape=(9, 9), include_localbkg=False)}
    return mk, reqs


def _finder_requests():
    d1, _ = _scene(1)
    d2, _ = _scene(2, shift=0.7)
    mask = np.zeros(d1.shape, dtype=bool); mask[5:16, 5:14] = True
    return {'img1': lambda o: o(d1 - 2.0), 'img2': lambda o: o(d2 - 2.0), 'img1_masked': lambda o: o(d1 - 2.0, mask=mask),
            'empty': lambda o: o(np.zeros((30, 30)) + 0.0)}


def _finder_make(kind):
    def mk():
        from photutils.detection import DAOStarFinder, IRAFStarFinder, StarFinder
        from photutils.psf import CircularGaussianPRF
        xy = np.array([[10.3, 9.6], [15.2, 11.8], [30.7, 25.1], [36.4, 30.2]])
        if kind == 'dao_xy':
            return DAOStarFinder(4.0, 3.0, xycoords=xy)
        if kind == 'iraf_xy':
            return IRAFStarFinder(4.0, 3.0, xycoords=xy)
        if kind == 'dao':
            return DAOStarFinder(4.0, 3.0, brightest=3)
        if kind == 'iraf':
            return IRAFStarFinder(4.0, 3.0)
        y, x = np.mgrid[:9, :9]
        kern = CircularGaussianPRF(fwhm=3.0).evaluate(x, y, 1.0, 4, 4, 3.0)
        return StarFinder(4.0, kern)
    return mk


def _ellipse_setup():
    from photutils.isophote import Ellipse, EllipseGeometry
    y, x = np.mgrid[:61, :61]
    th = 0.6
    xr = (x - 30.4) * np.cos(th) + (y - 29.7) * np.sin(th)
    yr = -(x - 30.4) * np.sin(th) + (y - 29.7) * np.cos(th)
    img = 100.0 * np.exp(-np.sqrt(xr ** 2 + (yr / 0.7) ** 2) / 6.0)

    def mk():
        return Ellipse(img, EllipseGeometry(30.0, 30.0, 8.0, 0.25, 0.5))

    def obs(iso):
        return [[float(i.sma), float(i.x0), float(i.y0), float(i.eps), float(i.pa), float(i.intens), int(i.stop_code)] for i in iso]
    reqs = {'free': lambda o: obs(o.fit_image(sma0=8.0, minsma=4.0, maxsma=14.0, step=0.3)),
            'fixcen': lambda o: obs(o.fit_image(sma0=8.0, minsma=4.0, maxsma=14.0, step=0.3, fix_center=True)),
            'fixpa': lambda o: obs(o.fit_image(sma0=8.0, minsma=4.0, maxsma=14.0, step=0.3, fix_pa=True, fix_eps=True)),
            'one': lambda o: obs([o.fit_isophote(9.0)]),
            # the starting semi-major axis: taken from the call, or - when not given - from the geometry the object was built with
            'sma6': lambda o: obs(o.fit_image(sma0=6.0, minsma=4.0, maxsma=14.0, step=0.3)),
            'nosma0': lambda o: obs(o.fit_image(minsma=4.0, maxsma=14.0, step=0.3))}
    return mk, reqs


def _gridded_setup():
    from astropy.nddata import NDData
    from photutils.psf import GriddedPSFModel
    psfs = []
    y, x = np.mgrid[:13, :13]
    xy = [(0, 0), (40, 0), (0, 30), (40, 30), (20, 0), (20, 30)]
    xy = sorted(xy, key=lambda p: (p[1], p[0]))
    for k, (gx, gy) in enumerate(xy):
        s = 1.5 + 0.02 * gx + 0.03 * gy
        psfs.append(np.exp(-0.5 * (((x - 6) / s) ** 2 + ((y - 6) / (s * 1.2)) ** 2)))
    nd = NDData(np.array(psfs), meta={'grid_xypos': xy, 'oversampling': 1})

    def mk():
        return GriddedPSFModel(nd)
    yy, xx = np.mgrid[:9, :9]

    def ev(x0, y0):
        def f(o):
            o.x_0, o.y_0, o.flux = x0, y0, 3.0
            return np.asarray(o(xx + int(x0) - 4, yy + int(y0) - 4))
        return f
    reqs = {'cell1': ev(10.3, 8.2), 'cell2': ev(33.1, 21.7), 'gridpt': ev(20.0, 30.0), 'outside': ev(47.5, 36.0),
            'copy_then_cell1': lambda o: ev(10.3, 8.2)(o.copy())}
    return mk, reqs


def _misc_setup():
    """other configured callables that are meant to be reused: segmentation finder, grouper, local background, image depth"""
    d1, p1 = _scene(1)
    d2, p2 = _scene(2, shift=0.7)
    mask = np.zeros(d1.shape, dtype=bool); mask[5:16, 5:14] = True

    def mk_sf():
        from photutils.segmentation import SourceFinder
        return SourceFinder(npixels=5, nlevels=8, contrast=0.01, progress_bar=False)

    def sf(img, thr, **kw):
        def f(o):
            s = o(img - 2.0, thr, **kw)
            return None if s is None else [s.data, s.labels, getattr(s, 'deblended_labels', None)]
        return f
    sf_req = {'img1': sf(d1, 3.0), 'img2': sf(d2, 3.0), 'img1_masked': sf(d1, 3.0, mask=mask), 'high': sf(d1, 1e6)}

    def mk_gr():
        from photutils.psf import SourceGrouper
        return SourceGrouper(6.0)
    x1, y1 = np.array([p[0] for p in p1]), np.array([p[1] for p in p1])
    gr_req = {'four': lambda o: o(x1, y1), 'two': lambda o: o(x1[:2], y1[:2]), 'far': lambda o: o(x1 * 5, y1 * 5), 'one': lambda o: o(x1[:1], y1[:1])}

    def mk_lb():
        from photutils.background import LocalBackground
        return LocalBackground(5.0, 9.0)
    lb_req = {'img1': lambda o: o(d1, x1, y1), 'img2': lambda o: o(d2, x1, y1), 'img1_masked': lambda o: o(d1, x1, y1, mask=mask), 'scalar': lambda o: o(d1, 20.0, 20.0),
              'img1_subpix': lambda o: o(d1 + 0.3 * np.arange(d1.shape[1])[None, :] ** 1.5, np.round(x1) + 0.35, np.round(y1) - 0.3),
              'img1_ramp': lambda o: o(d1 + 0.3 * np.arange(d1.shape[1])[None, :] ** 1.5, np.round(x1) - 0.3, np.round(y1) + 0.2)}

    def mk_dp():
        from photutils.utils import ImageDepth
        return ImageDepth(2.0, nsigma=3.0, napers=30, niters=2, mask_pad=1, seed=7, progress_bar=False)
    smask = np.zeros(d1.shape, dtype=bool); smask[6:14, 6:18] = True; smask[22:34, 27:40] = True
    def dp(img, m):
        return lambda o: [list(o(img, m)), o.fluxes, o.napers_used, [a.positions for a in o.apertures]]      # result + the public per-call attributes
    dp_req = {'img1': dp(d1, smask), 'img2': dp(d2, smask), 'img1_other_mask': dp(d1, mask | smask)}
    return (mk_sf, sf_req), (mk_gr, gr_req), (mk_lb, lb_req), (mk_dp, dp_req)


def kinds(quick):
    pm = _phot_requests()
    (mk_sf, sf_req), (mk_gr, gr_req), (mk_lb, lb_req), (mk_dp, dp_req) = _misc_setup()
    fr = _finder_requests()
    emk, ereq = _ellipse_setup()
    gmk, greq = _gridded_setup()
    k = {
        'PSFPhotometry': dict(make=_phot_make, reqs=pm, config=_phot_config, depth=3 if quick else 3, subset=['plain1', 'plain1_subpix', 'groupid', 'nosources', 'masked', 'finder', 'localbkg', 'plain2'][:(5 if quick else 8)]),
        'IterativePSFPhotometry': dict(make=_iter_make, reqs=pm, config=_phot_config, depth=2, subset=['plain1', 'nosources', 'finder'] + ([] if quick else ['groupid', 'masked', 'plain2'])),
        'DAOStarFinder': dict(make=_finder_make('dao'), reqs=fr, config=None, depth=3, subset=list(fr)),
        'IRAFStarFinder': dict(make=_finder_make('iraf'), reqs=fr, config=None, depth=3, subset=list(fr)),
        'StarFinder': dict(make=_finder_make('star'), reqs=fr, config=None, depth=3, subset=list(fr)),
        'DAOStarFinder_xycoords': dict(make=_finder_make('dao_xy'), reqs=fr, config=None, depth=3, subset=['img1', 'img2', 'img1_masked']),
        'IRAFStarFinder_xycoords': dict(make=_finder_make('iraf_xy'), reqs=fr, config=None, depth=3, subset=['img1', 'img2', 'img1_masked']),
        'Ellipse': dict(make=emk, reqs=ereq, config=None, depth=2, subset=['free', 'fixcen', 'fixpa', 'one', 'sma6', 'nosma0']),
        'GriddedPSFModel': dict(make=gmk, reqs=greq, config=None, depth=3, subset=list(greq)),
        **{f'images_{k}': dict(make=_images_setup(k)[0], reqs=_images_setup(k)[1], config=None, depth=2, subset=['model_lb', 'model', 'resid_lb', 'resid'])
           for k in ('psf', 'iter_new1', 'iter_new2', 'iter_all')},
        'SourceFinder': dict(make=mk_sf, reqs=sf_req, config=None, depth=2, subset=list(sf_req)),
        'SourceGrouper': dict(make=mk_gr, reqs=gr_req, config=None, depth=3, subset=list(gr_req)),
        'LocalBackground': dict(make=mk_lb, reqs=lb_req, config=None, depth=3, subset=list(lb_req)),
        'ImageDepth': dict(make=mk_dp, reqs=dp_req, config=None, depth=2, subset=list(dp_req)),
    }
    return k


_K = None


def replay(args):
    global _K
    kind, seq, quick = args
    warnings.simplefilter('ignore')
    if _K is None:
        _K = kinds(quick)
    K = _K[kind]
    out = []
    fresh = {}
    for r in set(seq):
        try:
            fresh[r] = digest(K['reqs'][r](K['make']()))
        except Exception as e:  # noqa
            fresh[r] = 'raise:' + type(e).__name__
    for r, v in fresh.items():      # every request of the catalogue is valid: a fresh object must serve it
        if v.startswith('raise:') and r not in K.get('may_raise', ()):
            out.append(('valid_request_raises_on_fresh_object', {'obj': kind, 'request': r, 'exc': v}, {'sequence': seq}))
    obj = K['make']()
    cfg0 = digest(K['config'](obj)) if K['config'] else None
    for k, r in enumerate(seq):
        sig = {'obj': kind, 'request': r, 'after': seq[k - 1] if k else None}
        try:
            got = digest(K['reqs'][r](obj))
        except Exception as e:  # noqa
            got = 'raise:' + type(e).__name__
        if got != fresh[r]:
            clause = 'call_raises_after_history' if got.startswith('raise:') and not fresh[r].startswith('raise:') else 'result_differs_from_fresh'
            out.append((clause, sig, {'sequence': seq, 'step': k}))
        if cfg0 is not None and digest(K['config'](obj)) != cfg0:
            out.append(('configuration_changed_by_call', sig, {'sequence': seq, 'step': k, 'config': K['config'](obj)}))
            cfg0 = digest(K['config'](obj))
    return out


def run_callseq(ctx):
    ctx.mc('CallSeq', 'MC_CallSeq.cfg', workers=2)
    bad = ctx.mc('CallSeq', 'MC_CallSeq_sticky.cfg', workers=2, expect_hold=False, check_ok=False)
    if 'NoResidue' not in bad.violated:
        raise core.Machinery('vacuity guard: sticky variant not rejected')
    jobs = []
    # vacuity guard: the requests must exercise something (a finder whose threshold detects nothing makes every sequence pass)
    empty = []
    for kind, K in kinds(ctx.quick).items():
        with warnings.catch_warnings():
            warnings.simplefilter('ignore')
            for r in K['subset']:
                if r in ('nosources', 'empty', 'high'):
                    continue
                try:
                    v = K['reqs'][r](K['make']())
                except Exception:  # noqa
                    continue
                first = v[0] if isinstance(v, list) and v else v
                if v is None or (isinstance(v, list) and first is None):
                    empty.append(f'{kind}:{r}')
    if empty:
        raise core.Machinery('vacuous CallSeq requests (nothing detected / returned): ' + ', '.join(empty))
    for kind, K in kinds(ctx.quick).items():
        reqs = '{' + ', '.join(f'"{r}"' for r in K['subset']) + '}'
        cfg = core.make_cfg(ctx, 'GEN_CallSeq.cfg', name=f'GEN_CallSeq_{kind}.cfg', Requests=reqs, Leaky='{}', MaxDepth=K['depth'])
        g = ctx.tlc('CallSeq', cfg, part=f'GEN:CallSeq/{kind}', workers=1)
        jobs += [(kind, rec['v'], ctx.quick) for rec in g.records if rec.get('_tag') == 'GEN']
    for vs in core.pmap(replay, jobs, chunksize=2):
        for v in vs:
            ctx.violation(*v)
    ctx.evaluations += len(jobs); ctx.traces += len(jobs)
    ctx.nontrivial += len({json.dumps(j[:2]) for j in jobs if len(set(j[1])) > 1})
    ctx.sample({'kind': 'call sequence on one instance', 'object': jobs[0][0], 'sequence': jobs[0][1]})
