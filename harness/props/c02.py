"""C02 Aperture sums are mask-weighted sums over unmasked in-image pixels.
spec/Trace_ApPhot.tla on top of ApMask.tla: for apertures on the half-pixel lattice TLC recomputes box, weights and the exact sums
itself (nothing is taken from the implementation); for arbitrary apertures/methods the logged weight cutout is summed by TLC; batch /
list / table / NDData / poison / additivity / sky-vs-pixel relations are validated as pairs."""
import json, math, random, warnings
import numpy as np
from .. import core
from .c01 import ANG, build

S = 4096


def fxl(v, s=S):
    v = np.atleast_1d(np.asarray(getattr(v, 'value', v), dtype=float))
    return [int(round(float(x) * s)) if np.isfinite(x) else 0 for x in v], [not bool(np.isfinite(x)) for x in v]


def rand_image(rng, h, w):
    data = [[rng.randint(-5, 40) for _ in range(w)] for _ in range(h)]
    err = [[rng.randint(0, 3) for _ in range(w)] for _ in range(h)]
    mask = [[r, c] for r in range(h) for c in range(w) if rng.random() < 0.12] if rng.random() < 0.7 else []
    nonfin = [[r, c] for r in range(h) for c in range(w) if rng.random() < 0.03] if rng.random() < 0.5 else []
    d = np.array(data, dtype=float)
    for k, (r, c) in enumerate(nonfin):
        d[r, c] = [np.nan, np.inf, -np.inf][k % 3]
    m = None
    if mask:
        m = np.zeros((h, w), dtype=bool)
        for r, c in mask:
            m[r, c] = True
    return data, err, mask, nonfin, d, np.array(err, dtype=float), m


def rec_lattice(seed):
    rng = random.Random(seed)
    h, w = rng.randint(1, 7), rng.randint(1, 8)
    data, err, mask, nonfin, d, e, m = rand_image(rng, h, w)
    kind = rng.choice(['circle', 'ellipse', 'rect', 'cann', 'eann', 'rann'])
    sz = lambda: rng.choice([1, 2, 3, 4, 5])  # noqa
    sh = {'kind': kind, 'p1': sz(), 'p2': sz(), 'p3': 0, 'p4': 0, 'ang': rng.choice([0, 1, 2, 3, 4, 6])}
    if kind == 'ellipse' and sh['p1'] < sh['p2']:
        sh['p1'], sh['p2'] = sh['p2'], sh['p1']
    if kind == 'cann':
        a, b = sorted([sh['p1'], sh['p2']]); sh['p1'], sh['p2'] = a, b + (1 if a == b else 0)
    if kind in ('eann', 'rann'):
        a, b = sh['p1'], sh['p2']; sh.update(p1=a, p2=2 * a, p3=b, p4=2 * b)
    if kind in ('circle', 'cann'):
        sh['ang'] = 0
    q = 2
    cx, cy = rng.randint(-6, 2 * w + 5), rng.randint(-6, 2 * h + 5)
    s = rng.choice([1, 1, 2, 3, 5])
    if sh['ang'] not in (0, 3) or max(sh['p1'], sh['p2'], sh['p4']) > 4:
        s = min(s, 2)      # keeps the integer ellipse test of ApMask.tla inside 32 bits
    method = 'center' if s == 1 and rng.random() < 0.5 else 'subpixel'
    ap = build(sh, cx, cy, q)
    has_error = rng.random() < 0.7
    with warnings.catch_warnings():
        warnings.simplefilter('ignore')
        f, fe = ap.do_photometry(d, error=e if has_error else None, mask=m, method=method, subpixels=s)
        area = ap.area_overlap(d, mask=m, method=method, subpixels=s)
    sk, sn = fxl(f); ak, an = fxl(area); ek, _ = fxl(fe if has_error else [0.0], 64)
    return {'id': seed, 'kind': 'lattice', 'shape': sh, 'cx': cx, 'cy': cy, 'q': q, 's': s, 'data': data, 'err': err, 'mask': mask, 'nonfinite': nonfin,
            'has_error': has_error, 'sum_k': sk[0], 'sum_nan': sn[0], 'area_k': ak[0], 'area_nan': an[0], 'err_k': ek[0]}


def rec_logged(seed):
    import photutils.aperture as A
    rng = random.Random(seed)
    h, w = rng.randint(1, 12), rng.randint(1, 12)
    data, err, mask, nonfin, d, e, m = rand_image(rng, h, w)
    pos = (rng.uniform(-4, w + 3), rng.uniform(-4, h + 3))
    kind = rng.choice(['CircularAperture', 'CircularAnnulus', 'EllipticalAperture', 'EllipticalAnnulus', 'RectangularAperture', 'RectangularAnnulus'])
    a = rng.uniform(0.3, 4.0); th = rng.uniform(-3, 3)
    args = {'CircularAperture': (a,), 'CircularAnnulus': (a * 0.5, a), 'EllipticalAperture': (a, a * 0.6, th), 'EllipticalAnnulus': (a * 0.4, a, a * 0.7),
            'RectangularAperture': (a, a * 1.3, th), 'RectangularAnnulus': (a * 0.5, a, a * 0.8)}[kind]
    ap = getattr(A, kind)(pos, *args)
    method = rng.choice(['exact', 'center', 'subpixel'])
    sub = rng.choice([1, 3, 5, 8])
    has_error = rng.random() < 0.7
    with warnings.catch_warnings():
        warnings.simplefilter('ignore')
        f, fe = ap.do_photometry(d, error=e if has_error else None, mask=m, method=method, subpixels=sub)
        area = ap.area_overlap(d, mask=m, method=method, subpixels=sub)
        mk = ap.to_mask(method=method, subpixels=sub)
    wts = np.asarray(mk.data, dtype=float)
    if not np.all(np.isfinite(wts)) or wts.min() < 0 or wts.max() > 1.0000001:
        return None      # weight anomalies are C01's business (known finding); sums over them are not defined by the statement
    sk, sn = fxl(f); ak, an = fxl(area); ek, _ = fxl(fe if has_error else [0.0], 64)
    bb = mk.bbox
    return {'id': seed, 'kind': 'logged', 'aperture': kind, 'method': method, 'data': data, 'err': err, 'mask': mask, 'nonfinite': nonfin,
            'box': [bb.ixmin, bb.ixmax, bb.iymin, bb.iymax], 'w': np.rint(wts * S).astype(int).tolist(), 'has_error': has_error,
            'sum_k': sk[0], 'sum_nan': sn[0], 'area_k': ak[0], 'area_nan': an[0], 'err_k': ek[0]}


def rec_pairs(seed):
    """relations between two executions; each is one pair record"""
    import astropy.units as u
    from astropy.coordinates import SkyCoord
    from astropy.nddata import NDData, StdDevUncertainty
    from astropy.wcs import WCS
    import photutils.aperture as A
    rng = random.Random(seed)
    h, w = rng.randint(6, 14), rng.randint(6, 14)
    data, err, mask, nonfin, d, e, m = rand_image(rng, h, w)
    d = np.array(data, dtype=float)     # finite for the relations
    npos = rng.randint(2, 5)
    pos = [(rng.uniform(-3, w + 2), rng.uniform(-3, h + 2)) for _ in range(npos)]
    method = rng.choice(['exact', 'center', 'subpixel'])
    sub = rng.choice([2, 5])
    r = rng.uniform(0.8, 3.5)
    mk = lambda p: A.CircularAnnulus(p, r * 0.5, r) if seed % 3 == 0 else (A.EllipticalAperture(p, r, r * 0.6, theta=0.7) if seed % 3 == 1 else A.CircularAperture(p, r))  # noqa
    out = []

    def pair(rel, a, b, tol=2):
        ak, an = fxl(a); bk, bn = fxl(b)
        out.append({'id': 100000000 + seed * 100 + len(out), 'kind': 'pair', 'rel': rel, 'a': ak, 'b': bk, 'a_nan': an, 'b_nan': bn, 'tol': tol, 'method': method})
    with warnings.catch_warnings():
        warnings.simplefilter('ignore')
        kw = dict(mask=m, method=method, subpixels=sub)
        ap = mk(pos)
        fa, ea = ap.do_photometry(d, error=e, **kw)
        singles = [mk(p).do_photometry(d, error=e, **kw) for p in pos]
        pair('many_positions_equal_one_at_a_time', fa, [s[0][0] for s in singles])
        pair('many_positions_equal_one_at_a_time', ea, [s[1][0] for s in singles])
        pair('many_positions_equal_one_at_a_time', ap.area_overlap(d, mask=m, method=method, subpixels=sub), [mk(p).area_overlap(d, mask=m, method=method, subpixels=sub) for p in pos])
        t = A.aperture_photometry(d, ap, error=e, **kw)
        pair('table_form_equals_do_photometry', np.asarray(t['aperture_sum']), fa)
        pair('table_form_equals_do_photometry', np.asarray(t['aperture_sum_err']), ea)
        ap2 = A.CircularAperture(pos, r * 1.2)
        t2 = A.aperture_photometry(d, [ap, ap2], error=e, **kw)
        pair('list_of_apertures_equals_single', np.asarray(t2['aperture_sum_0']), fa)
        pair('list_of_apertures_equals_single', np.asarray(t2['aperture_sum_1']), ap2.do_photometry(d, error=e, **kw)[0])
        nd = NDData(d, uncertainty=StdDevUncertainty(e), mask=m)
        t3 = A.aperture_photometry(nd, ap, method=method, subpixels=sub)
        pair('nddata_form_equals_array_form', np.asarray(t3['aperture_sum']), fa)
        pair('nddata_form_equals_array_form', np.asarray(t3['aperture_sum_err']), ea)
        # poison: values under the mask and on zero-weight pixels must not matter
        d2 = d.copy()
        if m is not None:
            d2[m] = 1e6
        pair('independent_of_masked_pixel_values', ap.do_photometry(d2, error=e, **kw)[0], fa)
        if m is not None:      # the same for the error map: garbage and non-finite values under the mask
            e2 = e.copy(); e2[m] = np.where(np.indices(e.shape)[0][m] % 2 == 0, np.nan, 1e9)
            d2n = d.copy(); d2n[m] = np.nan
            f2, ee2 = ap.do_photometry(d2n, error=e2, **kw)
            pair('independent_of_masked_pixel_values', f2, fa)
            pair('independent_of_masked_pixel_values', ee2, ea)
            t4 = A.aperture_photometry(d2n, ap, error=e2, **kw)
            pair('independent_of_masked_pixel_values', np.asarray(t4['aperture_sum_err']), ea)
        if method == 'center':
            wimg = np.zeros((h, w))
            for am in ap.to_mask(method='center'):
                ti = am.to_image((h, w))
                if ti is not None:
                    wimg += ti
            d3 = d.copy(); d3[wimg == 0] = -7e5
            pair('independent_of_zero_weight_pixel_values', ap.do_photometry(d3, error=e, **kw)[0], fa)
        # area_overlap is the sum of the mask weights over the counted pixels - for every shape (the 'exact' weights of rectangles are a
        # 32 x 32 sub-sampling, so this is not the analytic area), with and without a mask argument
        for apx in (A.RectangularAperture([(w / 2.0 + 0.3, h / 2.0 - 0.2), pos[0]], r * 1.3, r * 0.9, theta=0.4),
                    A.RectangularAnnulus([(w / 2.0 - 0.4, h / 2.0 + 0.1)], r * 0.7, r * 1.5, r * 1.1, theta=-0.3), ap):
            for mm in (None, m):
                wsum = []
                for am in apx.to_mask(method=method, subpixels=sub):
                    ti = am.to_image((h, w))
                    wsum.append(np.nan if ti is None else float(ti[~mm].sum() if mm is not None else ti.sum()))
                pair('area_overlap_is_sum_of_weights_over_counted_pixels', np.atleast_1d(apx.area_overlap(d, mask=mm, method=method, subpixels=sub)) * 256.0, np.array(wsum) * 256.0, tol=2)      # compared at 2^-17
        # a circle that only grazes the corners of four pixels: their weights are positive (~1e-9 .. 1e-8), so they count - with a huge
        # value their contribution is visible, with a NaN the sum is NaN
        if h >= 9 and w >= 9 and seed % 2 == 0:
            cpx, cpy = w // 2, h // 2
            apg = A.CircularAperture((float(cpx), float(cpy)), float(np.hypot(2.5, 2.5)) + [3e-5, 1e-5, 6e-5][seed % 3])
            wimg = apg.to_mask(method='exact').to_image((h, w))
            tiny = (wimg > 0) & (wimg < 1e-6)
            if tiny.any():
                dg = np.ones((h, w)); dg[tiny] = 2.0 ** 62
                pair('pixels_with_tiny_positive_weight_are_counted', apg.do_photometry(dg, method='exact')[0] / 2.0 ** 32, [float((wimg * dg).sum()) / 2.0 ** 32], tol=8)
                tg = A.aperture_photometry(NDData(dg), apg)
                pair('pixels_with_tiny_positive_weight_are_counted', np.asarray(tg['aperture_sum']) / 2.0 ** 32, [float((wimg * dg).sum()) / 2.0 ** 32], tol=8)
                dn = np.ones((h, w)); ys_, xs_ = np.nonzero(tiny); dn[ys_[0], xs_[0]] = np.nan
                pair('pixels_with_tiny_positive_weight_are_counted', apg.do_photometry(dn, method='exact')[0], [np.nan])
        # one aperture object used repeatedly with different masks gives what fresh objects give
        ap_r = mk(pos)
        m_a = np.zeros((h, w), dtype=bool); m_a[::2, ::3] = True
        ap_r.area_overlap(d, mask=m_a, method=method, subpixels=sub)
        ap_r.do_photometry(d, error=e, mask=m_a, method=method, subpixels=sub)
        pair('same_aperture_object_reused_with_other_mask', ap_r.do_photometry(d, error=e, **kw)[0], fa)
        pair('same_aperture_object_reused_with_other_mask', ap_r.area_overlap(d, method=method, subpixels=sub), mk(pos).area_overlap(d, method=method, subpixels=sub))
        # the same pixel values stored as integers (raw counts) or single precision give the same sums (the weights stay fractional)
        if np.all(np.isfinite(d)) and np.all(d == np.rint(d)) and np.all(np.abs(d) < 30000):
            dt = [np.int16, np.int32, np.uint16, np.int64, np.float32][seed % 5]
            if dt is not np.uint16 or np.all(d >= 0):
                pair('integer_image_gives_the_same_sums', ap.do_photometry(d.astype(dt), **kw)[0], fa, tol=4)
                pair('integer_image_gives_the_same_sums', np.asarray(A.aperture_photometry(d.astype(dt), ap, **kw)['aperture_sum']), fa, tol=4)
        # an error map stored in a small integer dtype (values whose squares exceed its range) gives the same errors as the float map
        if np.all(np.isfinite(e)) and np.all(e >= 0):
            dte = [np.uint8, np.uint16, np.int16, np.uint32][seed % 4]
            ek = np.rint(np.clip(e * {np.uint8: 9.0, np.uint16: 170.0, np.int16: 120.0, np.uint32: 40000.0}[dte], 0, np.iinfo(dte).max))
            pair('integer_error_map_gives_the_same_errors', np.asarray(ap.do_photometry(d, error=ek.astype(dte), **kw)[1]) / float(ek.max() + 1),
                 np.asarray(ap.do_photometry(d, error=ek, **kw)[1]) / float(ek.max() + 1), tol=4)
        # linearity
        dd = np.array([[rng.randint(-9, 9) for _ in range(w)] for _ in range(h)], dtype=float)
        fb = ap.do_photometry(dd, **kw)[0]
        fab = ap.do_photometry(d + 2 * dd, **kw)[0]
        pair('linear_in_data', fab, fa + 2 * fb, tol=8)
        # sky aperture vs its to_pixel image
        wc = WCS(naxis=2); wc.wcs.crpix = [w / 2, h / 2]; wc.wcs.cdelt = [-2.0 / 3600, 2.0 / 3600]; wc.wcs.crval = [30.0, -20.0]; wc.wcs.ctype = ['RA---TAN', 'DEC--TAN']
        if seed % 2:
            wc.wcs.pc = [[math.cos(0.4), -math.sin(0.4)], [math.sin(0.4), math.cos(0.4)]]
        inside = [(min(max(p[0], 0.5), w - 1.5), min(max(p[1], 0.5), h - 1.5)) for p in pos]
        sc = wc.pixel_to_world([p[0] for p in inside], [p[1] for p in inside])
        sky = A.SkyCircularAperture(sc, r * 2.0 * u.arcsec) if seed % 3 else A.SkyEllipticalAperture(sc, r * 2.0 * u.arcsec, r * 1.2 * u.arcsec, theta=20 * u.deg)
        ts = A.aperture_photometry(d, sky, wcs=wc, error=e, **kw)
        tp = A.aperture_photometry(d, sky.to_pixel(wc), error=e, **kw)
        pair('sky_aperture_equals_to_pixel', np.asarray(ts['aperture_sum']), np.asarray(tp['aperture_sum']))
    return out


def rec_any(seed):
    k = seed % 10
    if k < 5:
        return [rec_lattice(seed)]
    if k < 8:
        r = rec_logged(seed)
        return [r] if r else []
    return rec_pairs(seed)


def run(ctx):
    q = ctx.quick
    ctx.rule = ('seeded records: lattice apertures (TLC recomputes weights and exact sums), arbitrary apertures with logged weights, and pair '
                'relations; images 1x1..14x14 with NaN/inf, masks, integer errors, positions inside / straddling / outside; non-trivial = '
                'aperture partially overlaps the image or a mask / non-finite pixel lies inside it')
    n = 1500 if q else 25000
    recs = [r for rs in core.pmap(rec_any, [ctx.seed * 48271 + i for i in range(n)], chunksize=16) for r in rs]
    ver = core.validate_batch(ctx, 'Trace_ApPhot', recs, 'Trace:ApPhot')
    nt = 0
    for r in recs:
        v = ver[r['id']]
        if not v['ok']:
            ctx.violation(v['clause'], {'kind': r['kind'], 'method': r.get('method'), 'shape': (r.get('shape') or {}).get('kind', r.get('aperture')),
                                        'has_mask': bool(r.get('mask')), 'has_nonfinite': bool(r.get('nonfinite'))}, {'case': r})
        else:
            ctx.traces += 1
        if r['kind'] != 'pair' and (r['mask'] or r['nonfinite']):
            nt += 1
    ctx.evaluations += len(recs); ctx.nontrivial += nt + sum(1 for r in recs if r['kind'] == 'pair')
    for kind in ('lattice', 'logged', 'pair'):
        ex = next((r for r in recs if r['kind'] == kind), None)
        if ex:
            ctx.sample({k: ex[k] for k in list(ex)[:14] if k != 'w'})
    good = [r for r in recs if ver[r['id']]['ok'] and r['kind'] == 'lattice' and not r['sum_nan'] and r['area_k'] > 0
            and (r['shape']['ang'] == 0 or r['shape']['kind'] in ('circle', 'cann')) and r['s'] in (1, 2) and not r['nonfinite']][:5]
    bad = []
    for k, r in enumerate(good):
        r2 = core.jcopy(r); r2['id'] = 10**9 + k
        if k % 2:
            r2['sum_k'] += 9 * S
        else:
            r2['area_k'] += S
        bad.append(r2)
    if bad:
        vb = core.validate_batch(ctx, 'Trace_ApPhot', bad, 'SelfTest:ApPhot', shards=2)
        rej = [not v['ok'] for v in vb.values()]
        ctx.selftest('perturbed aperture sum / area of unrotated lattice apertures', all(rej), f'{sum(rej)}/{len(rej)} rejected')
    ctx.assumptions += ['fixed point 1/4096 for sums and areas, 1/64 for errors', 'WCS with distortion is not covered (simple TAN, optionally rotated)']


def replay(ctx, rep):
    print(json.dumps(rep, indent=1, default=str)[:6000])
