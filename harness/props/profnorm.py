"""ProfileNorm.tla replay (used by C09 and C19): drive a real RadialProfile / CurveOfGrowth along every TLC history of
read / normalize / unnormalize and compare, after every step, every array (read on a deep copy, i.e. possibly as a first
read) with raw / prod(factors), the factors being evaluated from their definition on the raw arrays."""
import copy, json, warnings
import numpy as np
from .. import core

OBJS = {
    # data_radius shares a cached helper with data_profile; it is not scaled (like ree)
    'radial':      dict(arrays=['profile', 'profile_error', 'data_profile', 'data_radius'], zero=[]),
    # ee / ree: the encircled-energy interpolators evaluated at the sampled radii (pseudo-arrays: whatever they keep must follow the scale)
    'cog':         dict(arrays=['profile', 'profile_error', 'ee', 'ree'], zero=[]),
    'cog_zerosum': dict(arrays=['profile', 'profile_error'], zero=['sum']),
    # profiles with NaN bins (a fully masked core; apertures without overlap): the normalisations are taken over the finite bins
    'radial_nanbins': dict(arrays=['profile', 'profile_error'], zero=[]),
    'cog_nanbins': dict(arrays=['profile', 'profile_error'], zero=[]),
}


def make(kind):
    from photutils.profiles import CurveOfGrowth, RadialProfile
    y, x = np.mgrid[:21, :23]
    if kind in ('radial', 'cog'):
        data = 50.0 * np.exp(-0.5 * (((x - 11.2) / 2.2) ** 2 + ((y - 9.7) / 2.2) ** 2)) + 1.0 + 0.02 * x
        err = np.sqrt(np.abs(data)) * 0.1
        if kind == 'radial':
            return RadialProfile(data, (11.2, 9.7), np.arange(0, 9), error=err)
        return CurveOfGrowth(data, (11.2, 9.7), np.arange(1, 9), error=err)
    if kind == 'radial_nanbins':
        data = 30.0 * np.exp(-0.5 * (((x - 11.0) / 3.0) ** 2 + ((y - 10.0) / 3.0) ** 2)) + 2.0
        m = (x - 11) ** 2 + (y - 10) ** 2 <= 2.3 ** 2            # the saturated core is masked: the two innermost bins hold no pixel
        return RadialProfile(data, (11, 10), [0, 1, 2, 3, 4.5, 6, 8], error=np.sqrt(data) * 0.2, mask=m, method='center')
    if kind == 'cog_nanbins':
        data = 30.0 * np.exp(-0.5 * (((x - 2.0) / 3.0) ** 2 + ((y - 10.0) / 3.0) ** 2)) + 2.0
        # the centre lies off the image: the smallest apertures have no overlap at all (NaN sums)
        return CurveOfGrowth(data, (-3.0, 10.0), [1.0, 2.0, 4.0, 6.0, 8.0], error=np.ones(data.shape), method='center')
    if kind == 'cog_zerosum':
        data = np.zeros((9, 9)); data[4, 4] = 2.0
        for dy, dx in ((0, 1), (0, -1), (1, 0), (-1, 0)):
            data[4 + dy, 4 + dx] = -1.0
        return CurveOfGrowth(data, (4, 4), [0.6, 1.1], error=np.ones((9, 9)), method='center')
    if kind == 'radial_zeromax':
        r2 = (x - 11) ** 2 + (y - 10) ** 2
        data = -0.5 * np.sqrt(r2)            # 0 at the centre pixel, negative elsewhere
        return RadialProfile(data, (11, 10), [0, 0.6, 2.0, 4.0], error=np.ones(data.shape), method='center')
    raise core.Machinery(kind)


def getarr(obj, a, cur_profile=None):
    if a == 'ee':
        return obj.calc_ee_at_radius(np.asarray(obj.radius, dtype=float))
    if a == 'ree':
        # the inverse interpolator, asked for the current profile values, returns the sampled radii
        return obj.calc_radius_at_ee(np.asarray(obj.profile if cur_profile is None else cur_profile, dtype=float))
    return getattr(obj, a)


def nansafe(f, a):
    a = np.asarray(a, dtype=float)
    return f(a[np.isfinite(a)]) if np.isfinite(a).any() else 0.0


def replay(args):
    kind, hist = args
    warnings.simplefilter('ignore')
    arrays = OBJS[kind]['arrays']
    raw = {a: np.array(getarr(make(kind), a), dtype=float) for a in arrays}
    obj = make(kind)
    out = []
    path = []
    for step in hist:
        op, arg = step['op'], step['arg']
        path.append([op, arg])
        sig = {'obj': kind, 'op': op, 'arg': arg, 'after': path[-2] if len(path) > 1 else None}
        try:
            if op == 'read':
                getarr(obj, arg)
            elif op == 'normalize':
                obj.normalize(method=arg)
            else:
                obj.unnormalize()
        except Exception as e:  # noqa
            out.append(('raises_after_history', sig, {'exc': repr(e), 'path': path}))
            break
        # numeric value of the factors the spec says are in force, from their definition on the raw profile
        total = 1.0
        for m in step['norm']:
            cur = raw['profile'] / total
            total *= nansafe(np.max, cur) if m == 'max' else nansafe(np.sum, cur)
        probe = copy.deepcopy(obj)
        for a in arrays:
            try:
                got = np.array(getarr(probe, a), dtype=float)
            except Exception as e:  # noqa
                out.append(('raises_after_history', dict(sig, array=a), {'exc': repr(e), 'path': path}))
                continue
            exp = raw[a] / total if a not in ('ree', 'data_radius') else raw[a]
            if got.shape != exp.shape or not np.allclose(got, exp, rtol=1e-10, atol=1e-13, equal_nan=True):
                cached = step['scale'][a] != ['NotCached']
                out.append(('array_at_current_scale' if op != 'unnormalize' else 'unnormalize_restores_raw',
                            dict(sig, array=a, first_read_on_probe=not cached), {'path': path, 'expected_total': total,
                                                                                 'got': got[:4].tolist(), 'expected': exp[:4].tolist()}))
        nv = float(getattr(probe, 'normalization_value', np.nan))
        if not np.isclose(nv, total, rtol=1e-10):
            out.append(('normalization_value', sig, {'path': path, 'got': nv, 'expected': total}))
    return out


def run_profnorm(ctx, kinds=None, depth=None):
    r = ctx.mc('ProfileNorm', 'MC_ProfileNorm.cfg', workers=4)
    bad = ctx.mc('ProfileNorm', 'MC_ProfileNorm_pinned.cfg', workers=2, expect_hold=False, check_ok=False)
    if 'AllCachedAtCurrentScale' not in bad.violated:
        raise core.Machinery('vacuity guard: raw_first_read variant not rejected')
    depth = depth or (4 if ctx.quick else 5)
    jobs = []
    for kind in (kinds or OBJS):
        o = OBJS[kind]
        arrs = '{' + ', '.join(f'"{a}"' for a in o['arrays']) + '}'
        zero = '{' + ', '.join(f'"{a}"' for a in o['zero']) + '}'
        cfg = core.make_cfg(ctx, 'GEN_ProfileNorm.cfg', name=f'GEN_ProfileNorm_{kind}.cfg', Arrays=arrs, ZeroMethods=zero, MaxDepth=depth)
        g = ctx.tlc('ProfileNorm', cfg, part=f'GEN:ProfileNorm/{kind}', workers=1)
        jobs += [(kind, rec['v']) for rec in g.records if rec.get('_tag') == 'GEN']
    # binding self-test: a history whose recorded normalisation state lost its last factor must be reported by the replay
    pj = next((j for j in jobs if any(len(s['norm']) >= 1 for s in j[1])), None)
    if pj is not None:
        hb = core.jcopy(pj[1])
        for st in hb:
            if st['norm']:
                st['norm'] = st['norm'][:-1]
        ctx.selftest('recorded normalisation factors dropped', any(v[0] in ('array_at_current_scale', 'unnormalize_restores_raw', 'normalization_value') for v in replay((pj[0], hb))))
    for vs in core.pmap(replay, jobs, chunksize=32):
        for v in vs:
            ctx.violation(*v)
    ctx.evaluations += len(jobs); ctx.traces += len(jobs)
    ctx.nontrivial += len({json.dumps([j[0], [[s['op'], s['arg']] for s in j[1]]]) for j in jobs
                           if any(s['op'] == 'normalize' for s in j[1]) and any(s['op'] != 'normalize' for s in j[1])})
    ctx.sample({'kind': 'profile normalisation history', 'object': jobs[-1][0], 'history': [[s['op'], s['arg']] for s in jobs[-1][1]]})
