"""C05 SegmentationImage attributes always describe the current label array.
spec/SegmImage.tla (+ Trace_SegmImage.tla).  MC: cache discipline |= CacheCoherent etc.  GEN: one record per
transition of the model (BFS path + action), replayed into the real object, every attribute compared after every
step on deep copies (so stale caches show without disturbing the history) against the values TLC derived.
Trace: random long histories on larger arrays recorded from the real object, validated by TLC."""
import copy, json, os, random, warnings
import numpy as np
from .. import core

DTYPES = ['int32', 'int64', 'uint8', 'int16', 'uint32']
ATTRS = ['labels', 'slices', 'areas', 'nlabels', 'max_label', 'is_consecutive', 'missing_labels', 'background_area']


def _slices_j(sl):
    return [[int(s[0].start), int(s[0].stop), int(s[1].start), int(s[1].stop)] for s in sl]


def project(segm, with_poly=True):
    """read every public derived attribute of a SegmentationImage into spec vocabulary (may raise)"""
    out = {}
    out['labels'] = [int(x) for x in segm.labels]
    out['slices'] = _slices_j(segm.slices)
    out['areas'] = [int(x) for x in segm.areas]
    out['nlabels'] = int(segm.nlabels)
    out['max_label'] = int(segm.max_label)
    out['is_consecutive'] = bool(segm.is_consecutive)
    out['missing_labels'] = [int(x) for x in segm.missing_labels]
    out['background_area'] = int(segm.background_area)
    out['bbox'] = [[int(b.iymin), int(b.iymax), int(b.ixmin), int(b.ixmax)] for b in segm.bbox]
    out['get_areas'] = [int(x) for x in segm.get_areas(segm.labels)] if segm.nlabels else []
    if with_poly:
        try:
            polys = segm.polygons
            out['polygons'] = [[round(float(p.area), 6), [int(round(v + 0.5)) for v in (p.bounds[1], p.bounds[3], p.bounds[0], p.bounds[2])]]
                               for p in polys]
        except Exception as e:  # noqa
            out['polygons'] = f'raise:{type(e).__name__}'
        try:
            out['segments'] = [[int(s.label), _slices_j([s.slices])[0], int(s.area)] for s in segm.segments]
        except Exception as e:  # noqa
            out['segments'] = f'raise:{type(e).__name__}'
        # the cutouts of the Segment objects: only this label's pixels, everything else zero
        try:
            bad = []
            for s in segm.segments:
                cut = np.asarray(segm.data)[s.slices]
                want = np.where(cut == s.label, s.label, 0)
                if not (np.array_equal(np.asarray(s.data), want) and np.array_equal(np.ma.getmaskarray(s.data_ma), want == 0)):
                    bad.append(int(s.label))
            out['segment_cutouts_bad'] = bad
        except Exception as e:  # noqa
            out['segment_cutouts_bad'] = []
    return out


def dmap_views(segm):
    inv = segm.deblended_labels_inverse_map
    fwd = segm.deblended_labels_map
    lab = sorted({int(x) for x in segm.deblended_labels})
    invj = sorted([int(k), sorted({int(c) for c in v})] for k, v in inv.items())
    return invj, {int(k): int(v) for k, v in fwd.items()}, lab


def apply_event(segm, ev):
    op = ev['op']
    if op == 'read':
        return getattr(segm, ev['attr'])
    if op == 'readall':
        for a in ['labels', 'areas', 'is_consecutive', 'missing_labels', 'background_area', 'slices', 'bbox', 'nlabels', 'max_label',
                  'polygons', 'segments', 'deblended_labels', 'deblended_labels_map', 'data_ma']:
            try:
                getattr(segm, a)
            except Exception:  # noqa  (reported by the probes)
                pass
        return None
    if op == 'reassign':
        return segm.reassign_labels(ev['labels'], ev['new'], relabel=ev['relabel'])
    if op == 'remove':
        return segm.remove_labels(ev['labels'], relabel=ev['relabel'])
    if op == 'keep':
        return segm.keep_labels(ev['labels'], relabel=ev['relabel'])
    if op == 'relabel_consecutive':
        return segm.relabel_consecutive(start_label=ev['start'])
    if op == 'remove_border':
        return segm.remove_border_labels(ev['width'], partial_overlap=ev['partial'], relabel=ev['relabel'])
    if op == 'remove_masked':
        m = np.zeros(segm.shape, dtype=bool)
        for r, c in ev['mask']:
            m[r, c] = True
        return segm.remove_masked_labels(m, partial_overlap=ev['partial'], relabel=ev['relabel'])
    if op == 'setdata':
        segm.data = np.array(ev['data'], dtype=segm.data.dtype)
        return None
    if op == 'source_mask':
        fp = np.zeros((ev['fp_shape'][0], ev['fp_shape'][1]), dtype=bool)
        cy, cx = fp.shape[0] // 2, fp.shape[1] // 2
        for dr, dc in ev['offsets']:
            fp[cy + dr, cx + dc] = True
        return segm.make_source_mask(footprint=fp) if not ev.get('use_size') else segm.make_source_mask(size=tuple(ev['fp_shape']))
    if op == 'copy_check':
        return None
    raise core.Machinery(f'unknown op {op}')


def evsig(ev):
    s = {'op': ev['op']}
    for k in ('width', 'relabel', 'attr'):
        if k in ev:
            s[k] = ev[k]
    if 'labels' in ev:
        s['nlabels_arg'] = len(ev['labels'])
    return s


def compare_state(segm, step, dtype, out, sig_base, want_poly=True):
    """compare real object with the spec's post-state of this step; append (clause, sig, detail) to out"""
    from photutils.segmentation import SegmentationImage
    exp_data = np.array(step['data'])
    if segm.data.shape != exp_data.shape or not np.array_equal(segm.data, exp_data):
        out.append(('data_effect', sig_base, {'expected': step['data'], 'got': segm.data.tolist()}))
        return False
    if str(segm.data.dtype) != dtype:
        out.append(('dtype_preserved', sig_base, {'expected': dtype, 'got': str(segm.data.dtype)}))
    # deblend bookkeeping (three public views), on a copy so that caches of the object under test are untouched
    if hasattr(segm, '_deblend_label_map'):
        try:
            inv, fwd, lab = dmap_views(copy.deepcopy(segm))
            present = set(int(x) for x in np.unique(segm.data)) - {0}
            named = set(lab) | set(fwd) | {c for _, ch in inv for c in ch}
            if not named <= present:
                out.append(('dmap_names_live', sig_base, {'named': sorted(named), 'present': sorted(present)}))
            exp = [[int(p), [int(c) for c in ch]] for p, ch in step['dmap']]
            if inv != exp or sorted(lab) != sorted(c for _, ch in exp for c in ch) or fwd != {c: p for p, ch in exp for c in ch}:
                if named <= present or [x for x in inv if 0 not in x[1]] != exp:
                    out.append(('dmap_effect', sig_base, {'expected': exp, 'inverse_map': inv, 'map': fwd, 'labels': lab}))
        except Exception as e:  # noqa
            out.append(('dmap_views_raise', sig_base, {'exc': repr(e)}))
    # every attribute, read on deep copies in two different orders
    exp = step['attrs']
    for order in (0, 1):
        probe = copy.deepcopy(segm)
        try:
            if order:
                for a in reversed(ATTRS):
                    getattr(probe, a)
            got = project(probe, with_poly=want_poly and order == 0)
        except Exception as e:  # noqa
            out.append(('attr_read_raises', dict(sig_base, order=order), {'exc': repr(e)}))
            continue
        for a in ATTRS:
            if got[a] != exp[a]:
                out.append((f'attr:{a}', dict(sig_base, order=order), {'expected': exp[a], 'got': got[a]}))
        if got.get('segment_cutouts_bad'):
            out.append(('segment_cutout_holds_only_its_label', dict(sig_base, order=order), {'labels': got['segment_cutouts_bad']}))
        if not np.array_equal(np.asarray(probe.data), exp_data):      # reading attributes (incl. Segment.data) never changes the label array
            out.append(('reads_do_not_change_the_label_array', dict(sig_base, order=order), {'expected': step['data'], 'got': np.asarray(probe.data).tolist()}))
        if got['bbox'] != exp['slices']:
            out.append(('attr:bbox', dict(sig_base, order=order), {'expected': exp['slices'], 'got': got['bbox']}))
        if got['get_areas'] != exp['areas']:
            out.append(('attr:get_areas', dict(sig_base, order=order), {'expected': exp['areas'], 'got': got['get_areas']}))
        if 'polygons' in got:
            ep = [[float(p['area']), p['box']] for p in exp['polygons']]
            allconn = all(p['nregions'] == 1 for p in exp['polygons'])
            nobkg = exp['background_area'] == 0
            psig = dict(sig_base, all_labels_connected=allconn, no_background=nobkg)
            if got['polygons'] != ep:
                out.append(('polygons_one_per_label', psig, {'expected': ep, 'got': got['polygons']}))
            es = [[p['label'], p['box'], p['area']] for p in exp['polygons']]
            if got['segments'] != es:
                out.append(('segments_one_per_label', psig, {'expected': es, 'got': got['segments']}))
    # the fresh-object oracle must agree with the spec's derivation (two oracles never silently disagree)
    try:
        fresh = project(SegmentationImage(segm.data.copy()), with_poly=False)
        for a in ATTRS:
            if fresh[a] != exp[a]:
                out.append((f'fresh:{a}', sig_base, {'expected': exp[a], 'fresh': fresh[a]}))
    except Exception as e:  # noqa
        out.append(('fresh_raises', sig_base, {'exc': repr(e)}))
    return True


def replay_hist(args):
    """drive a real SegmentationImage along one TLC behaviour; returns list of violations (clause, sig, detail)"""
    idx, hist = args
    from photutils.segmentation import SegmentationImage
    warnings.simplefilter('ignore')
    out = []
    dtype = DTYPES[idx % len(DTYPES)]
    init = hist[0]
    segm = SegmentationImage(np.array(init['data'], dtype=dtype))
    if init['dmap']:
        if not hasattr(segm, '_deblend_label_map'):
            return [('__skip__', {}, {})]
        segm._deblend_label_map = {int(p): np.array(ch, dtype=dtype) for p, ch in init['dmap']}
    path = []
    for k, step in enumerate(hist[1:], 1):
        ev = step['ev']
        path.append(ev)
        last = k == len(hist) - 1
        sig = dict(evsig(ev), dtype=dtype if dtype == 'uint8' else 'signed', has_dmap=bool(init['dmap']))
        before = segm.data.copy()
        try:
            ret = apply_event(segm, ev)
            raised = None
        except Exception as e:  # noqa
            raised = e
        if step['valid'] and raised is not None:
            out.append(('valid_call_raises', sig, {'exc': repr(raised), 'path': path, 'init': init['data']}))
            break
        if not step['valid']:
            if raised is None:
                out.append(('invalid_call_accepted', sig, {'path': path, 'init': init['data']}))
            elif not np.array_equal(before, segm.data):
                out.append(('invalid_call_changed_state', sig, {'path': path}))
        if ev['op'] == 'read' and raised is None:
            a = ev['attr']
            got = _slices_j(ret) if a == 'slices' else (ret.tolist() if hasattr(ret, 'tolist') else ret)
            if got != step['attrs'][a]:
                out.append((f'read:{a}', sig, {'expected': step['attrs'][a], 'got': got, 'path': path, 'init': init['data']}))
        if last or ev['op'] not in ('read', 'readall'):
            n0 = len(out)
            ok = compare_state(segm, step, dtype, out, sig, want_poly=last)
            for j in range(n0, len(out)):
                out[j][2].update(path=path, init=init['data'], init_dmap=init['dmap'])
            if not ok:
                break
    return out


# ---- recorded traces (code -> spec) ---------------------------------------------------------------------
def record_trace(seed):
    """random history on a random array; every event logged with its arguments, post array, bookkeeping and reads"""
    from photutils.segmentation import SegmentationImage
    warnings.simplefilter('ignore')
    rng = random.Random(seed)
    h, w = rng.randint(3, 6), rng.randint(3, 7)
    nl = rng.randint(1, 6)
    vals = sorted(rng.sample(range(1, 12), nl))
    dtype = rng.choice(DTYPES)
    arr = np.zeros((h, w), dtype=dtype)
    for _ in range(rng.randint(1, 8)):
        r0, c0 = rng.randrange(h), rng.randrange(w)
        r1, c1 = min(h, r0 + rng.randint(1, 3)), min(w, c0 + rng.randint(1, 3))
        arr[r0:r1, c0:c1] = rng.choice(vals + [0])
    segm = SegmentationImage(arr.copy())
    labs = [int(x) for x in segm.labels]
    dmap0 = []
    if len(labs) >= 2 and rng.random() < 0.5 and hasattr(segm, '_deblend_label_map'):
        ch = sorted(rng.sample(labs, rng.randint(2, len(labs))))
        segm._deblend_label_map = {20: np.array(ch, dtype=dtype)}
        dmap0 = [[20, ch]]
    events = []
    copies = []
    for _ in range(rng.randint(4, 10)):
        labs = [int(x) for x in np.unique(segm.data) if x != 0]
        kind = rng.choice(['reassign', 'remove', 'keep', 'relabel_consecutive', 'remove_border', 'remove_masked', 'read', 'read', 'setdata', 'source_mask', 'copy_check'])
        if kind == 'copy_check' and copies:
            snap_obj, snap_data = copies[-1]
            rec = {'ev': {'op': 'copy_check'}, 'raised': False, 'data': segm.data.tolist(), 'dtype_ok': True,
                   'dmap': dmap_views(copy.deepcopy(segm))[0] if hasattr(segm, '_deblend_label_map') else [],
                   'copy_data': snap_obj.data.tolist(), 'copy_expected': snap_data}
            try:
                got = project(copy.deepcopy(segm), with_poly=False); rec['reads'] = {a: got[a] for a in ATTRS}; rec['reads_ok'] = True
            except Exception:  # noqa
                rec['reads'] = {}; rec['reads_ok'] = False
            events.append(rec)
            continue
        if kind == 'copy_check':
            copies.append((segm.copy(), segm.data.tolist()))       # a copy taken now must not see later mutations
            continue
        rl = rng.random() < 0.4
        if kind in ('reassign', 'remove', 'keep'):
            if not labs:
                continue
            ls = sorted(rng.sample(labs, rng.randint(1, len(labs))))
            ev = {'op': kind, 'labels': ls, 'relabel': rl}
            if kind == 'reassign':
                ev['new'] = rng.choice(labs + [rng.randint(1, 14)])
                if dtype in ('uint8', 'int16') and rng.random() < 0.1:
                    ev['new'] = int(np.iinfo(dtype).max) + rng.randint(0, 1)
        elif kind == 'relabel_consecutive':
            ev = {'op': kind, 'start': rng.randint(1, 4)}
            if dtype in ('uint8', 'int16') and rng.random() < 0.3:      # the new labels would exceed the dtype: to be refused, not wrapped
                ev['start'] = int(np.iinfo(dtype).max) - rng.randint(0, 2)
        elif kind == 'remove_border':
            ev = {'op': kind, 'width': rng.randint(0, max(0, (min(h, w) - 1) // 2)), 'partial': rng.random() < 0.5, 'relabel': rl}
        elif kind == 'remove_masked':
            m = [[r, c] for r in range(h) for c in range(w) if rng.random() < 0.2]
            ev = {'op': kind, 'mask': m, 'partial': rng.random() < 0.5, 'relabel': rl}
        elif kind == 'setdata':
            a2 = np.zeros((h, w), dtype=dtype)
            for _ in range(rng.randint(1, 4)):
                r0, c0 = rng.randrange(h), rng.randrange(w)
                a2[r0:min(h, r0 + 2), c0:min(w, c0 + 3)] = rng.randint(1, 9)
            ev = {'op': kind, 'data': a2.tolist()}
        elif kind == 'source_mask':
            sy, sx = rng.choice([1, 3, 5]), rng.choice([1, 3, 5])
            cy, cx = sy // 2, sx // 2
            full = rng.random() < 0.4
            offs = [[r - cy, c - cx] for r in range(sy) for c in range(sx) if full or rng.random() < 0.6 or (r, c) == (cy, cx)]
            ev = {'op': 'source_mask', 'fp_shape': [sy, sx], 'offsets': offs, 'use_size': bool(full and rng.random() < 0.5)}
        else:
            ev = {'op': 'read', 'attr': rng.choice(ATTRS)}
        if ev['op'] in ('reassign', 'relabel_consecutive'):
            ev['dtmax'] = int(min(np.iinfo(dtype).max, 10 ** 6))
        rec = {'ev': ev}
        try:
            ret = apply_event(segm, ev)
            rec['raised'] = False
        except Exception as e:  # noqa
            rec['raised'] = True
            rec['exc'] = type(e).__name__
        rec['data'] = segm.data.tolist()
        if ev['op'] == 'source_mask' and not rec['raised']:
            rec['srcmask'] = [[int(r), int(c)] for r, c in zip(*np.nonzero(np.asarray(ret)))]
        rec['dtype_ok'] = str(segm.data.dtype) == dtype
        if hasattr(segm, '_deblend_label_map'):
            rec['dmap'] = dmap_views(copy.deepcopy(segm))[0]
        else:
            rec['dmap'] = []
        try:
            got = project(copy.deepcopy(segm), with_poly=False)
            rec['reads'] = {a: got[a] for a in ATTRS}
            rec['reads_ok'] = True
        except Exception as e:  # noqa
            rec['reads'] = {}
            rec['reads_ok'] = False
        events.append(rec)
    return {'id': seed, 'init': arr.tolist(), 'dmap0': dmap0, 'events': events}


def validate_traces(ctx, traces, part):
    """TLC validates a batch of recorded traces (16 shards); returns dict id -> list of failed clause names"""
    shards = [traces[i::16] for i in range(16)]
    shards = [s for s in shards if s]
    files = [ctx.datafile(f'{part}_{i}.json', s) for i, s in enumerate(shards)]
    from concurrent.futures import ThreadPoolExecutor
    with ThreadPoolExecutor(16) as ex:
        rs = list(ex.map(lambda f: ctx.tlc('Trace_SegmImage', 'Trace_SegmImage.cfg', part=part, env={'TRACE_FILE': f}, workers=1), files))
    verdicts = {}
    for r in rs:
        for rec in r.records:
            if rec.get('_tag') == 'V':
                verdicts[rec['id']] = rec
    if len(verdicts) != len(traces):
        raise core.Machinery(f'trace validation returned {len(verdicts)} verdicts for {len(traces)} traces')
    return verdicts


def run(ctx):
    q = ctx.quick
    ctx.rule = ('GEN: one case per transition of the SegmImage model (BFS path to the source state + one action), all 2x2 arrays over '
                '{0,1,3}; non-trivial = path contains a mutator that changes the array or a read that follows a mutator; '
                'Trace: seeded random histories (4-10 events) on 3x3..6x7 arrays of 5 dtypes')
    # 1. design level
    mc_cfg = core.make_cfg(ctx, 'MC_SegmImage_2x2.cfg', MaxDepth=(3 if q else 4))
    r = ctx.mc('SegmImage', mc_cfg, coverage=True, timeout=1500)
    ctx.need_coverage('SegmImage', r, ['Read', 'ReadAll', 'RelabelConsecutive', 'RemoveBorder', 'RemoveMasked', 'SetData'])
    # 2. spec -> code
    cfgs = ['GEN_SegmImage_2x2_q1.cfg', 'GEN_SegmImage_2x2_q2.cfg'] if q else ['GEN_SegmImage_2x2.cfg', 'GEN_SegmImage_2x3.cfg']
    hists = []
    for c in cfgs:
        for r in core.tlc_sharded(ctx, 'SegmImage', c, 8, part=f'GEN:{c}', timeout=1500):
            hists += [rec['v'] for rec in r.records if rec.get('_tag') == 'GEN']
    results = core.pmap(replay_hist, list(enumerate(hists)), chunksize=256)
    nontriv = set()
    skipped = 0
    for (idx, h), res in zip(enumerate(hists), results):
        if res and res[0][0] == '__skip__':
            skipped += 1
            continue
        for clause, sig, detail in res:
            ctx.violation(clause, sig, detail)
        if any(h[k]['data'] != h[k - 1]['data'] for k in range(1, len(h))) or \
                any(h[k]['ev']['op'].startswith('read') and h[k - 1]['ev']['op'] not in ('read', 'readall', 'init') for k in range(1, len(h))):
            nontriv.add(json.dumps([x['ev'] for x in h] + [h[0]['data']], sort_keys=True))
    ctx.evaluations += len(hists)
    ctx.traces += len(hists) - skipped
    ctx.nontrivial += len(nontriv)
    ctx.exhaustive = True
    if hists:
        ctx.sample({'kind': 'GEN behaviour replayed', 'init': hists[len(hists) // 2][0]['data'], 'events': [x['ev'] for x in hists[len(hists) // 2][1:]]})
    if skipped:
        ctx.assumptions.append(f'{skipped} behaviours with deblend bookkeeping skipped: SegmentationImage has no _deblend_label_map attribute')
    # 3. code -> spec
    n = 400 if q else 4000
    traces = core.pmap(record_trace, [ctx.seed * 1000003 + i for i in range(n)], chunksize=16, on_raise='drop')
    verdicts = validate_traces(ctx, traces, 'Trace:SegmImage')
    for t in traces:
        v = verdicts[t['id']]
        if not v['ok']:
            ev = t['events'][v['step'] - 1]['ev'] if 0 < v['step'] <= len(t['events']) else {'op': 'init'}
            ctx.violation('trace:' + v['clause'], dict(evsig(ev), has_dmap=bool(t['dmap0'])), {'trace': t, 'step': v['step']})
    ctx.evaluations += n
    ctx.traces += sum(1 for t in traces if verdicts[t['id']]['ok'])
    ctx.nontrivial += len({json.dumps(t['events'], sort_keys=True) for t in traces if any(e['data'] != t['init'] for e in t['events'])})
    ctx.sample({'kind': 'recorded trace validated by TLC', 'init': traces[0]['init'], 'events': [e['ev'] for e in traces[0]['events']]})
    # 4. binding self-test: corrupt one pixel / one read of accepted traces -> TLC must reject
    good = [t for t in traces if verdicts[t['id']]['ok'] and t['events']][:8]
    bad = []
    for i, t in enumerate(good):
        t2 = copy.deepcopy(t)
        t2['id'] = 10**9 + i
        e = t2['events'][-1]
        if i % 2 == 0:
            e['data'][0][0] = e['data'][0][0] + 1
        elif e['reads_ok']:
            e['reads']['background_area'] += 1
        else:
            e['data'][0][0] = e['data'][0][0] + 1
        bad.append(t2)
    if bad:
        vb = validate_traces(ctx, bad, 'SelfTest:SegmImage')
        ctx.selftest('corrupted pixel / read value in an accepted trace', all(not v['ok'] for v in vb.values()),
                     f'{sum(1 for v in vb.values() if not v["ok"])}/{len(bad)} rejected')
    ctx.assumptions += ['deblend bookkeeping of initial states is installed through the private attribute _deblend_label_map exactly as '
                        'deblend_sources does', 'attributes are read on copy.deepcopy(segm) so that probing does not alter the history under test',
                        'polygon vertex lists are not compared (count, area, bounds only)']


def replay(ctx, rep):
    d = rep['detail']
    if 'path' in d:
        hist = None
        print(json.dumps({'init': d.get('init'), 'path': d['path'], 'clause': rep['clause'], 'detail': {k: v for k, v in d.items() if k not in ('path', 'init')}}, indent=1, default=str))
    else:
        print(json.dumps(rep, indent=1, default=str)[:4000])
