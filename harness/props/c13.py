"""C13 PSF/PRF models are flux-normalised and interpolate their data faithfully.
spec/PSFModels.tla (GriddedPSFModel / ImagePSF: searchsorted cell rule, clipped bilinear weights, exact blends at sample points; MC of
weight algebra; GEN replay), PSFParams.tla (parameter lattice of the analytic models, enumerated by TLC), Trace_PSFModels.tla (acceptance
predicates on recorded fixed-point projections: total flux, non-negativity, peak position, linearity, circular = elliptical, sigma = fwhm)."""
import json, math, random, warnings
import numpy as np
from .. import core

S = 65536
WIDTH = {1: 0.2, 2: 0.5, 3: 1.0, 4: 2.3, 5: 4.0}


# ------------------------------------------------------------------------------------------------ gridded / image models
def epsf(i, j, ny=7, nx=9):
    """integer ePSF stored at sorted grid node (i, j) (1-based): distinct per node, not symmetric"""
    y, x = np.mgrid[:ny, :nx]
    return (1 + x + 3 * y + 10 * i + 100 * j + ((x * (i + 1) + y * (j + 2)) % 5)).astype(float)


def replay_gridded(args):
    idx, c = args
    from astropy.nddata import NDData
    from photutils.psf import GriddedPSFModel
    warnings.simplefilter('ignore')
    gx, gy = c['gx'], c['gy']
    gs = [1.0, 1.0, 0.4, 1.0, 0.25][idx % 5]          # reference positions in other coordinate units (several of them inside one unit cell)
    goff = -0.3 if idx % 5 == 4 else 0.0               # ... and straddling zero
    gx, gy = [g * gs + goff for g in gx], [g * gs + goff for g in gy]
    nodes = [(i + 1, j + 1) for j in range(len(gy)) for i in range(len(gx))]
    rng = random.Random(idx)
    if idx % 2:
        rng.shuffle(nodes)                       # unsorted input grids
    ov = [1, 2, (2, 3)][idx % 3]
    ovy, ovx = (ov, ov) if isinstance(ov, int) else ov
    ny, nx = [(7, 9), (8, 9), (7, 10), (6, 8)][(idx // 3) % 4]          # odd and even stamp sizes (the reference pixel is (n - 1) / 2)
    data = np.array([epsf(i, j, ny, nx) for (i, j) in nodes])
    xy = [(gx[i - 1], gy[j - 1]) for (i, j) in nodes]
    sig = {'layout': c['layout'], 'shuffled': bool(idx % 2), 'oversampling': str(ov), 'decoy_instance_first': idx % 3 == 1, 'stamp': [(7, 9), (8, 9), (7, 10), (6, 8)][(idx // 3) % 4]}
    out = []
    try:
        if idx % 3 == 1:
            # another model instance on the same grid with other ePSFs, evaluated at the same place first: instances are independent
            decoy = GriddedPSFModel(NDData(1000.0 - data[::-1], meta={'grid_xypos': xy, 'oversampling': ov}))
            decoy.x_0, decoy.y_0 = c['x0'] / 2.0 * gs + goff, c['y0'] / 2.0 * gs + goff
            decoy(np.array([[c['x0'] / 2.0 * gs + goff]]), np.array([[c['y0'] / 2.0 * gs + goff]]))
        fill = [0.0, 0, -1, 7.5][(idx // 2) % 4]          # float and integer-typed fill values
        model = GriddedPSFModel(NDData(data, meta={'grid_xypos': xy, 'oversampling': ov}), fill_value=fill)
        # earlier evaluations at other positions must not matter (cache keyed by grid position)
        if idx % 4 == 0:
            model.x_0, model.y_0 = gx[-1] - 0.3, gy[0] + 0.2
            model(np.array([[1.0]]), np.array([[1.0]]))
            model = model.copy() if idx % 8 == 0 else model
        x0, y0, flux = c['x0'] / 2.0 * gs + goff, c['y0'] / 2.0 * gs + goff, 3.0
        model.x_0, model.y_0, model.flux = x0, y0, flux
        other = 1 if ov != 1 else 3
        if idx % 5 == 2:
            # the public oversampling setter used AFTER evaluations with another pixel scale at the very same place
            model = GriddedPSFModel(NDData(data, meta={'grid_xypos': xy, 'oversampling': other}), fill_value=fill)
            model.x_0, model.y_0, model.flux = x0, y0, flux
            model(np.array([[x0, x0 + 0.5]]), np.array([[y0, y0]]))
            model.oversampling = ov
            sig = dict(sig, history='oversampling_set_after_evaluation')
        elif idx % 5 == 3:
            # a copy given another oversampling and evaluated first: the original is not affected
            cp = model.copy(); cp.oversampling = other
            cp.x_0, cp.y_0 = x0, y0
            cp(np.array([[x0, x0 + 0.5]]), np.array([[y0, y0]]))
            sig = dict(sig, history='copy_with_other_oversampling_evaluated_first')
        ox, oy = (nx - 1) / 2.0, (ny - 1) / 2.0
        yi, xi = np.mgrid[:ny, :nx]
        xs = x0 + (xi - ox) / ovx
        ys = y0 + (yi - oy) / ovy
        got = np.asarray(model(xs, ys), dtype=float)
        b = c['blend']
        exp = np.zeros((ny, nx))
        for (i, j), w in zip(b['nodes'], b['w']):
            exp += w * epsf(i, j, ny, nx)
        exp = flux * exp / b['norm']
        inner = np.zeros((ny, nx), dtype=bool); inner[1:-1, 1:-1] = True     # samples exactly on the array bound: rounding of the transform decides
        if got.shape != exp.shape or not np.allclose(got[inner], exp[inner], rtol=1e-9, atol=1e-8):
            out.append(('gridded_value_is_bilinear_blend_of_cell_nodes_at_sample_points', sig, {'case': c, 'max_abs_dev': float(np.max(np.abs(got - exp)[inner]))}))
        # the functional form: evaluate(x, y, flux, x_0, y_0) with explicit arguments while the instance itself sits somewhere else
        model.x_0, model.y_0, model.flux = gx[-1] - 0.3, gy[0] + 0.2, 1.0
        got2 = np.asarray(model.evaluate(xs, ys, flux, x0, y0), dtype=float)
        model.x_0, model.y_0, model.flux = x0, y0, flux
        if got2.shape != exp.shape or not np.allclose(got2[inner], exp[inner], rtol=1e-9, atol=1e-8):
            out.append(('gridded_value_is_bilinear_blend_of_cell_nodes_at_sample_points', dict(sig, form='evaluate_with_explicit_position'),
                        {'case': c, 'max_abs_dev': float(np.max(np.abs(got2 - exp)[inner]))}))
        # outside the ePSF array: fill_value
        far = np.asarray(model(np.array([[x0 + 50.0]]), np.array([[y0]])), dtype=float)
        if far[0, 0] != float(fill):
            out.append(('fill_value_outside_the_array', dict(sig, fill=repr(fill)), {'case': c, 'got': float(far[0, 0])}))
    except Exception as e:  # noqa
        out.append(('raises', sig, {'case': c, 'exc': repr(e)}))
    return out


def rec_imagepsf(seed):
    from photutils.psf import ImagePSF
    rng = random.Random(seed)
    ny, nx = rng.randint(4, 9), rng.randint(4, 9)
    data = np.array([[rng.randint(0, 30) for _ in range(nx)] for _ in range(ny)], dtype=float)
    ov = rng.choice([1, 2, 3, (2, 3), (3, 1)])
    ovy, ovx = (ov, ov) if isinstance(ov, int) else ov
    origin = None if rng.random() < 0.5 else (rng.uniform(0, nx - 1), rng.uniform(0, ny - 1))
    fill = rng.choice([0.0, -5.0, np.nan])
    x0, y0, flux = rng.uniform(-3, 30), rng.uniform(-3, 30), rng.choice([1.0, 2.5])
    rec = {'id': seed, 'kind': 'samples', 'rel': 'imagepsf_reproduces_data_times_flux_at_sample_points', 'raised': False, 'maxdev': 0, 'tol': 2}
    try:
        with warnings.catch_warnings():
            warnings.simplefilter('ignore')
            m = ImagePSF(data, x_0=x0, y_0=y0, flux=flux, oversampling=ov, origin=origin, fill_value=fill)
            ox, oy = origin if origin is not None else ((nx - 1) / 2.0, (ny - 1) / 2.0)
            yi, xi = np.mgrid[-2:ny + 2, -2:nx + 2]
            xs = x0 + (xi - ox) / ovx; ys = y0 + (yi - oy) / ovy
            xs_in, ys_in = xs.copy(), ys.copy()
            got = np.asarray(m(xs, ys), dtype=float)
            got2 = np.asarray(m(xs, ys), dtype=float)              # a second evaluation with the same (caller-owned) grids
        inside = (xi >= 0) & (xi <= nx - 1) & (yi >= 0) & (yi <= ny - 1)
        edge = (xi == 0) | (xi == nx - 1) | (yi == 0) | (yi == ny - 1)     # exactly on the bound: rounding of the transform decides
        exp = np.where(inside, flux * data[np.clip(yi, 0, ny - 1), np.clip(xi, 0, nx - 1)], fill)
        chk = ~edge
        dev = np.abs(got - exp)[chk & np.isfinite(exp)]
        nanbad = np.any(np.isnan(exp[chk]) != np.isnan(got[chk]))
        dev2 = np.abs(got2 - got)[np.isfinite(got)]
        md = max(float(dev.max()) if dev.size else 0.0, float(dev2.max()) if dev2.size else 0.0, 1e6 if nanbad else 0.0,
                 1e6 if not (np.array_equal(xs, xs_in) and np.array_equal(ys, ys_in)) else 0.0)
        rec['maxdev'] = int(min(md, 1e4) * S / 64)
    except Exception as e:  # noqa
        rec['raised'] = True; rec['exc'] = repr(e)
    return rec


def rec_makepsf(seed):
    """make_psf_model(normalize=True) wraps any astropy model into a PSF model that integrates to its flux, wherever the model is centred"""
    from astropy.modeling.models import Gaussian2D, Moffat2D
    from photutils.psf import make_psf_model
    rng = random.Random(seed)
    rec = {'id': seed, 'kind': 'samples', 'rel': 'wrapped_model_integrates_to_its_flux', 'raised': False, 'maxdev': 0, 'tol': 8}
    try:
        xc, yc = rng.uniform(-10, 60), rng.uniform(-10, 60)           # x and y centres far apart in general
        if seed % 2:
            base = Gaussian2D(amplitude=rng.uniform(0.5, 30), x_mean=xc, y_mean=yc, x_stddev=rng.uniform(1.5, 3.0), y_stddev=rng.uniform(1.5, 3.0), theta=rng.uniform(0, 3))
            names = dict(x_name='x_mean', y_name='y_mean')
            half = 24
        else:
            base = Moffat2D(amplitude=rng.uniform(0.5, 30), x_0=xc, y_0=yc, gamma=rng.uniform(1.5, 2.5), alpha=4.5)
            names = dict(x_name='x_0', y_name='y_0')
            half = 24
        with warnings.catch_warnings():
            warnings.simplefilter('ignore')
            psf = make_psf_model(base, **names, normalize=True)
        flux = rng.choice([1.0, 3.5, 120.0])
        setattr(psf, psf.flux_name, flux)              # the wrapped model keeps its own parameter names; flux_name / x_name / y_name map them
        # move it: the normalisation is a property of the shape, not of where it was wrapped
        if seed % 3 == 0:
            setattr(psf, psf.x_name, xc + 7.25); setattr(psf, psf.y_name, yc - 3.5)
            xc, yc = xc + 7.25, yc - 3.5
        h = 0.25
        g = np.arange(-half, half + h / 2, h)
        xx, yy = np.meshgrid(xc + g, yc + g)
        total = float(np.sum(np.asarray(psf(xx, yy), dtype=float))) * h * h / flux
        # (the make_psf_model normalisation box is 50 x 50 px: a Moffat profile with alpha = 4.5 has < 1e-3 of its flux outside)
        rec['maxdev'] = int(min(abs(total - 1.0), 10.0) * S)
        rec['tol'] = 8 if seed % 2 else 24
    except Exception as e:  # noqa
        rec['raised'] = True; rec['exc'] = repr(e)
    return rec


# ------------------------------------------------------------------------------------------------ analytic models
def build(model, w, x0, y0, theta_deg, shape, flux):
    import photutils.psf as P
    fw = WIDTH[w]
    ell = 1.0 if shape == 1 else 1.6
    if model == 'CircularGaussianPRF':
        return P.CircularGaussianPRF(flux=flux, x_0=x0, y_0=y0, fwhm=fw)
    if model == 'CircularGaussianSigmaPRF':
        return P.CircularGaussianSigmaPRF(flux=flux, x_0=x0, y_0=y0, sigma=fw / (2 * math.sqrt(2 * math.log(2))))
    if model == 'GaussianPRF':
        return P.GaussianPRF(flux=flux, x_0=x0, y_0=y0, x_fwhm=fw, y_fwhm=fw * ell, theta=theta_deg)
    if model == 'CircularGaussianPSF':
        return P.CircularGaussianPSF(flux=flux, x_0=x0, y_0=y0, fwhm=fw)
    if model == 'GaussianPSF':
        return P.GaussianPSF(flux=flux, x_0=x0, y_0=y0, x_fwhm=fw, y_fwhm=fw * ell, theta=theta_deg)
    if model == 'MoffatPSF':
        return P.MoffatPSF(flux=flux, x_0=x0, y_0=y0, alpha=fw, beta=2.5 if shape == 1 else 4.0)
    if model == 'AiryDiskPSF':
        return P.AiryDiskPSF(flux=flux, x_0=x0, y_0=y0, radius=max(fw, 0.5) * (1.0 if shape == 1 else 1.7))
    raise core.Machinery(model)


def rec_analytic(args):
    idx, c = args
    from scipy.special import j0, j1
    warnings.simplefilter('ignore')
    model, w, shape = c['model'], c['width'], c['shape']
    x0, y0 = 40.0 + c['cx'] / 4.0, 40.0 + c['cy'] / 4.0
    th = 15.0 * c['theta']
    flux = 7.0
    fw = WIDTH[w]
    is_prf = model.endswith('PRF')
    rec = {'id': idx, 'kind': 'analytic', 'model': model, 'width': w, 'theta': c['theta'], 'shape': shape, 'raised': False, 'has_circ': False, 'circ': 0,
           'has_forms': False, 'forms': 0, 'has_psfref': False, 'psfref': 0, 'tol_circ': 4, 'rotated_prf': model == 'GaussianPRF' and c['theta'] % 6 != 0}
    try:
        m = build(model, w, x0, y0, th, shape, flux)
        ext = fw * (1.6 if shape == 2 else 1.0)
        if is_prf:
            half = int(math.ceil(6 * ext)) + 4
            yy, xx = np.mgrid[40 - half:41 + half + 1, 40 - half:41 + half + 1]
            vals = np.asarray(m(xx.astype(float), yy.astype(float)), dtype=float)
            total = float(vals.sum()) / flux
            rec['tol_total'] = 2
        elif model in ('CircularGaussianPSF', 'GaussianPSF'):
            h = ext / 24.0
            n = int(math.ceil(6 * ext / h))
            g = (np.arange(-n, n + 1)) * h
            xx, yy = np.meshgrid(x0 + g, y0 + g)
            vals = np.asarray(m(xx, yy), dtype=float)
            total = float(vals.sum()) * h * h / flux
            rec['tol_total'] = 4
        else:
            # radial quadrature of the (circular) profile out to R, compared with the analytic enclosed fraction
            if model == 'MoffatPSF':
                beta = 2.5 if shape == 1 else 4.0
                R = 60.0 * fw
                frac = 1.0 - (1.0 + (R / fw) ** 2) ** (1.0 - beta)
            else:
                rad = max(fw, 0.5) * (1.0 if shape == 1 else 1.7)
                R = 12.0 * rad
                z = 3.8317059702075125 * R / rad        # first zero at `radius`
                frac = 1.0 - j0(z) ** 2 - j1(z) ** 2
            r = np.linspace(0.0, R, 400001)
            prof = np.asarray(m(x0 + r, np.full_like(r, y0)), dtype=float)
            total = float(np.trapezoid(2 * np.pi * r * prof, r)) / flux / frac
            yy, xx = np.mgrid[30:51, 30:51]
            vals = np.asarray(m(xx.astype(float), yy.astype(float)), dtype=float)
            rec['tol_total'] = 80
        rec['total'] = int(round(total * S))
        rec['minval'] = int(round(float(vals.min()) / flux * S))
        # peak of a fine grid around the centre
        f = np.arange(-16, 17) / 16.0
        fx, fy = np.meshgrid(x0 + f, y0 + f)
        fine = np.asarray(m(fx, fy), dtype=float)
        k = np.unravel_index(np.argmax(fine), fine.shape)
        rec['peak_off'] = int((k[0] - 16) ** 2 + (k[1] - 16) ** 2)
        rec['tol_peak'] = 0 if fw > 0.3 else 2
        m2 = build(model, w, x0, y0, th, shape, 2 * flux)
        rec['lin'] = int(round(float(np.max(np.abs(np.asarray(m2(fx, fy)) - 2 * fine))) / flux * S))
        if model in ('GaussianPRF', 'GaussianPSF') and shape == 1:
            circ = build('CircularGaussianPRF' if is_prf else 'CircularGaussianPSF', w, x0, y0, 0.0, 1, flux)
            yy2, xx2 = np.mgrid[34:47, 34:47]
            a = np.asarray(m(xx2.astype(float), yy2.astype(float))); b = np.asarray(circ(xx2.astype(float), yy2.astype(float)))
            rec['has_circ'] = True
            rec['circ'] = int(round(float(np.max(np.abs(a - b))) / flux * S))
        if model == 'GaussianPRF' and shape == 2 and w == 5:
            # the pixel-integrated form of a wide elliptical Gaussian is oriented like the point form with the same parameters
            # (deviation relative to the peak, in 1/65536; pixel integration itself changes a 4 x 6.4 px Gaussian by about 1 %)
            psf = build('GaussianPSF', w, x0, y0, th, shape, flux)
            yy3, xx3 = np.mgrid[28:53, 28:53]
            a3 = np.asarray(m(xx3.astype(float), yy3.astype(float))); b3 = np.asarray(psf(xx3.astype(float), yy3.astype(float)))
            rec['has_psfref'] = True
            rec['psfref'] = int(round(float(np.max(np.abs(a3 - b3))) / float(b3.max()) * S))
        if model == 'CircularGaussianSigmaPRF':
            other = build('CircularGaussianPRF', w, x0, y0, 0.0, 1, flux)
            yy2, xx2 = np.mgrid[34:47, 34:47]
            rec['has_forms'] = True
            rec['forms'] = int(round(float(np.max(np.abs(np.asarray(m(xx2.astype(float), yy2.astype(float))) - np.asarray(other(xx2.astype(float), yy2.astype(float)))))) / flux * S))
    except Exception as e:  # noqa
        rec.update(raised=True, total=0, minval=0, peak_off=0, tol_peak=0, lin=0, tol_total=0, exc=repr(e))
    return rec


def run(ctx):
    q = ctx.quick
    ctx.rule = ('GEN gridded: every source position of a half-pixel lattice over five grid layouts (inside cells, on grid lines and points, outside), '
                'shuffled input order, three oversamplings, with the expected bilinear blend from TLC; analytic: TLC-enumerated lattice of model x width '
                '(0.2-4 px) x sub-pixel centre x rotation x shape; non-trivial = position not on a grid point / width below one pixel or rotated')
    ctx.mc('PSFModels', 'MC_PSFModels.cfg', workers=16)
    g = ctx.tlc('PSFModels', core.make_cfg(ctx, 'GEN_PSFModels.cfg', Layouts='{"2x2", "3x2", "2x3"}' if q else '{"2x2", "3x2", "2x3", "3x3", "5x3"}'), part='GEN:PSFModels', workers=1)
    cases = [r for r in g.records if r.get('_tag') == 'GEN']
    if q:
        cases = cases[::2]
    for vs in core.pmap(replay_gridded, list(enumerate(cases)), chunksize=32):
        for v in vs:
            ctx.violation(*v)
    ctx.evaluations += len(cases); ctx.traces += len(cases); ctx.exhaustive = not q
    ctx.nontrivial += sum(1 for c in cases if sum(1 for w in c['blend']['w'] if w) > 1)
    ctx.sample({'kind': 'GEN gridded case', **{k: cases[len(cases) // 3][k] for k in ('layout', 'gx', 'gy', 'x0', 'y0', 'blend')}})
    p = ctx.tlc('PSFParams', core.make_cfg(ctx, 'GEN_PSFParams.cfg', Thetas='{0, 3, 6}' if q else '{0, 2, 3, 6, 7}'), part='GEN:PSFParams', workers=1)
    lat = [r for r in p.records if r.get('_tag') == 'GEN']
    lat = [c for c in lat if not (c['model'] in ('CircularGaussianPRF', 'CircularGaussianPSF', 'CircularGaussianSigmaPRF', 'MoffatPSF', 'AiryDiskPSF') and c['theta'] != 0)]
    lat = [c for c in lat if not (c['model'] in ('CircularGaussianPRF', 'CircularGaussianPSF', 'CircularGaussianSigmaPRF') and c['shape'] != 1)]
    recs = core.pmap(rec_analytic, list(enumerate(lat)), chunksize=8, on_raise='drop')
    recs += core.pmap(rec_makepsf, [2 * 10**7 + ctx.seed * 1000 + i for i in range(64 if q else 600)], chunksize=8, on_raise='drop')
    recs += core.pmap(rec_imagepsf, [10**7 + ctx.seed * 1000 + i for i in range(300 if q else 5000)], chunksize=32, on_raise='drop')
    ver = core.validate_batch(ctx, 'Trace_PSFModels', recs, 'Trace:PSFModels')
    for r in recs:
        v = ver[r['id']]
        if not v['ok']:
            ctx.violation(v['clause'], {'model': r.get('model', 'make_psf_model' if r.get('rel', '').startswith('wrapped') else 'ImagePSF'), 'rotated_prf': r.get('rotated_prf', False), 'width_id': r.get('width')},
                          {'case': r})
        else:
            ctx.traces += 1
    ctx.evaluations += len(recs); ctx.nontrivial += sum(1 for r in recs if r.get('width', 9) <= 2 or r.get('theta'))
    ctx.sample({'kind': 'analytic projection', **{k: recs[3][k] for k in ('model', 'width', 'theta', 'shape', 'total', 'minval', 'peak_off', 'lin')}})
    good = [r for r in recs if ver[r['id']]['ok'] and r['kind'] == 'analytic'][:3]
    bad = []
    for k, r in enumerate(good):
        r2 = core.jcopy(r); r2['id'] = 10**9 + k; r2['total'] += 400
        bad.append(r2)
    vb = core.validate_batch(ctx, 'Trace_PSFModels', bad, 'SelfTest:PSFModels', shards=1)
    ctx.selftest('perturbed total flux', all(not v['ok'] for v in vb.values()))
    ctx.assumptions += ['sums / quadratures / Bessel enclosed fractions are evaluated by the harness (numpy, scipy) and accepted by TLC in fixed point 2^-16',
                        'the spline between sample points is not decided; samples exactly on the array bound are don\'t-cares']


def replay(ctx, rep):
    print(json.dumps(rep, indent=1, default=str)[:6000])
