"""C03 Results are covariant under integer translation and axis transposition.
spec/Covariance.tla: TLC enumerates the transformation space (all offsets / pads up to the bounds, transposition) and validates, per API and
scene, the columns measured on the original and on the transformed scene (positions shift by exactly (dx, dy) / swap, everything else equal,
orientation -> 90 deg - orientation); array-valued results must be the embedded / transposed original."""
import json, math, random, warnings
import numpy as np
from .. import core

S = 1024
MARGIN = 9


def scene(seed):
    rng = np.random.default_rng(seed)
    h, w = 46, 54
    y, x = np.mgrid[:h, :w]
    src = [(16.3, 15.2, 80.0, 2.0, 1.4, 0.5), (31.7, 18.9, 120.0, 1.6, 1.6, 0.0), (24.2, 30.6, 60.0, 2.4, 1.5, 1.1), (38.4, 31.3, 95.0, 1.5, 2.1, 0.3)]
    d = np.zeros((h, w))
    for (cx, cy, a, sx, sy, th) in src:
        xr = (x - cx) * math.cos(th) + (y - cy) * math.sin(th)
        yr = -(x - cx) * math.sin(th) + (y - cy) * math.cos(th)
        d += a * np.exp(-0.5 * ((xr / sx) ** 2 + (yr / sy) ** 2))
    # a close companion of the first source (blended with it: deblended segments touch, each Kron aperture holds pixels of the other label)
    d += 55.0 * np.exp(-0.5 * (((x - 22.6) / 1.5) ** 2 + ((y - 17.9) / 1.5) ** 2))
    d += rng.normal(0, 0.6, (h, w))
    d[12, 40:44] += 40.0          # thin streaks (one pixel wide): degenerate second moments
    d[30:33, 46] += 40.0
    d[8, 10] += 60.0
    err = 1.0 + np.sqrt(np.abs(d)) * 0.2
    mask = np.zeros((h, w), dtype=bool)
    mask[20:22, 26:28] = True
    return d, err, mask, [(s[0], s[1]) for s in src]


def transform(arr, tr, fill=0):
    kind, dx, dy, pl, pr = tr
    if kind == 'transpose':
        return np.ascontiguousarray(arr.T)
    h, w = arr.shape
    out = np.full((h + dy + pr, w + dx + pr), fill, dtype=arr.dtype)
    out[dy:dy + h, dx:dx + w] = arr
    return out


def tpos(p, tr):
    kind, dx, dy, _, _ = tr
    return (p[1], p[0]) if kind == 'transpose' else (p[0] + dx, p[1] + dy)


def col(name, kind, vals, tol=2, partner=0):
    v = np.atleast_1d(np.asarray(getattr(vals, 'value', vals), dtype=float))
    sc = 1 if kind in ('ix', 'iy') else S
    return {'name': name, 'kind': kind, 'vals': [int(round(float(z) * sc)) if np.isfinite(z) else 0 for z in v], 'nan': [not bool(np.isfinite(z)) for z in v],
            'tol': tol, 'partner': partner}


# every API adapter: f(data, err, mask, pos, tr) -> (columns, arrays) ; arrays = dict name -> ndarray to be compared by embedding
def api_aperture_photometry(d, e, m, pos, tr):
    from photutils.aperture import EllipticalAperture, aperture_photometry
    th = 0.6 if tr[0] != 'transpose' else math.pi / 2 - 0.6
    t = aperture_photometry(d, EllipticalAperture(pos, 4.0, 2.5, theta=th), error=e, mask=m)
    cols = [col('xcenter', 'x', t['xcenter'], partner=2), col('ycenter', 'y', t['ycenter'], partner=1), col('aperture_sum', 'free', t['aperture_sum'], tol=4),
            col('aperture_sum_err', 'free', t['aperture_sum_err'], tol=4)]
    # rotated shapes in every quadrant of the rotation angle (theta -> 90 deg - theta under transposition; w and h keep their meaning)
    from photutils.aperture import EllipticalAnnulus, RectangularAnnulus, RectangularAperture
    for k, deg in enumerate((101.0, 160.0, -30.0, -75.0, 200.0)):
        a = math.radians(deg if tr[0] != 'transpose' else 90.0 - deg)
        aps = [RectangularAperture(pos, 7.0, 3.0, theta=a), RectangularAnnulus(pos, 4.0, 9.0, 6.0, theta=a), EllipticalAnnulus(pos, 2.0, 5.0, 3.0, theta=a)]
        for j, method in enumerate(('exact', 'center', 'subpixel')):
            tt = aperture_photometry(d, aps[(k + j) % 3], error=e, mask=m, method=method, subpixels=3)
            cols.append(col(f'rot{k}_{method}_sum', 'free', tt['aperture_sum'], tol=4))
            cols.append(col(f'rot{k}_{method}_err', 'free', tt['aperture_sum_err'], tol=4))
    return cols, {}


def api_aperture_stats(d, e, m, pos, tr):
    from photutils.aperture import ApertureStats, CircularAperture
    st = ApertureStats(d, CircularAperture(pos, 5.0), error=e, mask=m)
    cols = [col('xcentroid', 'x', st.xcentroid, partner=2), col('ycentroid', 'y', st.ycentroid, partner=1), col('bbox_xmin', 'ix', st.bbox_xmin, partner=4),
            col('bbox_ymin', 'iy', st.bbox_ymin, partner=3)]
    for n in ('sum', 'mean', 'median', 'std', 'max', 'semimajor_sigma', 'semiminor_sigma', 'fwhm', 'sum_aper_area'):
        cols.append(col(n, 'free', getattr(st, n), tol=4))
    cols.append(col('orientation', 'angle', st.orientation.to_value('deg')))
    # apertures whose outline ends exactly on the left / bottom edge of the original frame (x or y = -0.5): still inside, same box
    x0, y0, w0, h0 = _orig_frame(d, tr)
    flush = [(2.0, 20.0), (30.0, 2.0), (2.0, 2.0), (w0 - 3.0, 15.0)]
    if tr[0] == 'transpose':
        flush = [(b, a) for a, b in flush[:3]] + [(15.0, h0 - 3.0)]
    sf = ApertureStats(d, CircularAperture([(a + x0, b + y0) for a, b in flush], 2.5), error=e, mask=m)
    n0 = len(cols)
    cols += [col('flush_bbox_xmin', 'ix', sf.bbox_xmin, partner=n0 + 2), col('flush_bbox_ymin', 'iy', sf.bbox_ymin, partner=n0 + 1),
             col('flush_bbox_xmax', 'ix', sf.bbox_xmax, partner=n0 + 4), col('flush_bbox_ymax', 'iy', sf.bbox_ymax, partner=n0 + 3), col('flush_sum', 'free', sf.sum, tol=4)]
    return cols, {}


def api_find_peaks(d, e, m, pos, tr):
    from photutils.detection import find_peaks
    t = find_peaks(d, 15.0, box_size=7, mask=m)
    o = np.lexsort((np.asarray(t['x_peak']), np.asarray(t['y_peak']))) if tr[0] != 'transpose' else np.lexsort((np.asarray(t['y_peak']), np.asarray(t['x_peak'])))
    return [col('x_peak', 'ix', np.asarray(t['x_peak'])[o], partner=2), col('y_peak', 'iy', np.asarray(t['y_peak'])[o], partner=1),
            col('peak_value', 'free', np.asarray(t['peak_value'])[o])], {}


def _finder(which, integer=None):
    def f(d, e, m, pos, tr):
        from photutils.detection import DAOStarFinder, IRAFStarFinder, StarFinder
        if integer is not None:
            # raw counts in an integer dtype, with stars one to two kernel radii from the edges of the original frame (the convolution
            # beyond the frame edge is a zero fill, which is what makes the finders consistent with zero-padding)
            x0, y0, w0, h0 = _orig_frame(d, tr)
            d = d.copy()
            yy, xx = np.mgrid[:d.shape[0], :d.shape[1]]
            for (sx, sy) in ((21, 3.2), (3.2, 12), (w0 - 4.2, 30), (30, h0 - 4.2)):      # kernel box just inside the frame, its convolution support crossing the edge
                d += 150.0 * np.exp(-0.5 * (((xx - x0 - sx) / 1.5) ** 2 + ((yy - y0 - sy) / 1.5) ** 2))
            d = np.rint(np.clip(d + 20.0, 0, None)).astype(integer)
            inside = np.zeros(d.shape, dtype=bool); inside[y0:y0 + h0, x0:x0 + w0] = True
            d[~inside] = 0
        if which == 'dao':
            t = DAOStarFinder(8.0, 3.5)(d, mask=m)
        elif which == 'iraf':
            t = IRAFStarFinder(8.0, 3.5)(d, mask=m)
        else:
            y, x = np.mgrid[:7, :7]
            t = StarFinder(8.0, np.exp(-0.5 * (((x - 3) / 1.5) ** 2 + ((y - 3) / 1.5) ** 2)))(d, mask=m)
        if integer is not None:
            # the count pedestal ends at the frame edge: detections whose kernel box crosses that edge (the step itself, among others) see
            # zero fill in the original frame and convolved values in the embedding - only rows at least 3 px inside the frame (kernel box inside it) are compared
            xc_, yc_ = np.asarray(t['xcentroid']), np.asarray(t['ycentroid'])
            t = t[(xc_ - x0 >= 3) & (xc_ - x0 <= w0 - 4) & (yc_ - y0 >= 3) & (yc_ - y0 <= h0 - 4)]
        o = np.lexsort((np.round(np.asarray(t['xcentroid']), 3), np.round(np.asarray(t['ycentroid']), 3)))
        cols = [col('xcentroid', 'x', np.asarray(t['xcentroid'])[o], tol=3), col('ycentroid', 'y', np.asarray(t['ycentroid'])[o], tol=3)]
        for n in ('flux', 'peak', 'sharpness', 'roundness1', 'roundness2', 'roundness', 'fwhm', 'max_value'):
            if n in t.colnames:
                cols.append(col(n, 'free', np.asarray(t[n])[o], tol=4))
        return cols, {}
    return f


def _orig_frame(d, tr):
    """(x0, y0, w0, h0) of the original frame inside the current array"""
    kind, dx, dy, pl, pr = tr
    if kind == 'transpose':
        return 0, 0, d.shape[1], d.shape[0]
    return dx, dy, d.shape[1] - dx - pr, d.shape[0] - dy - pr


def _finder_excl(which):
    """star finders with exclude_border=True and non-square kernels: a star whose kernel box lies inside the original frame is reported in
    every embedding; extra narrow stars are planted 3-6 px from the edges of the original frame"""
    def f(d, e, m, pos, tr):
        from photutils.detection import DAOStarFinder, StarFinder
        x0, y0, w0, h0 = _orig_frame(d, tr)
        d = d.copy()
        yy, xx = np.mgrid[:d.shape[0], :d.shape[1]]
        for (sx, sy) in ((14, 3), (33, 4), (5, 30), (3, 17), (w0 - 4, 24), (w0 - 6, 9), (27, h0 - 4), (41, h0 - 6)):
            d += 90.0 * np.exp(-0.5 * (((xx - x0 - sx) / 1.1) ** 2 + ((yy - y0 - sy) / 1.1) ** 2))
        if which == 'dao_wide':
            fd = DAOStarFinder(8.0, 8.0, ratio=0.5, theta=0.0, exclude_border=True, sharplo=-10, sharphi=10, roundlo=-10, roundhi=10)
            ry, rx = fd.kernel.yradius, fd.kernel.xradius
        elif which == 'dao_tall':
            fd = DAOStarFinder(8.0, 8.0, ratio=0.5, theta=90.0, exclude_border=True, sharplo=-10, sharphi=10, roundlo=-10, roundhi=10)
            ry, rx = fd.kernel.yradius, fd.kernel.xradius
        else:
            ky, kx = np.mgrid[:5, :11]
            fd = StarFinder(8.0, np.exp(-0.5 * (((kx - 5) / 2.5) ** 2 + ((ky - 2) / 1.2) ** 2)), exclude_border=True)
            ry, rx = 2, 5
        t = fd(d, mask=m)
        xc, yc = np.asarray(t['xcentroid']), np.asarray(t['ycentroid'])
        # rows whose kernel box (around the nearest pixel) lies inside the original frame, with a one-pixel margin against centroid rounding
        keep = (xc - x0 >= rx + 1) & (xc - x0 <= w0 - 2 - rx) & (yc - y0 >= ry + 1) & (yc - y0 <= h0 - 2 - ry)
        xc, yc = xc[keep], yc[keep]
        o = np.lexsort((np.round(xc, 3), np.round(yc, 3)))
        cols = [col('xcentroid', 'x', xc[o], tol=3), col('ycentroid', 'y', yc[o], tol=3)]
        for n in ('flux', 'peak', 'max_value'):
            if n in t.colnames:
                cols.append(col(n, 'free', np.asarray(t[n])[keep][o], tol=4))
        return cols, {}
    return f


def api_segmentation(d, e, m, pos, tr):
    from photutils.segmentation import SourceCatalog, deblend_sources, detect_sources
    segm = detect_sources(d, 6.0, 3, mask=m)
    deb = deblend_sources(d, segm, 6, nlevels=16, contrast=0.01, progress_bar=False)
    yy, xx = np.mgrid[:d.shape[0], :d.shape[1]]
    # a background map that is carried along with the scene (built from the data so that it is transformed alike)
    bkg = 0.01 * np.abs(d) + 2.0
    cat = SourceCatalog(d, deb, error=e, mask=m, background=bkg)
    o = np.argsort(np.asarray(cat.segment_flux))      # labels follow raster order, which transposition changes: order rows by flux
    cols = []
    px = {'xcentroid': 'ycentroid', 'bbox_xmin': 'bbox_ymin', 'bbox_xmax': 'bbox_ymax', 'minval_xindex': 'minval_yindex', 'maxval_xindex': 'maxval_yindex',
          'xcentroid_win': 'ycentroid_win', 'xcentroid_quad': 'ycentroid_quad'}
    names = []
    for a, b in px.items():
        names += [a, b]
    for n in names:
        kind = ('ix' if n.startswith(('bbox', 'minval', 'maxval')) else 'x') if (n in px) else ('iy' if n.startswith(('bbox', 'minval', 'maxval')) else 'y')
        partner = names.index(px[n] if n in px else {v: k for k, v in px.items()}[n]) + 1
        cols.append(col(n, kind, np.asarray(getattr(cat, n))[o], tol=3, partner=partner))
    for n in ('segment_flux', 'segment_fluxerr', 'area', 'semimajor_sigma', 'semiminor_sigma', 'eccentricity', 'min_value', 'max_value', 'kron_flux', 'kron_radius',
              'fwhm', 'gini', 'equivalent_radius', 'perimeter', 'background_sum', 'background_mean', 'background_centroid', 'covar_sigxy'):
        cols.append(col(n, 'free', np.asarray(getattr(getattr(cat, n), 'value', getattr(cat, n)))[o], tol=6))
    cols.append(col('covar_sigx2', 'free', np.asarray(cat.covar_sigx2.value if tr[0] != 'transpose' else cat.covar_sigy2.value)[o], tol=6))
    # orientation of exactly round or single-pixel sources is undefined: only sources with a clear elongation are compared
    ori = np.asarray(cat.orientation.to_value('deg'))[o]
    elong = np.asarray(cat.elongation.value if hasattr(cat.elongation, 'value') else cat.elongation)[o]
    ori = np.where(elong > 1.05, ori, np.nan)
    cols.append(col('orientation', 'angle', ori))
    # a second catalog with a local-background annulus around every source (compared for the sources whose annulus lies inside
    # the original frame)
    cat2 = SourceCatalog(d, deb, error=e, mask=m, localbkg_width=4)
    x0, y0, w0, h0 = _orig_frame(d, tr)
    inside = []
    for ap in cat2.local_background_aperture:
        bb = ap.bbox if ap is not None else None
        inside.append(bb is not None and bb.ixmin >= x0 + 1 and bb.iymin >= y0 + 1 and bb.ixmax <= x0 + w0 - 1 and bb.iymax <= y0 + h0 - 1)
    inside = np.array(inside)[o]
    for n in ('local_background', 'segment_flux', 'kron_flux'):
        v = np.asarray(getattr(getattr(cat2, n), 'value', getattr(cat2, n)), dtype=float)[o]
        cols.append(col('lb_' + n, 'free', np.where(inside, v, np.nan), tol=6))
    lw = np.array([(ap.w_in, ap.h_in, ap.w_out, ap.h_out) if ap is not None else (np.nan,) * 4 for ap in cat2.local_background_aperture], dtype=float)[o]
    tp = tr[0] == 'transpose'
    cols.append(col('lb_annulus_w_in', 'free', lw[:, 1 if tp else 0])); cols.append(col('lb_annulus_h_in', 'free', lw[:, 0 if tp else 1]))
    cols.append(col('lb_annulus_w_out', 'free', lw[:, 3 if tp else 2])); cols.append(col('lb_annulus_h_out', 'free', lw[:, 2 if tp else 3]))
    arrays = {'detect_support': (segm.data > 0).astype(int), 'deblend_support': (deb.data > 0).astype(int)}
    if tr[0] != 'transpose':
        arrays.update(detect_labels=segm.data, deblend_labels=deb.data)
    return cols, arrays


def api_profiles(d, e, m, pos, tr):
    from photutils.profiles import CurveOfGrowth, RadialProfile
    rp = RadialProfile(d, pos[1], np.arange(0, 8), error=e, mask=m)
    cg = CurveOfGrowth(d, pos[1], np.arange(1, 8), error=e, mask=m)
    cols = [col('rp_profile', 'free', rp.profile, tol=4), col('rp_error', 'free', rp.profile_error, tol=4), col('cog_profile', 'free', cg.profile, tol=8),
            col('rp_area', 'free', rp.area, tol=4), col('rp_data_profile', 'free', np.sort(rp.data_profile), tol=4), col('rp_data_radius', 'free', np.sort(rp.data_radius), tol=2)]
    # a profile whose largest circle is inside the original frame but reaches into its last column and row
    if tr[0] == 'transpose':
        h0, w0 = d.shape[1], d.shape[0]
        cen = (h0 - 7.7, w0 - 7.6)
    else:
        h0, w0 = d.shape[0] - tr[2] - tr[4], d.shape[1] - tr[1] - tr[4]
        cen = (w0 - 7.6 + tr[1], h0 - 7.7 + tr[2])
    rp2 = RadialProfile(d, cen, np.arange(0, 8), mask=m)
    cols += [col('edge_rp_profile', 'free', rp2.profile, tol=4), col('edge_rp_data_profile', 'free', np.sort(rp2.data_profile), tol=4),
             col('edge_rp_data_radius', 'free', np.sort(rp2.data_radius), tol=2)]
    return cols, {}


def api_centroids(d, e, m, pos, tr):
    from photutils.centroids import centroid_1dg, centroid_2dg, centroid_com, centroid_quadratic, centroid_sources
    x = [int(round(p[0])) for p in pos]; y = [int(round(p[1])) for p in pos]
    cols = []
    names = []
    for k, f in enumerate((centroid_com, centroid_quadratic, centroid_1dg, centroid_2dg)):
        xs, ys = centroid_sources(d, x, y, box_size=9, mask=m, centroid_func=f)
        cols.append(col(f.__name__ + '_x', 'x', xs, tol=3, partner=2 * k + 2))
        cols.append(col(f.__name__ + '_y', 'y', ys, tol=3, partner=2 * k + 1))
    # ... and with the (spatially varying) error map for the functions that use one; find_peaks refines through the same path
    from photutils.detection import find_peaks
    base = len(cols)
    for k, f in enumerate((centroid_1dg, centroid_2dg)):
        xs, ys = centroid_sources(d, x, y, box_size=9, mask=m, error=e, centroid_func=f)
        cols.append(col(f.__name__ + '_err_x', 'x', xs, tol=3, partner=base + 2 * k + 2))
        cols.append(col(f.__name__ + '_err_y', 'y', ys, tol=3, partner=base + 2 * k + 1))
    # the functions themselves on a non-square single-source image (tall in the original, wide when transposed)
    yy, xx = np.mgrid[:31, :16]
    crop = 70.0 * np.exp(-0.5 * (((xx - 7.4) / 1.7) ** 2 + ((yy - 21.6) / 2.3) ** 2)) + np.random.default_rng(11).uniform(0, 0.3, (31, 16))
    if tr[0] == 'transpose':
        crop = np.ascontiguousarray(crop.T)
    for k, f in enumerate((centroid_com, centroid_quadratic, centroid_1dg, centroid_2dg)):
        xc, yc = f(crop)
        off = (tr[1], tr[2]) if tr[0] == 'translate' else (0, 0)
        cols.append(col('crop_' + f.__name__ + '_x', 'x', [xc + off[0]], tol=3, partner=12 + 2 * k + 2))
        cols.append(col('crop_' + f.__name__ + '_y', 'y', [yc + off[1]], tol=3, partner=12 + 2 * k + 1))
    return cols, {}


def api_model_image(d, e, m, pos, tr):
    from astropy.table import Table
    from photutils.datasets import make_model_image
    from photutils.psf import CircularGaussianPRF
    t = Table(); t['x_0'] = [p[0] for p in pos]; t['y_0'] = [p[1] for p in pos]; t['flux'] = [100.0, 200.0, 50.0, 80.0][:len(pos)]
    # plus sources at exactly half-integer coordinates (the window rule must not depend on the parity of the integer part) and
    # even window sizes
    x0, y0, _, _ = _orig_frame(d, tr)
    extra = [(20.5, 30.0), (33.0, 12.5), (41.5, 25.5), (12.5, 18.5)]
    if tr[0] == 'transpose':
        extra = [(b, a) for a, b in extra]
    for k, (ex, ey) in enumerate(extra):
        t.add_row([ex + x0, ey + y0, 60.0 + 10 * k])
    imgs = {'model_image_k': np.rint(make_model_image(d.shape, CircularGaussianPRF(fwhm=3.3), t, model_shape=(9, 9)) * 4096).astype(np.int64),
            'model_image_even_k': np.rint(make_model_image(d.shape, CircularGaussianPRF(fwhm=3.3), t, model_shape=(8, 8)) * 4096).astype(np.int64)}
    return [], imgs


APIS = {'aperture_photometry': (api_aperture_photometry, True), 'aperture_stats': (api_aperture_stats, True), 'find_peaks': (api_find_peaks, True),
        'daofinder': (_finder('dao'), False), 'iraffinder': (_finder('iraf'), False), 'starfinder': (_finder('star'), False),
        'daofinder_int': (_finder('dao', np.int32), False), 'iraffinder_int': (_finder('iraf', np.uint16), False), 'starfinder_int': (_finder('star', np.int16), False),
        'daofinder_excl_wide': (_finder_excl('dao_wide'), False), 'daofinder_excl_tall': (_finder_excl('dao_tall'), False),
        'starfinder_excl_rect': (_finder_excl('star_rect'), False),
        'segmentation_catalog': (api_segmentation, True), 'profiles': (api_profiles, True), 'centroids': (api_centroids, True), 'model_image': (api_model_image, True)}


def run_case(args):
    cid, api, tr, seed = args
    warnings.simplefilter('ignore')
    f, transposable = APIS[api]
    d, e, m, pos = scene(seed)
    rec = {'id': cid, 'api': api, 'rel': tr[0], 'dx': tr[1], 'dy': tr[2], 'raised': False, 'arrays_ok': True, 'cols': []}
    try:
        ca, aa = f(d, e, m, pos, ('translate', 0, 0, 0, 0))
        d2 = transform(d, tr); e2 = transform(e, tr, fill=1.0); m2 = transform(m, tr)
        cb, ab = f(d2, e2, m2, [tpos(p, tr) for p in pos], tr)
    except Exception as ex:  # noqa
        rec['raised'] = True; rec['exc'] = repr(ex)
        return rec
    if len(ca) != len(cb):
        rec['raised'] = True; rec['exc'] = 'column count differs'
        return rec
    for a, b in zip(ca, cb):
        rec['cols'].append({'name': a['name'], 'kind': a['kind'], 'a': a['vals'], 'b': b['vals'], 'a_nan': a['nan'], 'b_nan': b['nan'], 'tol': a['tol'], 'partner': a['partner'] or 1})
    for k in aa:
        if k not in ab:
            continue            # label arrays are not comparable under transposition (raster order changes); supports are
        exp = transform(aa[k], tr)
        if ab[k].shape != exp.shape or not np.array_equal(ab[k], exp):
            rec['arrays_ok'] = False; rec['bad_array'] = k
    return rec


def run(ctx):
    q = ctx.quick
    ctx.rule = ('TLC enumerates all integer offsets 0..7 x 0..7 with extra pads 0..2 and the transposition; each API adapter (aperture photometry / statistics, '
                'find_peaks, DAO / IRAF / StarFinder, detect + deblend + SourceCatalog, profiles, centroid functions, model rendering) is run on the scene and on its '
                'transformed copy (sources >= 9 px from the edge); non-trivial = offset not (0,0) or transposition')
    g = ctx.tlc('Covariance', 'Covariance_gen.cfg', part='GEN:Covariance', env={'TRACE_FILE': ctx.datafile('empty.json', [])}, workers=1)
    trs = [tuple(r['v']) for r in g.records if r.get('_tag') == 'GEN']
    jobs = []
    k = 0
    for t_i, tr in enumerate(trs):
        for a_i, (api, (_, transposable)) in enumerate(APIS.items()):
            if tr[0] == 'transpose' and not transposable:
                continue
            if q and tr[0] != 'transpose' and (t_i + a_i) % 6:
                continue
            jobs.append((k, api, list(tr), ctx.seed + (t_i % 3))); k += 1
            if not q:                        # thorough: every transformation x API on three further scenes
                for rep in (1, 2, 3):
                    jobs.append((k, api, list(tr), ctx.seed + 100 * rep + (t_i % 3))); k += 1
    if not q:
        for extra in range(1, 4):        # transposition on more scenes
            for api, (_, transposable) in APIS.items():
                if transposable:
                    jobs.append((k, api, ['transpose', 0, 0, 0, 0], ctx.seed + 10 + extra)); k += 1
    cases = core.pmap(run_case, jobs, chunksize=2, on_raise='drop')
    ver = core.validate_batch(ctx, 'Covariance', cases, 'Trace:Covariance')
    for c in cases:
        v = ver[c['id']]
        if not v['ok']:
            ctx.violation(v['clause'], {'api': c['api'], 'rel': c['rel']}, {'case': {k2: c[k2] for k2 in c if k2 != 'cols'}, 'cols': c['cols'][:40]})
        else:
            ctx.traces += 1
    ctx.evaluations += len(cases); ctx.nontrivial += sum(1 for c in cases if c['rel'] == 'transpose' or c['dx'] or c['dy'])
    ctx.exhaustive = not q
    ex = cases[len(cases) // 2]
    ctx.sample({'api': ex['api'], 'rel': ex['rel'], 'dx': ex['dx'], 'dy': ex['dy'], 'columns': [c['name'] for c in ex['cols']][:12]})
    good = [c for c in cases if ver[c['id']]['ok'] and c['cols'] and c['rel'] == 'translate' and c['dx']][:3]
    bad = []
    for k2, c in enumerate(good):
        c2 = core.jcopy(c); c2['id'] = 10**9 + k2
        xc = next((cc for cc in c2['cols'] if cc['kind'] in ('x', 'ix')), None)
        if xc is None:
            continue
        xc['b'][0] -= (S if xc['kind'] == 'x' else 1)
        bad.append(c2)
    if bad:
        vb = core.validate_batch(ctx, 'Covariance', bad, 'SelfTest:Covariance', shards=1)
        ctx.selftest('x position of the transformed run off by one pixel', all(not v['ok'] for v in vb.values()))
    ctx.assumptions += ['positions and values in fixed point 1/1024 with tolerance 2-8 units (sums may change reduction order)',
                        'sources whose footprint leaves the original frame are excluded by construction (margin 9 px)']


def replay(ctx, rep):
    print(json.dumps(rep, indent=1, default=str)[:6000])
