"""C20 Isophote fitting recovers the geometry of elliptical light distributions.
spec/IsoGrowth.tla (implementation-shaped outward / inward sma loops with nondeterministic stop codes incl. invalid fits: Termination, NoCrash,
returned list sorted / contiguous / within [minsma, maxsma]; the pinned loop is a rejected variant), Trace_IsoGrowth.tla (recorded fit_isophote
call sequences of real fit_image runs replayed through the same actions), IsoParams.tla (lattice of galaxies and fit configurations enumerated by TLC), Trace_Iso.tla (validation of recorded
fit_image runs: ordering, bounds, fixed parameters, recovery within reported errors, model reconstruction, scalar/array polar transform)."""
import json, math, random, warnings
import numpy as np
from .. import core

S = 1024
A = 16384


def galaxy(eps, pa, law, cx, cy, n=91, shape=None):
    y, x = np.mgrid[:(shape or (n, n))[0], :(shape or (n, n))[1]]
    xr = (x - cx) * math.cos(pa) + (y - cy) * math.sin(pa)
    yr = -(x - cx) * math.sin(pa) + (y - cy) * math.cos(pa)
    r = np.sqrt(xr ** 2 + (yr / (1.0 - eps)) ** 2)
    if law == 'gauss':
        return 1000.0 * np.exp(-0.5 * (r / 14.0) ** 2)
    if law == 'exp':
        return 1000.0 * np.exp(-r / 9.0)
    return 1000.0 * np.exp(-3.0 * ((r / 12.0) ** 0.5))          # Sersic n=2


def galaxy_scaled(eps, pa, law, cx, cy, shape, sc):
    """the same radial laws stretched by sc"""
    y, x = np.mgrid[:shape[0], :shape[1]]
    xr = (x - cx) * math.cos(pa) + (y - cy) * math.sin(pa)
    yr = -(x - cx) * math.sin(pa) + (y - cy) * math.cos(pa)
    r = np.sqrt(xr ** 2 + (yr / (1.0 - eps)) ** 2)
    return profile_at(law, r / sc)


def profile_at(law, r):
    if law == 'gauss':
        return 1000.0 * np.exp(-0.5 * (r / 14.0) ** 2)
    if law == 'exp':
        return 1000.0 * np.exp(-r / 9.0)
    return 1000.0 * np.exp(-3.0 * ((r / 12.0) ** 0.5))


def rec_fit(args):
    idx, c = args
    from photutils.isophote import Ellipse, EllipseGeometry, build_ellipse_model
    warnings.simplefilter('ignore')
    eps = c['eps'] / 100.0
    pa = c['pa'] * math.pi / 8.0
    cx, cy = (45.3, 44.6) if c['centre'] else (45.0, 45.0)
    shape = (91, 91)
    if c.get('frame') == 'wide':          # galaxy beyond the short dimension of a non-square frame
        shape = (71, 151); cx += 70.0; cy -= 10.0
    elif c.get('frame') == 'tall':
        shape = (151, 71); cy += 70.0; cx -= 10.0
    elif c.get('frame') == 'nearleft':    # the outer isophotes cross the left / bottom border (fewer than 30 % of their points outside)
        cx -= 32.0
    elif c.get('frame') == 'nearbottom':
        cy -= 32.0
    big = c.get('frame') in ('large', 'largeleft', 'largebottom')       # a large frame fitted out to sma 65 (large sectors, model images of large ellipses)
    if big:
        shape = (201, 201); cx += 55.0; cy += 55.0
        if c['frame'] == 'largeleft':      # ... with the galaxy 40 px from the left / bottom border
            cx -= 60.0
        elif c['frame'] == 'largebottom':
            cy -= 60.0
    sc = 2.5 if big else 1.0              # scale of the galaxy and of the sma range
    img = galaxy(eps, pa, c['law'], cx, cy, shape=shape) if not big else galaxy_scaled(eps, pa, c['law'], cx, cy, shape, sc)
    img0 = img.copy()
    fixc, fixp, fixe = c['fix'] == 'center', c['fix'] == 'pa', c['fix'] == 'eps'
    x0i, y0i = (cx, cy) if fixc else (cx + 0.6, cy - 0.5)
    epsi = eps if fixe else min(0.85, max(0.05, eps + 0.08))
    pai = pa if fixp else pa + 0.15
    if c.get('start') == 'perp':
        pai = pa + math.pi / 2 + 0.1
    rnd = c.get('start') == 'round'        # a very flat galaxy started from a much rounder guess (right PA, centre on the nearest pixel)
    if rnd:
        epsi = [0.3, 0.4, 0.5][c['pa'] % 3]
        pai = pa
        x0i, y0i = float(round(cx)), float(round(cy))
    lingeo = c['mode'] == 'linear_geometry'      # the documented way to ask for linear growth: a geometry with astep in pixels
    linear = c['mode'] == 'linear_growth' or lingeo
    step = 2.0 if linear else 0.15
    minsma, maxsma = 4.0 * sc, 26.0 * sc
    if idx % 6 == 1 and not big:
        minsma = 0.0                      # down to the central pixel: the sma = 0 isophote belongs to the result
    elif idx % 6 == 2 and not big:
        minsma = [0.3, 0.45, 0.25][idx % 3]      # below the 0.5 px floor of the inward pass, but not zero: no sma = 0 isophote
    if big and not linear:
        step = 0.2
    rec = {'id': idx, 'kind': 'fit', 'raised': False, 'demand_fit': c['eps'] <= 50 or rnd, 'fix_center': fixc, 'fix_pa': fixp, 'fix_eps': fixe, 'params': c}
    try:
        g = EllipseGeometry(x0i, y0i, (10.0 * sc if not rnd else [50.0, 45.0, 40.0][c['pa'] % 3]), epsi, pai) if not lingeo else EllipseGeometry(x0i, y0i, 10.0 * sc, epsi, pai, astep=2.0, linear_growth=True)
        via_geometry = idx % 2 == 1 and not lingeo and (fixc or fixp or fixe)
        if via_geometry:      # the flags given through the geometry (the documented alternative to the fit_image keywords)
            g = EllipseGeometry(x0i, y0i, (10.0 * sc if not rnd else [50.0, 45.0, 40.0][c['pa'] % 3]), epsi, pai, fix_center=fixc, fix_pa=fixp, fix_eps=fixe)
        el = Ellipse(img, g)
        iso = el.fit_image(sma0=(10.0 * sc if not rnd else [50.0, 45.0, 40.0][c['pa'] % 3]), minsma=minsma, maxsma=maxsma, step=step, linear=(None if lingeo else linear),
                           integrmode='nearest_neighbor' if c['mode'] == 'nearest' else (c['mode'] if c['mode'] in ('mean', 'median') else 'bilinear'),
                           maxrit=(13.0 if c['mode'] == 'maxrit' else None), **({} if via_geometry else dict(fix_center=fixc, fix_pa=fixp, fix_eps=fixe)))
        n = len(iso)
        fk = lambda v, s: int(round(float(v) * s)) if np.isfinite(v) else 0  # noqa
        rec['sma'] = [fk(i.sma, S) for i in iso]
        rec['maxsma_bound'] = fk(maxsma + step if linear else maxsma * (1 + step), S) + 2
        rec['minsma_bound'] = fk((minsma - step) if linear else minsma / (1 + step), S) - 2
        rec['central_allowed'] = minsma == 0.0
        rec['image_untouched'] = bool(np.array_equal(img, img0))
        rec['x0'] = [fk(i.x0, S) for i in iso]; rec['y0'] = [fk(i.y0, S) for i in iso]
        rec['eps'] = [fk(i.eps, A) for i in iso]; rec['pa'] = [fk(i.pa, A) for i in iso]
        rec['x0_init'], rec['y0_init'], rec['pa_init'], rec['eps_init'] = fk(x0i, S), fk(y0i, S), fk(pai, A), fk(epsi, A)
        rec['x0_err'] = [min(fk(i.x0_err, S), 10**6) for i in iso]; rec['y0_err'] = [min(fk(i.y0_err, S), 10**6) for i in iso]
        rec['eps_err'] = [min(fk(i.ellip_err, A), 10**6) for i in iso]; rec['pa_err'] = [min(fk(i.pa_err, A), 10**6) for i in iso]
        rec['tx0'], rec['ty0'], rec['teps'], rec['tpa'] = fk(cx, S), fk(cy, S), fk(eps, A), fk(pa % math.pi, A)
        rec['intens_rel'] = [fk(i.intens / profile_at(c['law'], i.sma / sc), A) if i.sma > 0 else A for i in iso]
        # well sampled: converged iterative fit, sma between 6 and 22 px, and the true geometry used for intensity only when not fixed elsewhere
        # (with bilinear sampling and a position angle away from 0 every such isophote is demanded to be right whatever its stop code:
        # on a noise-free ellipse the fit has no excuse; at PA = 0 - see the known finding - and for the coarser modes only converged ones)
        strict = c['mode'] in ('bilinear', 'linear_growth', 'linear_geometry', 'mean', 'median') and c['pa'] != 0
        rec['well'] = [bool((i.stop_code == 0 or strict) and 6.0 * sc <= i.sma <= (12.0 if c['mode'] == 'maxrit' else 22.0) * sc and i.valid and c['fix'] == 'none' and (c['eps'] <= 50 or rnd)) for i in iso]
        # nearest-neighbour sampling reads pixel values up to half a pixel off the ellipse: 5 % on steep profiles (2 % for bilinear)
        rec['intens_tol'] = 820 if c['mode'] == 'nearest' else 330
        rec['stops'] = [int(i.stop_code) for i in iso if 6.0 * sc <= i.sma <= 22.0 * sc]
        rec['model_checked'] = False; rec['model_maxrel'] = 0; rec['model_tol'] = 500
        if c['fix'] == 'none' and (idx % 3 == 0 or c.get('frame') != 'square') and n > 5 and c['mode'] != 'maxrit' and c['eps'] <= 50:
            model = build_ellipse_model(img.shape, iso)
            y, x = np.mgrid[:img.shape[0], :img.shape[1]]
            xr = (x - cx) * math.cos(pa) + (y - cy) * math.sin(pa); yr = -(x - cx) * math.sin(pa) + (y - cy) * math.cos(pa)
            r = np.sqrt(xr ** 2 + (yr / (1.0 - eps)) ** 2)
            region = (r >= 7.0 * sc) & (r <= 20.0 * sc) if not big else (r >= 12.0) & (r <= 60.0)
            # the outermost pixel ring of the frame only receives one-sided contributions of the bilinear painting (a few per cent on steep
            # profiles): compared from the second ring on
            inner = np.zeros(img.shape, dtype=bool); inner[1:-1, 1:-1] = True
            region &= inner
            rec['model_checked'] = True
            rec['model_maxrel'] = int(round(float(np.max(np.abs(model[region] - img[region]) / img[region])) * A))
            # (nearest-neighbour fits of steep, flattened profiles do not converge - stop code 2 - and their model is coarser: 8 %)
            rec['model_tol'] = 500 if c['mode'] == 'bilinear' else (1300 if c['mode'] == 'nearest' else 900)
    except Exception as e:  # noqa
        rec['raised'] = True; rec['exc'] = repr(e)
        for k in ('sma', 'x0', 'y0', 'eps', 'pa', 'x0_err', 'y0_err', 'eps_err', 'pa_err', 'intens_rel', 'well'):
            rec[k] = []
        rec.update(intens_tol=330, maxsma_bound=0, minsma_bound=0, central_allowed=True, image_untouched=True, x0_init=0, y0_init=0, pa_init=0, eps_init=0, tx0=0, ty0=0, teps=0, tpa=0,
                   model_checked=False, model_maxrel=0, model_tol=500)
    return rec


class _Budget(Exception):
    pass


def rec_loop(seed):
    """code -> spec (IsoGrowth.tla): the sequence of fit_isophote calls of one fit_image run - exponent of the requested sma and returned stop
    code - recorded by wrapping the method, with a call budget that turns a non-terminating loop into an observation"""
    from photutils.isophote import Ellipse, EllipseGeometry
    warnings.simplefilter('ignore')
    import logging
    logging.getLogger('astropy').setLevel(logging.ERROR)
    rng = random.Random(seed)
    n = rng.choice([61, 81])
    eps, pa, law = rng.choice([0.1, 0.3, 0.5]), rng.uniform(0.2, 2.9), rng.choice(['exp', 'gauss', 'sersic'])
    cx, cy = n / 2.0 + rng.uniform(-6, 6), n / 2.0 + rng.uniform(-6, 6)
    img = galaxy(eps, pa, law, cx, cy, n=n)
    linear = rng.random() < 0.3
    sma0 = rng.choice([5.0, 8.0, 12.0, 20.0, 30.0])
    step = rng.choice([2.0, 4.0, 3.0]) if linear else rng.choice([0.1, 0.2, 0.5, 0.8, 1.0])
    maxsma = rng.choice([None, None, 15.0, 25.0, 45.0, 90.0, 300.0])       # also far beyond the frame
    minsma = rng.choice([0.0, 0.0, 0.3, 1.0, 3.0, 7.0])
    mode = rng.choice(['bilinear', 'bilinear', 'nearest_neighbor', 'mean'])
    maxrit = rng.choice([None, None, None, 14.0, 33.0])
    grow = (lambda v: v + step) if linear else (lambda v: v * (1.0 + step))
    shrink = (lambda v: v - step) if linear else (lambda v: v / (1.0 + step))

    def expo(sma):
        if sma <= 0:
            return -1000
        kk = int(round((sma - sma0) / step)) if linear else int(round(math.log(sma / sma0) / math.log(1.0 + step)))
        ref = sma0 + kk * step if linear else sma0 * (1.0 + step) ** kk
        return kk if abs(ref - sma) <= 1e-7 * max(1.0, abs(sma)) else 99999
    kmax, v = 1, grow(sma0)
    while maxsma and v < maxsma:
        v = grow(v); kmax += 1
    floor = max(minsma, 0.5)
    kmin, v = 1, shrink(sma0)
    while v > floor:
        v = shrink(v); kmin += 1
    krit = 0
    if maxrit:      # first exponent (of either sign) whose sma is > maxrit
        v = sma0
        if v > maxrit:
            while v > maxrit:
                v = shrink(v); krit -= 1
            krit += 1
        else:
            while v <= maxrit:
                v = grow(v); krit += 1
    calls = []
    orig, orig_it, orig_non = Ellipse.fit_isophote, Ellipse._iterative, Ellipse._non_iterative
    gnames, started = {}, []

    def gname(geometry):      # geometries are named by value (centre, eps, PA); 0 is the first one seen: the user's first guess
        return gnames.setdefault(tuple(repr(float(v)) for v in (geometry.x0, geometry.y0, geometry.eps, geometry.pa)), len(gnames))

    def it_w(self, sma, step_, linear_, geometry, *a, **kw):
        started.append(gname(geometry))
        return orig_it(self, sma, step_, linear_, geometry, *a, **kw)

    def non_w(self, sma, step_, linear_, geometry, *a, **kw):
        started.append(gname(geometry))
        return orig_non(self, sma, step_, linear_, geometry, *a, **kw)

    def wrapped(self, sma, *a, **kw):
        if len(calls) >= 200 or sma > 40 * n:      # (an ellipse 40 frame sizes wide: the growth has run away)
            raise _Budget()
        if not gnames:
            gname(self._geometry)
        iso = orig(self, sma, *a, **kw)
        smp = iso.sample
        thin = bool(sma > 0 and getattr(smp, 'total_points', 0) and smp.actual_points < smp.total_points * 0.7)      # fflag default 0.7
        calls.append({'ph': 'central' if sma == 0.0 else 'fit', 'k': 0 if sma == 0.0 else expo(sma), 'code': int(iso.stop_code), 'niter': int(iso.niter), 'thin': thin,
                      'gs': started[-1] if started else -1, 'ge': gname(smp.geometry)})
        return iso
    rec = {'id': 2 * 10**7 + seed, 'kind': 'loop', 'par': {'HasMax': bool(maxsma), 'KMax': kmax, 'KMin': kmin, 'MinZero': minsma == 0.0, 'Variant': 'repaired', 'HasRit': bool(maxrit), 'KRit': krit},
           'budget_exceeded': False, 'raised': False, 'final': [], 'params': {'law': law, 'mode': 'loop:' + mode, 'eps': int(eps * 100), 'fix': 'none', 'pa': 1},
           'request': {'n': n, 'sma0': sma0, 'step': step, 'linear': linear, 'minsma': minsma, 'maxsma': maxsma or 0.0, 'maxrit': maxrit or 0.0, 'centre': [cx, cy]}}
    Ellipse.fit_isophote, Ellipse._iterative, Ellipse._non_iterative = wrapped, it_w, non_w
    try:
        g = EllipseGeometry(cx + rng.uniform(-0.4, 0.4), cy + rng.uniform(-0.4, 0.4), sma0, min(0.8, eps + rng.uniform(-0.05, 0.05)), pa + rng.uniform(-0.1, 0.1))
        iso = Ellipse(img, g).fit_image(sma0=sma0, minsma=minsma, maxsma=maxsma, step=step, linear=linear, integrmode=mode, maxrit=maxrit)
        rec['final'] = [[-1000 if i.sma == 0.0 else expo(i.sma), int(i.stop_code), 0 if i.sma == 0.0 else gname(i.sample.geometry)] for i in iso]
    except _Budget:
        rec['budget_exceeded'] = True
    except Exception as e:  # noqa
        rec['raised'] = True; rec['exc'] = repr(e)
    finally:
        Ellipse.fit_isophote, Ellipse._iterative, Ellipse._non_iterative = orig, orig_it, orig_non
    rec['calls'] = calls
    return rec


GEN_LOOP = {   # constants of spec/GEN_IsoGrowth_<x>.cfg  ->  a fit_image request with exactly those exponents
    'a': dict(sma0=10.0, step=0.5, minsma=3.5, maxsma=45.0),      # HasMax, KMax = 4, KMin = 3
    'b': dict(sma0=2.0, step=0.5, minsma=0.0, maxsma=None),       # no maxsma, KMin = 4, central isophote
    'c': dict(sma0=2.0, step=0.5, minsma=0.0, maxsma=6.0),        # HasMax, KMax = 3, KMin = 4, central isophote
    'd': dict(sma0=10.0, step=0.5, minsma=3.5, maxsma=45.0, maxrit=18.0),      # as 'a' with non-iterative fits from exponent 2 on (sma 22.5 > maxrit)
    'e': dict(sma0=4.0, step=0.5, minsma=0.0, maxsma=30.0, maxrit=8.0),        # HasMax, KMax = 5, KMin = 6, central isophote, non-iterative from exponent 2 on (sma 9 > maxrit)
}
_LOOP_IMG = None


def replay_loop(args):
    """spec -> code (IsoGrowthGen.tla): one complete behaviour of the loop machine driven through the REAL fit_image / fit_isophote / _non_iterative /
    _fix_last_isophote, with only the numerical fitter Ellipse._iterative replaced by a stub that builds real samples / Isophote objects carrying the
    dictated stop codes and, for the geometry flow, a centre that names the call (x0 = 60 + call / 1024, exact in binary)"""
    idx, c = args
    global _LOOP_IMG
    from photutils.isophote import Ellipse, EllipseGeometry
    from photutils.isophote.isophote import Isophote
    from photutils.isophote.sample import EllipseSample
    warnings.simplefilter('ignore')
    if _LOOP_IMG is None:
        _LOOP_IMG = galaxy(0.2, 0.6, 'exp', 60.0, 60.0, n=121)
    rq = GEN_LOOP[c['cfg']]
    sma0, step = rq['sma0'], rq['step']
    expo = lambda sma: -1000 if sma == 0.0 else int(round(math.log(sma / sma0) / math.log(1.0 + step)))  # noqa
    gid = lambda geometry: int(round((geometry.x0 - 60.0) * 1024))  # noqa
    script = [tuple(x) for x in c['calls']]
    calls, problems = [], []
    orig_it, orig_non = Ellipse._iterative, Ellipse._non_iterative

    def stub_it(self, sma, step, linear, geometry, sclip, nclip, integrmode, conver, minit, maxit, fflag, maxgerr, going_inwards=False):
        if sma == 0.0:
            calls.append((-1000, 0, False, 0))
            return orig_it(self, sma, step, linear, geometry, sclip, nclip, integrmode, conver, minit, maxit, fflag, maxgerr, going_inwards)
        n = sum(1 for q in calls if q[0] != -1000)
        if n >= len(script):
            raise _Budget()
        code = script[n][1]
        if code == 4:
            code = 0          # the model expected a non-iterative fit here; reported below
        sample = EllipseSample(self.image, sma, astep=step, linear_growth=linear, geometry=geometry, integrmode=integrmode)
        sample.geometry.x0 = 60.0 + (n + 1) / 1024.0          # the fit moved the ellipse: geometry named after the call
        sample.update(geometry.fix)
        calls.append((expo(sma), code, False, gid(geometry)))
        return Isophote(sample, 10, code != 3, code)

    def wrap_non(self, sma, step, linear, geometry, sclip, nclip, integrmode):
        n = sum(1 for q in calls if q[0] != -1000)
        if n >= len(script):
            raise _Budget()
        calls.append((expo(sma), 4, True, gid(geometry)))
        return orig_non(self, sma, step, linear, geometry, sclip, nclip, integrmode)
    sig = {'cfg': c['cfg'], 'codes_seen': sorted({x[1] for x in script}), 'kind': 'loop_replay', 'law': None, 'mode': 'loop_replay', 'fix': None, 'eps': None, 'pa_is_zero': None}
    Ellipse._iterative, Ellipse._non_iterative = stub_it, wrap_non
    got = None
    try:
        iso = Ellipse(_LOOP_IMG, EllipseGeometry(60.0, 60.0, sma0, 0.2, 0.6)).fit_image(sma0=sma0, minsma=rq['minsma'], maxsma=rq['maxsma'], step=step, maxrit=rq.get('maxrit'))
        got = [[expo(i.sma), int(i.stop_code), 0 if i.sma == 0.0 else gid(i.sample.geometry)] for i in iso]
    except _Budget:
        problems.append('fit_image asks for more fits than the model behaviour has')
    except Exception as e:  # noqa
        problems.append('fit_image raises ' + repr(e))
    finally:
        Ellipse._iterative, Ellipse._non_iterative = orig_it, orig_non
    fits = [q for q in calls if q[0] != -1000]
    if not problems:
        want = [list(x) for x in c['final']]
        if [q[0] for q in fits] != [x[0] for x in script]:
            problems.append('requested sma exponents differ from the model behaviour')
        elif any(q[2] != (x[1] == 4) for q, x in zip(fits, script)):
            problems.append('non-iterative mode requested where the model is iterative (or the reverse)')
        elif [q[3] for q in fits] != [x[2] for x in script]:
            problems.append('a fit starts from another geometry than the model says (the last isophote of the list)')
        elif [x[:2] for x in got] != [x[:2] for x in want]:
            problems.append('returned list differs from the model list')
        elif [x[2] for x in got if x[0] != -1000] != [x[2] for x in want if x[0] != -1000]:
            problems.append('a returned isophote carries another geometry than the model says (repair of a failed fit)')
        elif (sum(1 for q in calls if q[0] == -1000) == 1) != (c['MinZero'] and bool(c['final'])):
            problems.append('central isophote requested although minsma > 0 (or not requested for minsma = 0)')
    if problems:
        return [('loop_replay:' + problems[0].split(' (')[0].replace(' ', '_'), sig, {'behaviour': c, 'requested': calls, 'returned': got})]
    return []


def rec_scale(seed):
    """the same galaxy in other flux units (exact power-of-two factors, down to ~1e-21 and up to ~1e12): the fitted geometry is the same
    and the intensities scale"""
    from photutils.isophote import Ellipse, EllipseGeometry
    warnings.simplefilter('ignore')
    rng = random.Random(seed)
    eps, pa, law = rng.choice([0.15, 0.35]), rng.uniform(0.3, 2.8), rng.choice(['exp', 'gauss', 'sersic'])
    img = galaxy(eps, pa, law, 45.3, 44.6)
    k = rng.choice([2.0 ** -70, 2.0 ** -50, 2.0 ** 40])
    mode = rng.choice(['bilinear', 'nearest_neighbor', 'median'])
    fit = lambda im: Ellipse(im, EllipseGeometry(45.8, 44.2, 10.0, eps + 0.05, pa + 0.1)).fit_image(sma0=10.0, minsma=4.0, maxsma=30.0, step=0.2, integrmode=mode)  # noqa
    a, b = fit(img), fit(img * k)
    dev = 0.0
    if len(a) != len(b) or len(a) == 0:
        dev = 10.0
    else:
        for i, j in zip(a, b):
            dev = max(dev, abs(i.sma - j.sma), abs(i.x0 - j.x0), abs(i.y0 - j.y0), abs(i.eps - j.eps), abs(i.pa - j.pa), abs(j.intens / k - i.intens) / abs(i.intens),
                      float(i.stop_code != j.stop_code))
    return {'id': 3 * 10**7 + seed, 'kind': 'scale', 'maxdev': int(round(min(dev, 10.0) * 10**6)), 'params': {'law': law, 'mode': 'scale:' + mode, 'eps': int(eps * 100), 'fix': 'none', 'pa': 1},
            'factor_log2': int(round(math.log2(k))), 'n': [len(a), len(b)]}


def rec_polar(seed):
    from photutils.isophote import EllipseGeometry
    rng = random.Random(seed)
    g = EllipseGeometry(rng.uniform(20, 40), rng.uniform(20, 40), rng.uniform(3, 15), rng.uniform(0.0, 0.85), rng.uniform(-4, 4))
    if seed % 2:      # centre on a pixel: whole rows / columns of an index grid lie exactly on the axes through the centre
        g = EllipseGeometry(float(rng.randint(20, 40)), float(rng.randint(20, 40)), rng.uniform(3, 15), rng.uniform(0.0, 0.85), rng.choice([0.0, rng.uniform(-4, 4)]))
    pts = [(rng.uniform(0, 60), rng.uniform(0, 60)) for _ in range(40)] + [(g.x0, g.y0), (g.x0 + 3.0, g.y0), (g.x0, g.y0 - 2.0), (g.x0 - 3.0, g.y0), (g.x0 - 1.0, g.y0),
                                                                             (g.x0, g.y0 + 2.0), (g.x0 - 2.0, g.y0 - 2.0), (g.x0 - 2.0, g.y0 + 2.0)]
    xs = np.array([p[0] for p in pts]); ys = np.array([p[1] for p in pts])
    ra, pa = g.to_polar(xs, ys)
    ra, pa = np.ravel(ra), np.ravel(pa)
    dev = 0.0
    for k, (px, py) in enumerate(pts):
        r1, p1 = g.to_polar(px, py)
        dev = max(dev, abs(float(r1) - float(ra[k])))
        dp = abs(float(p1) - float(pa[k])) % (2 * math.pi)
        dev = max(dev, min(dp, 2 * math.pi - dp) if float(ra[k]) > 1e-9 else 0.0)
    return {'id': 10**7 + seed, 'kind': 'polar', 'maxdev': int(round(min(dev, 10.0) * 10**6))}


def run(ctx):
    q = ctx.quick
    ctx.rule = ('TLC-enumerated lattice eps {0.05,0.1,0.2,0.5,0.8} x 8 position angles x {Gaussian, exponential, Sersic} x fix flags x integration (bilinear, nearest, mean, median) / growth '
                'modes x 2 centres x {square, wide, tall, near the left / bottom border, large (sma to 65)} frames x first guess {near, perpendicular PA (round galaxies)}, a seeded stratified sample of which is fitted with fit_image from a perturbed start; non-trivial = eps >= 0.2 or a fix flag set')
    for cfg in ('MC_IsoGrowth.cfg', 'MC_IsoGrowth_rit.cfg', 'MC_IsoGrowth_rit_nomax.cfg', 'MC_IsoGrowth_lin.cfg', 'MC_IsoGrowth_inside.cfg', 'MC_IsoGrowth_outside.cfg') + (() if q else ('MC_IsoGrowth_t.cfg',)):
        r = ctx.mc('IsoGrowth', cfg, timeout=1800, workers=4)
    # the loop as it stood in the pinned tree must be REJECTED by TLC: it re-tries an invalid outward fit for ever and indexes an empty list
    for cfg, what in (('MC_IsoGrowth_pinned_live.cfg', 'Termination'), ('MC_IsoGrowth_pinned_crash.cfg', 'NoCrash')):
        r = ctx.mc('IsoGrowth', cfg, workers=2, expect_hold=False, check_ok=False)
        if not r.violated:
            raise core.Machinery(f'vacuity guard: TLC accepted the pinned growth loop ({what})')
    # spec -> code: every complete behaviour of the machine through the real control flow (stubbed fit_isophote)
    beh = []
    for tag in ('a', 'b', 'c', 'd', 'e'):
        g = ctx.tlc('IsoGrowthGen', f'GEN_IsoGrowth_{tag}.cfg', part=f'GEN:IsoGrowth/{tag}', workers=1)
        for r in g.records:
            if r.get('_tag') == 'GEN':
                r['cfg'] = tag; beh.append(r)
    if len(beh) < 5000:
        raise core.Machinery(f'IsoGrowthGen produced only {len(beh)} behaviours')
    if q:
        rs = random.Random(ctx.seed); rs.shuffle(beh); beh = beh[:2500]
    for vs in core.pmap(replay_loop, list(enumerate(beh)), chunksize=32):
        for v in vs:
            ctx.violation(*v)
    ctx.evaluations += len(beh); ctx.traces += len(beh); ctx.nontrivial += sum(1 for b in beh if any(x[1] not in (0, 2) for x in b['calls']))
    ctx.parts['loop_replay'] = {'behaviours': len(beh), 'configs': list(GEN_LOOP)}
    loops = core.pmap(rec_loop, [ctx.seed * 7001 + k for k in range(160 if q else 2400)], chunksize=2, on_raise='drop')
    lver = core.validate_batch(ctx, 'Trace_IsoGrowth', loops, 'Trace:IsoGrowth')
    for r in loops:
        v = lver[r['id']]
        if not v['ok']:
            rq = r['request']
            ctx.violation('loop:' + v['clause'], {'law': r['params']['law'], 'mode': r['params']['mode'], 'linear': rq['linear'], 'has_maxsma': bool(rq['maxsma']),
                                                  'minsma_zero': rq['minsma'] == 0.0, 'has_maxrit': bool(rq.get('maxrit')), 'kind': 'loop'}, {'case': r, 'rejected_at_event': v.get('at')})
        else:
            ctx.traces += 1
    ctx.evaluations += len(loops); ctx.nontrivial += sum(1 for r in loops if any(c['code'] not in (0, 2) for c in r['calls']))
    ctx.parts['loop_traces'] = {'runs': len(loops), 'calls': sum(len(r['calls']) for r in loops),
                                'codes': {str(c): sum(1 for r in loops for e in r['calls'] if e['code'] == c) for c in (-1, 0, 1, 2, 3, 4, 5)}}
    # binding self-test: drop one call / change one code of an accepted trace
    lgood = [r for r in loops if lver[r['id']]['ok'] and len(r['calls']) > 4][:4]
    lbad = []
    for kk, r in enumerate(lgood):
        r2 = core.jcopy(r); r2['id'] = 10**9 + 100 + kk
        if kk % 2:
            del r2['calls'][2]
        else:
            r2['final'][1][0] += 7
        lbad.append(r2)
    for kk, r in enumerate(lgood[:2]):      # geometry flow: a fit that starts from another geometry / a returned isophote that carries another one
        r2 = core.jcopy(r); r2['id'] = 10**9 + 200 + kk
        if kk % 2:
            r2['calls'][2]['gs'] += 50
        else:
            r2['final'][1][2] += 50
        lbad.append(r2)
    if lbad:
        vb = core.validate_batch(ctx, 'Trace_IsoGrowth', lbad, 'SelfTest:IsoGrowth', shards=1)
        ctx.selftest('dropped call / altered returned exponent / altered start or returned geometry in accepted fit_image traces', all(not v['ok'] for v in vb.values()))
    g = ctx.tlc('IsoParams', 'GEN_IsoParams.cfg', part='GEN:IsoParams', workers=1)
    lat = [r for r in g.records if r.get('_tag') == 'GEN']
    rng = random.Random(ctx.seed)
    rng.shuffle(lat)
    # stratified: a quarter of the sample starts with the position angle perpendicular to the truth
    perp = [c for c in lat if c.get('start') == 'perp']
    edge = [c for c in lat if c.get('start') != 'perp' and c['frame'] in ('nearleft', 'nearbottom', 'largeleft', 'largebottom')]
    edge.sort(key=lambda c: c['frame'].startswith('large') and c['mode'] in ('mean', 'median'), reverse=True)       # large sectors first
    large = [c for c in lat if c.get('start') != 'perp' and c['frame'] == 'large']
    large.sort(key=lambda c: c.get('start') == 'round', reverse=True)
    large = large[:3] + [c for c in large[3:] if c.get('start') != 'round']      # a few flat galaxies from round guesses first
    near = [c for c in lat if c.get('start') != 'perp' and c['frame'] not in ('nearleft', 'nearbottom', 'large', 'largeleft', 'largebottom')]
    lingeo = [c for c in near if c['mode'] == 'linear_geometry']
    near = [c for c in near if c['mode'] != 'linear_geometry']
    nq = 96 if q else 1200
    lat = near[: nq - nq // 4 - nq // 8 - nq // 12] + perp[: nq // 4] + edge[: nq // 8] + large[: nq // 12] + lingeo[: nq // 16]
    recs = core.pmap(rec_fit, list(enumerate(lat)), chunksize=1, on_raise='drop')
    recs += [rec_polar(ctx.seed * 100 + k) for k in range(40 if q else 400)]
    recs += core.pmap(rec_scale, [ctx.seed * 911 + k for k in range(16 if q else 160)], procs=16, chunksize=1, on_raise='drop')
    ver = core.validate_batch(ctx, 'Trace_Iso', recs, 'Trace:Iso')
    for r in recs:
        v = ver[r['id']]
        if not v['ok']:
            p = r.get('params', {})
            ctx.violation(v['clause'], {'law': p.get('law'), 'fix': p.get('fix'), 'mode': p.get('mode'), 'eps': p.get('eps'), 'pa_is_zero': p.get('pa') == 0, 'kind': r['kind']}, {'case': r})
        else:
            ctx.traces += 1
    ctx.evaluations += len(recs); ctx.nontrivial += sum(1 for r in recs if r['kind'] == 'fit' and (r['params']['eps'] >= 20 or r['params']['fix'] != 'none'))
    ex = next(r for r in recs if r['kind'] == 'fit' and not r['raised'])
    ctx.sample({'params': ex['params'], 'sma': ex['sma'][:8], 'well': ex['well'][:8], 'eps': ex['eps'][:8]})
    good = [r for r in recs if ver[r['id']]['ok'] and r['kind'] == 'fit' and not r['raised'] and len(r['sma']) > 3][:3]
    bad = []
    for k, r in enumerate(good):
        r2 = core.jcopy(r); r2['id'] = 10**9 + k
        r2['sma'][1], r2['sma'][2] = r2['sma'][2], r2['sma'][1]
        bad.append(r2)
    vb = core.validate_batch(ctx, 'Trace_Iso', bad, 'SelfTest:Iso', shards=1)
    ctx.selftest('two isophotes swapped (list not sorted)', all(not v['ok'] for v in vb.values()))
    ctx.assumptions += ['recovery tolerances: 3 sigma (reported) + 0.05 px / 0.02 eps / 0.03 rad, intensity 2 % (5 % with nearest-neighbour sampling), model 3 % inside 7 <= r <= 20 px (outermost pixel ring of the frame excluded)',
                        'behaviour on noisy or non-elliptical images is not decided']


def replay(ctx, rep):
    print(json.dumps(rep, indent=1, default=str)[:6000])
