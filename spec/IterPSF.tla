------------------------------- MODULE IterPSF -------------------------------
(***************************************************************************)
(* IterativePSFPhotometry as a state machine (C12).                        *)
(*                                                                         *)
(* A scene is a forest of CHAINS: chain c holds Depth[c] sources, source   *)
(* <<c, d>> (d >= 2) being a faint companion hidden in the wing of         *)
(* <<c, d-1>>; it only becomes detectable once <<c, d-1>> has been fitted  *)
(* and subtracted.  Chains 1 and 2 may be TWINS: their sources of equal    *)
(* depth lie within the grouper separation of each other.                  *)
(*                                                                         *)
(* The photometry loop (photometry.py, IterativePSFPhotometry.__call__):   *)
(*   iteration 1 fits the sources found on the data;                       *)
(*   iteration k > 1 runs the finder on the residual image; no detection   *)
(*   ends the loop; mode "new" fits the new sources on the residual and    *)
(*   APPENDS them (ids and group ids continue after the current maxima);   *)
(*   mode "all" re-fits old + new sources on the data and REPLACES the     *)
(*   table (ids 1..N, groups recomputed over all sources).                 *)
(*                                                                         *)
(* blocks[k] = set of sources first fitted in iteration k; the table lists *)
(* blocks in order (order inside a block is the finder's).  groups = the   *)
(* partition of the fitted sources into fit groups as reported in the      *)
(* table.  Every state with it >= 1 is the predicted outcome of a run with *)
(* maxiters = it and is replayed into the real code.                       *)
(*                                                                         *)
(* Variant "offset_by_count" (group ids of a new block offset by the       *)
(* number of rows instead of the largest group id) and variant             *)
(* "regroup_new_only" (mode "all" grouping only the new sources) are wrong *)
(* designs that TLC must reject.                                           *)
(***************************************************************************)
EXTENDS Integers, Sequences, FiniteSets, TLC, Json, FiniteSetsExt, SequencesExt
CONSTANTS NChains, MaxDepth, MaxIters, Modes, Variant, Emit,
          AllowLoss   \* mode "all": a re-fitted source may wander off the image and is then removed before the next fit (observed in
                      \* recorded traces of crowded noisy scenes, see Trace_IterPSF); FALSE for the noise-free replay scenes
VARIABLES depth,    \* [1..NChains -> 1..MaxDepth]  (chosen initially, never changes)
          twin,     \* BOOLEAN: chains 1 and 2 are twins
          mode,     \* "new" / "all"
          it,       \* iterations performed (= the maxiters argument the state corresponds to)
          active,   \* FALSE once an iteration detected nothing
          blocks,   \* sequence of sets of sources
          gid,      \* [source -> group id] as written in the table
          gone      \* sources removed because their fit window left the image (mode "all" only)
vars == <<depth, twin, mode, it, active, blocks, gid, gone>>

Chains == 1..NChains
Nodes == {n \in Chains \X (1..MaxDepth) : n[2] <= depth[n[1]]}
Fitted(b) == UNION {b[k] : k \in 1..Len(b)}
\* two sources are within the grouper separation: companion of each other, or twins of equal depth
Linked(a, b) == \/ (a[1] = b[1] /\ (a[2] = b[2] + 1 \/ b[2] = a[2] + 1))
                \/ (twin /\ NChains >= 2 /\ {a[1], b[1]} = {1, 2} /\ a[2] = b[2])
RECURSIVE Reach(_, _)
Reach(S, U) == LET nxt == S \cup {b \in U : \E a \in S : Linked(a, b)} IN IF nxt = S THEN S ELSE Reach(nxt, U)
\* single-linkage groups of the set U
Partition(U) == {Reach({a}, U) : a \in U}

\* group ids are numbered by first appearance in table order; inside a block the order is the finder's, which the model
\* leaves open: any numbering that is a bijection onto lo+1..lo+|P| is allowed; the conformance harness checks first
\* appearance against the real row order.  Here: choose one canonical numbering (by smallest member).
Smallest(S) == CHOOSE a \in S : \A b \in S : a[1] < b[1] \/ (a[1] = b[1] /\ a[2] <= b[2])
Rank(g, P) == Cardinality({h \in P : LET x == Smallest(h)  y == Smallest(g) IN x[1] < y[1] \/ (x[1] = y[1] /\ x[2] < y[2])}) + 1
Number(P, lo) == [a \in UNION P |-> lo + Rank(CHOOSE g \in P : a \in g, P)]
MaxGid(f) == IF DOMAIN f = {} THEN 0 ELSE Max({f[a] : a \in DOMAIN f})

Init == /\ depth \in [Chains -> 1..MaxDepth] /\ twin \in BOOLEAN /\ mode \in Modes
        /\ it = 0 /\ active = TRUE /\ blocks = <<>> /\ gid = [a \in {} |-> 0] /\ gone = {}

Report == Emit => PrintT(<<"GEN", ToJson([depth |-> depth, twin |-> twin, mode |-> mode, maxiters |-> it',
                                           blocks |-> [k \in 1..Len(blocks') |-> SetToSeq(blocks'[k])],
                                           groups |-> SetToSeq({SetToSeq(g) : g \in {{a \in DOMAIN gid' : gid'[a] = v} : v \in {gid'[a] : a \in DOMAIN gid'}}}),
                                           stopped |-> ~active'])>>)

Iterate ==
  /\ it < MaxIters
  /\ it' = it + 1
  /\ LET new == {n \in Nodes : n[2] = Len(blocks) + 1} IN
     IF ~active \/ new = {}
     THEN active' = FALSE /\ UNCHANGED <<blocks, gid, gone>>    \* nothing detected: the loop ends, the table stays (nothing is removed either)
     ELSE /\ active' = TRUE
          /\ \E lost \in (IF AllowLoss /\ mode = "all" /\ Len(blocks) > 0 THEN SUBSET Fitted(blocks) ELSE {{}}) :
               /\ gone' = gone \cup lost
               /\ blocks' = Append([k \in 1..Len(blocks) |-> blocks[k] \ lost], new)
               /\ gid' = IF mode = "new" \/ Len(blocks) = 0
                         THEN \* new sources are grouped among themselves; their group ids continue after the largest one so far
                              gid @@ Number(Partition(new), IF Variant = "offset_by_count" THEN Cardinality(Fitted(blocks)) ELSE MaxGid(gid))
                         ELSE \* all remaining sources are fitted again: groups recomputed over old + new
                              IF Variant = "regroup_new_only" THEN gid @@ Number(Partition(new), MaxGid(gid))
                              ELSE Number(Partition((Fitted(blocks) \ lost) \cup new), 0)
  /\ UNCHANGED <<depth, twin, mode>>
  /\ Report
Next == Iterate
Spec == Init /\ [][Next]_vars

(******************************* properties ********************************)
TypeOK == it \in 0..MaxIters /\ DOMAIN gid = Fitted(blocks)
\* the table holds exactly the sources that become detectable within `it` iterations
TableComplete == Fitted(blocks) = {n \in Nodes : n[2] <= it} \ gone
\* iteration numbers are contiguous: block k holds the sources of depth k and is never empty
NoGaps == \A k \in 1..Len(blocks) : (blocks[k] # {} \/ gone # {}) /\ \A n \in blocks[k] : n[2] = k
\* group ids are exactly 1..G (no id is skipped or reused across blocks)
GidsContiguous == {gid[a] : a \in DOMAIN gid} = 1..Cardinality({gid[a] : a \in DOMAIN gid})
\* sources share a group id iff they are fitted together: mode "new" - linked within the same block; mode "all" - linked at all
GroupsAreFitGroups ==
  \A a, b \in DOMAIN gid : (gid[a] = gid[b]) <=>
      IF mode = "new" THEN a[2] = b[2] /\ b \in Reach({a}, blocks[a[2]]) ELSE b \in Reach({a}, Fitted(blocks))
\* mode "new": what earlier iterations reported is never touched again (the table of maxiters = k is a prefix of that of k + 1)
NewModeAppendOnly == [][mode = "new" => (\A k \in 1..Len(blocks) : blocks'[k] = blocks[k]) /\ (\A a \in DOMAIN gid : gid'[a] = gid[a]) /\ gone' = {}]_vars
\* once the finder returned nothing the result never changes
StoppedIsFinal == [][~active => UNCHANGED <<blocks, gid, gone>>]_vars
=============================================================================
