------------------------------ MODULE PSFModels ------------------------------
(***************************************************************************)
(* Image-based PSF models (C13), discrete part - exact.                    *)
(* GriddedPSFModel: ePSFs e[k] (integer arrays) at grid positions          *)
(* (gx[i], gy[j]); for a source at (x0, y0) (half-pixel units, U = 2) the  *)
(* bounding cell is found with the searchsorted-left / clip rule, x0, y0   *)
(* are clipped to the cell, and the value at an integer sample index       *)
(* (xi, yi) of the ePSF arrays is the bilinear blend                       *)
(*   SUM w_c * e_c[yi][xi] / norm,  w = (x1-x)(y1-y), (x-x0)(y1-y), ...    *)
(* so: equal to the stored ePSF on a grid point, a 2-point blend on a grid *)
(* line, the nearest edge value outside the grid.  ImagePSF is the 1x1     *)
(* special case: flux * data[yi][xi] inside, fill_value outside.           *)
(* The grid may be given in any order (Layouts are shuffled by the         *)
(* harness); ePSF k of the spec is the one at sorted position (i, j).      *)
(***************************************************************************)
EXTENDS Integers, Sequences, FiniteSets, FiniteSetsExt, SequencesExt, TLC, Json
CONSTANTS Layouts, XLo, XHi, Emit
U == 2
\* grid coordinates in pixels (cfg files cannot hold tuples): layout -> <<xs, ys>>
Grid(l) == CASE l = "2x2" -> <<<<0, 10>>, <<0, 8>>>> [] l = "3x2" -> <<<<0, 6, 14>>, <<0, 8>>>> [] l = "2x3" -> <<<<0, 10>>, <<0, 5, 12>>>>
             [] l = "3x3" -> <<<<0, 6, 14>>, <<0, 5, 12>>>> [] l = "5x3" -> <<<<0, 3, 6, 10, 14>>, <<0, 5, 12>>>>
\* searchsorted(grid, x, side='left') - 1, clipped to 0 .. n-2   (x in 1/U px, grid in px; 1-based index returned)
CellIdx(g, x) == LET k == Cardinality({i \in 1..Len(g) : U * g[i] < x}) - 1
                     c == IF k < 0 THEN 0 ELSE IF k > Len(g) - 2 THEN Len(g) - 2 ELSE k
                 IN c + 1
Clip(x, lo, hi) == IF x < lo THEN lo ELSE IF x > hi THEN hi ELSE x
\* weights over norm, in units 1/U^2: <<ll, lr, ul, ur>> and the four grid nodes <<i, j>>
Blend(l, x0, y0) ==
  LET gx == Grid(l)[1]  gy == Grid(l)[2]
      i == CellIdx(gx, x0)  j == CellIdx(gy, y0)
      xa == U * gx[i]  xb == U * gx[i + 1]  ya == U * gy[j]  yb == U * gy[j + 1]
      xc == Clip(x0, xa, xb)  yc == Clip(y0, ya, yb)
  IN [nodes |-> <<<<i, j>>, <<i + 1, j>>, <<i, j + 1>>, <<i + 1, j + 1>>>>,
      w |-> <<(xb - xc) * (yb - yc), (xc - xa) * (yb - yc), (xb - xc) * (yc - ya), (xc - xa) * (yc - ya)>>,
      norm |-> (xb - xa) * (yb - ya)]
VARIABLES lay, x0, y0, done
vars == <<lay, x0, y0, done>>
Init == lay \in Layouts /\ x0 \in (XLo - 8)..(XHi - 8) /\ y0 \in (XLo - 8)..(XHi - 8) /\ done = FALSE
Observe == ~done /\ done' = TRUE /\ UNCHANGED <<lay, x0, y0>>
           /\ (Emit => PrintT(<<"GEN", ToJson([layout |-> lay, gx |-> Grid(lay)[1], gy |-> Grid(lay)[2], x0 |-> x0, y0 |-> y0, blend |-> Blend(lay, x0, y0)])>>))
Spec == Init /\ [][Observe]_vars
B == Blend(lay, x0, y0)
WeightsSumToNorm == B.w[1] + B.w[2] + B.w[3] + B.w[4] = B.norm /\ \A k \in 1..4 : B.w[k] >= 0
OnGridPointOneStoredEPSF == (\E i \in 1..Len(Grid(lay)[1]), j \in 1..Len(Grid(lay)[2]) : x0 = U * Grid(lay)[1][i] /\ y0 = U * Grid(lay)[2][j])
                              => Cardinality({k \in 1..4 : B.w[k] # 0}) = 1
OnGridLineTwoPointBlend == ((\E i \in 1..Len(Grid(lay)[1]) : x0 = U * Grid(lay)[1][i]) \/ (\E j \in 1..Len(Grid(lay)[2]) : y0 = U * Grid(lay)[2][j]))
                              => Cardinality({k \in 1..4 : B.w[k] # 0}) <= 2
OutsideNearestEdge == (x0 <= U * Grid(lay)[1][1] /\ y0 <= U * Grid(lay)[2][1]) => (B.w[1] = B.norm /\ B.nodes[1] = <<1, 1>>)
=============================================================================
