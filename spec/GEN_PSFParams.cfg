SPECIFICATION Spec
CONSTANTS
  Models = {"CircularGaussianPRF", "GaussianPRF", "CircularGaussianPSF", "GaussianPSF", "CircularGaussianSigmaPRF", "MoffatPSF", "AiryDiskPSF"}
  Widths = {1, 2, 3, 4, 5}
  Thetas = {0, 2, 3, 6, 7}
  Shapes = {1, 2}
  Emit = TRUE
CHECK_DEADLOCK FALSE
