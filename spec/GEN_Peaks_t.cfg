SPECIFICATION Spec
CONSTANTS
  H = 3
  W = 3
  Vals = {0, 1, 2}
  FpKinds = {"box3", "cross", "box2"}
  Borders = {"none", "b01"}
  MaskKinds = {"none"}
  ThrVals = {1}
  Emit = TRUE
  Shard = 0
  NShards = 1
CHECK_DEADLOCK FALSE
