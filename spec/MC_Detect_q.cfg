SPECIFICATION Spec
CONSTANTS
  H = 2
  W = 3
  Vals = {0, 1, 2}
  ThrKinds = {"c0", "c1", "checker"}
  NPix = {1, 2, 3}
  Conns = {4, 8}
  BadKinds = {"none", "nan1", "maskrow"}
  Emit = FALSE
  Shard = 0
  NShards = 1
INVARIANT Sound
INVARIANT NoneIffEmpty
CHECK_DEADLOCK FALSE
