SPECIFICATION Spec
CONSTANTS
  Requests = {"a", "b", "c", "d"}
  Leaky = {"b"}
  Variant = "clean"
  MaxDepth = 3
  Emit = FALSE
INVARIANT NoResidue
PROPERTY ConfigStable
CHECK_DEADLOCK FALSE
