SPECIFICATION Spec
CONSTANTS
  NPos = 3
  Origins = {0, 2, 5}
  Variant = "rebuilt"
INVARIANT PerSource
CHECK_DEADLOCK FALSE
