SPECIFICATION Spec
CONSTANTS
  N = 5
  Variant = "argsort_ids"
INVARIANT OwnRow
CHECK_DEADLOCK FALSE
