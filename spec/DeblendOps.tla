----------------------------- MODULE DeblendOps -----------------------------
(* Operators shared by Deblend.tla (schedule model), Trace_Deblend.tla (event traces of real runs) and    *)
(* the Refines relation on recorded (input, output, parent->children map) triples (C06).                  *)
EXTENDS Integers, Sequences, FiniteSets, TLC, Json, SequencesExt, FiniteSetsExt, Pix

RECURSIVE SumKids(_, _)
SumKids(f, i) == IF i = 0 THEN 0 ELSE f[i] + SumKids(f, i - 1)
\* serial result: task i (in label order) with k_i > 0 children gets the next k_i fresh labels
SerialDmapOf(kd, n, maxlab0) ==
  {<<i, (maxlab0 + SumKids(kd, i - 1) + 1)..(maxlab0 + SumKids(kd, i))>> : i \in {j \in 1..n : kd[j] # 0}}

(************************ Refines(in, out, dmap, ...) **********************)
RangeOf(sq) == {sq[i] : i \in 1..Len(sq)}
Labels(L) == {L[p] : p \in DOMAIN L} \ {0}
SegOf(L, l) == {p \in DOMAIN L : L[p] = l}
Support(L) == {p \in DOMAIN L : L[p] # 0}
\* dm: set of <<parent, set of children>>
Parents(dm) == {x[1] : x \in dm}
Children(dm) == UNION {x[2] : x \in dm}
\* name of the first violated clause, or "ok".  relabel = FALSE: labels of untouched segments are kept and the
\* parent's label disappears; relabel = TRUE: out labels are 1..N and segments correspond by pixels.
RefinesClause(in, out, dm, npix, relabel) ==
  IF Support(in) # Support(out) THEN "support_unchanged"
  ELSE IF \E l \in Labels(out) : Cardinality({in[p] : p \in SegOf(out, l)}) # 1 THEN "child_inside_one_parent"
  ELSE IF \E x \in dm : Cardinality(x[2]) < 2 THEN "parent_split_into_two_or_more"
  ELSE IF ~(Children(dm) \subseteq Labels(out)) THEN "map_names_live_labels"
  ELSE IF \E x, y \in dm : x # y /\ x[2] \cap y[2] # {} THEN "children_disjoint"
  ELSE IF \E x \in dm : \E c \in x[2] : Cardinality(SegOf(out, c)) < npix THEN "child_at_least_npixels"
  ELSE IF \E x \in dm : \E c1, c2 \in x[2] : {in[p] : p \in SegOf(out, c1)} # {in[p] : p \in SegOf(out, c2)} THEN "children_partition_one_parent"
  ELSE IF \E x \in dm : LET par == CHOOSE q \in {in[p] : p \in SegOf(out, CHOOSE c \in x[2] : TRUE)} : TRUE
                        IN UNION {SegOf(out, c) : c \in x[2]} # SegOf(in, par) THEN "children_partition_one_parent"
  ELSE IF ~relabel /\ \E x \in dm : UNION {SegOf(out, c) : c \in x[2]} # SegOf(in, x[1]) THEN "map_matches_pixels"
  \* every input segment that is not the pixel set of a mapped parent is untouched
  ELSE IF \E l \in Labels(in) : (~\E x \in dm : UNION {SegOf(out, c) : c \in x[2]} = SegOf(in, l))
                                 /\ Cardinality({out[p] : p \in SegOf(in, l)}) # 1 THEN "untouched_segment_changed"
  ELSE IF ~relabel /\ \E l \in Labels(in) : (~\E x \in dm : x[1] = l) /\ SegOf(out, l) # SegOf(in, l) THEN "untouched_label_kept"
  ELSE IF relabel /\ Labels(out) # 1..Cardinality(Labels(out)) THEN "relabel_gap_free"
  ELSE "ok"
=============================================================================
