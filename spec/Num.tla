--------------------------------- MODULE Num ---------------------------------
(* Exact statistics of integer-valued functions on finite sets: sums, twice-the-median, integer sigma clipping by            *)
(* cross-multiplication (centre = median, spread = population standard deviation, keep |v - med| <= sigma * std).          *)
EXTENDS Integers, Sequences, FiniteSets, FiniteSetsExt, TLC
NAbs(x) == IF x < 0 THEN -x ELSE x
SumF(f, T) == FoldSet(LAMBDA p, acc : acc + f[p], 0, T)
SumSqF(f, T) == FoldSet(LAMBDA p, acc : acc + f[p] * f[p], 0, T)
Median2(f, T) ==
  LET n == Cardinality(T)
      rank(p) == Cardinality({q \in T : f[q] < f[p]})
      ge(p) == Cardinality({q \in T : f[q] <= f[p]})
      kth(k) == f[CHOOSE p \in T : rank(p) < k /\ k <= ge(p)]
  IN IF n % 2 = 1 THEN 2 * kth((n + 1) \div 2) ELSE kth(n \div 2) + kth(n \div 2 + 1)
ClipOnce(f, T, sig) ==
  LET n == Cardinality(T)  m2 == Median2(f, T)  q == n * SumSqF(f, T) - SumF(f, T) * SumF(f, T)
  IN {p \in T : (2 * f[p] - m2) * (2 * f[p] - m2) * n * n <= 4 * sig * sig * q}
ClipTie(f, T, sig) ==
  LET n == Cardinality(T)  m2 == Median2(f, T)  q == n * SumSqF(f, T) - SumF(f, T) * SumF(f, T)
  IN \E p \in T : (2 * f[p] - m2) * (2 * f[p] - m2) * n * n = 4 * sig * sig * q /\ q > 0
RECURSIVE Clip(_, _, _, _)
Clip(f, T, sig, iters) == IF iters = 0 \/ T = {} THEN T ELSE LET T2 == ClipOnce(f, T, sig) IN IF T2 = T THEN T ELSE Clip(f, T2, sig, iters - 1)
RECURSIVE AnyClipTie(_, _, _, _)
AnyClipTie(f, T, sig, iters) == IF iters = 0 \/ T = {} THEN FALSE ELSE ClipTie(f, T, sig) \/ (LET T2 == ClipOnce(f, T, sig) IN T2 # T /\ AnyClipTie(f, T2, sig, iters - 1))
=============================================================================
