------------------------------ MODULE PSFParams ------------------------------
(* Parameter lattice of the analytic PSF/PRF models (C13) and the acceptance predicate for the recorded projections.          *)
(* GEN: TLC enumerates model x width x sub-pixel centre x rotation x shape parameter; the harness evaluates the real model    *)
(* and records projections in fixed point (S = 2^16, relative to the flux).  Trace: TLC accepts or rejects each record.        *)
EXTENDS Integers, Sequences, FiniteSets, TLC, Json, IOUtils
CONSTANTS Models, Widths, Thetas, Shapes, Emit
S == 65536
VARIABLES m, wd, cx, cy, th, sp, done
vars == <<m, wd, cx, cy, th, sp, done>>
Init == m \in Models /\ wd \in Widths /\ cx \in 0..3 /\ cy \in {0, 1, 2} /\ th \in Thetas /\ sp \in Shapes /\ done = FALSE
Observe == ~done /\ done' = TRUE /\ UNCHANGED <<m, wd, cx, cy, th, sp>>
           /\ (Emit => PrintT(<<"GEN", ToJson([model |-> m, width |-> wd, cx |-> cx, cy |-> cy, theta |-> th, shape |-> sp])>>))
Spec == Init /\ [][Observe]_vars
=============================================================================
