SPECIFICATION Spec
CONSTANTS
  Requests = {"a", "b", "c", "d"}
  Leaky = {"b"}
  Variant = "sticky"
  MaxDepth = 3
  Emit = FALSE
INVARIANT NoResidue
PROPERTY ConfigStable
CHECK_DEADLOCK FALSE
