----------------------------- MODULE IsoGrowthGen -----------------------------
(***************************************************************************)
(* Behaviour generator for IsoGrowth.tla (C20, spec -> code): every        *)
(* complete behaviour of the repaired loop machine - the sequence of       *)
(* (exponent, stop code) steps up to the returned list - is printed once   *)
(* and replayed into the real Ellipse.fit_image with fit_isophote replaced *)
(* by a stub that returns real Isophote objects carrying the dictated stop *)
(* codes.  hist is a history variable (no VIEW: distinct histories are     *)
(* distinct states, which is what makes every behaviour appear).           *)
(***************************************************************************)
EXTENDS IsoGrowth, Json
VARIABLES hist, emitted
gvars == <<phase, k, list, noiter, hist, emitted>>
GInit == Init /\ hist = <<>> /\ emitted = FALSE
GOut == \E c \in OutCodes(k) : FitOut(Par, c, FALSE) /\ hist' = Append(hist, <<k, c>>) /\ UNCHANGED emitted
GIn == \E c \in InCodes(k) : FitIn(Par, c) /\ hist' = Append(hist, <<k, c>>) /\ UNCHANGED emitted
GCentral == CentralAndSort(Par) /\ UNCHANGED <<hist, emitted>>
Emit == /\ phase = "done" /\ ~emitted
        /\ PrintT(<<"GEN", ToJson([calls |-> hist, final |-> [n \in 1..Len(list) |-> <<list[n].k, list[n].code>>],
                                   HasMax |-> HasMax, KMax |-> KMax, KMin |-> KMin, MinZero |-> MinZero, HasRit |-> HasRit, KRit |-> KRit])>>)
        /\ emitted' = TRUE /\ UNCHANGED <<phase, k, list, noiter, hist>>
GNext == GOut \/ GIn \/ GCentral \/ Emit
GSpec == GInit /\ [][GNext]_gvars
=============================================================================
