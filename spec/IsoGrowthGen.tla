----------------------------- MODULE IsoGrowthGen -----------------------------
(***************************************************************************)
(* Behaviour generator for IsoGrowth.tla (C20, spec -> code): every        *)
(* complete behaviour of the repaired loop machine - the sequence of       *)
(* (exponent, stop code) steps up to the returned list - is printed once   *)
(* and replayed into the real Ellipse.fit_image / fit_isophote /           *)
(* _non_iterative / _fix_last_isophote with only Ellipse._iterative (the   *)
(* numerical fitter) replaced by a stub that returns real Isophote objects *)
(* carrying the dictated stop codes.  hist is a history variable (no VIEW: *)
(* distinct histories are distinct states, which is what makes every       *)
(* behaviour appear).                                                      *)
(*                                                                         *)
(* GEOMETRY FLOW.  geo runs parallel to list: geo[j].born is the number of *)
(* the fit_isophote call that produced list[j], geo[j].g names the         *)
(* geometry (centre, eps, PA) the isophote carries.  0 is the user's first *)
(* guess.  A fit starts from the geometry of isophote_list[-1] (from 0     *)
(* when the list is empty - also the first inward fit therefore starts     *)
(* from the OUTERMOST isophote); an iterative fit ends with a fresh        *)
(* geometry named after its call number, a non-iterative one keeps the     *)
(* geometry it started from.  _fix_last_isophote replaces the geometry of  *)
(* a failed fit by that of the isophote BEFORE it in the list (outward) /  *)
(* of the first isophote of the list (inward), read after the failed one   *)
(* was popped.  NoDivergedGeometry: no returned isophote that had failed   *)
(* (code 5, or 1 on the outward pass - an inward 1 is left as it is) carries the geometry its own fit     *)
(* ended with.                                                             *)
(***************************************************************************)
EXTENDS IsoGrowth, Json
VARIABLES hist, emitted, geo
gvars == <<phase, k, list, noiter, hist, emitted, geo>>
GInit == Init /\ hist = <<>> /\ emitted = FALSE /\ geo = <<>>
StartG == IF list = <<>> THEN 0 ELSE Last(geo).g                         \* fit_isophote: isophote_list[-1].sample.geometry, else self._geometry
EndG(c) == IF c = 4 THEN StartG ELSE Len(hist) + 1                      \* _non_iterative keeps the geometry, the fitter moves it
\* geo' from list -> list' (list' is decided by FitOut / FitIn); ref = geometry a failed fit is repaired with
GeoStep(c, failed, ref) ==
  geo' = IF list' = <<>> THEN <<>>
         ELSE IF Len(list') = Len(list) + 1 THEN Append(geo, [born |-> Len(hist) + 1, g |-> IF failed THEN ref ELSE EndG(c)])
         ELSE geo
GOut == \E c \in OutCodes(k) : /\ FitOut(Par, c, FALSE) /\ hist' = Append(hist, <<k, c, StartG>>) /\ UNCHANGED emitted
                              /\ GeoStep(c, c < 0 \/ c = 1, IF geo = <<>> THEN 0 ELSE Last(geo).g)          \* _fix_last_isophote(isophote_list, -1)
GIn == \E c \in InCodes(k) : /\ FitIn(Par, c) /\ hist' = Append(hist, <<k, c, StartG>>) /\ UNCHANGED emitted
                            /\ GeoStep(c, c < 0, geo[1].g)                                                   \* _fix_last_isophote(isophote_list, 0)
\* the sort permutes geo with list (exponents are unique); the central isophote has no tracked geometry
GCentral == /\ CentralAndSort(Par) /\ UNCHANGED <<hist, emitted>>
            /\ geo' = [n \in 1..Len(list') |-> IF list'[n].k = Central THEN [born |-> 0, g |-> 0]
                                               ELSE geo[CHOOSE j \in 1..Len(list) : list[j].k = list'[n].k]]
Emit == /\ phase = "done" /\ ~emitted
        /\ PrintT(<<"GEN", ToJson([calls |-> hist, final |-> [n \in 1..Len(list) |-> <<list[n].k, list[n].code, geo[n].g>>],
                                   HasMax |-> HasMax, KMax |-> KMax, KMin |-> KMin, MinZero |-> MinZero, HasRit |-> HasRit, KRit |-> KRit])>>)
        /\ emitted' = TRUE /\ UNCHANGED <<phase, k, list, noiter, hist, geo>>
GNext == GOut \/ GIn \/ GCentral \/ Emit
GSpec == GInit /\ [][GNext]_gvars
GeoShape == Len(geo) = Len(list)
NoDivergedGeometry == phase = "done" => \A j \in 1..Len(list) : (list[j].k # Central /\ (list[j].code = 5 \/ (list[j].code = 1 /\ list[j].k > 0))) => geo[j].g # geo[j].born
=============================================================================
