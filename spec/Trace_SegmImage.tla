--------------------------- MODULE Trace_SegmImage ---------------------------
(* Validation of histories recorded from real SegmentationImage objects against SegmImage's effect       *)
(* functions.  One TLC run validates a batch: for trace `tid` the state (d, dm) is advanced event by      *)
(* event with EffData/EffDmap and every logged observation is compared; the first failing clause is       *)
(* reported and the next trace is started (verdicts are total).                                           *)
EXTENDS SegmOps, IOUtils

Traces == JsonDeserialize(IOEnv.TRACE_FILE)

VARIABLES tid, k, d, dm
tvars == <<tid, k, d, dm>>

DmapFromJ(j) == [q \in {j[i][1] : i \in 1..Len(j)} |-> RangeOf((CHOOSE x \in RangeOf(j) : x[1] = q)[2])]
Start(t) == /\ d' = FromRows(Traces[t].init) /\ dm' = DmapFromJ(Traces[t].dmap0) /\ k' = 1

ReadsOK(e, d2) ==
  /\ e.reads.labels = DLabels(d2)
  /\ e.reads.slices = DSlices(d2)
  /\ e.reads.areas = DAreas(d2)
  /\ e.reads.nlabels = DNLabels(d2)
  /\ e.reads.max_label = DMaxLabel(d2)
  /\ e.reads.is_consecutive = DIsConsec(d2)
  /\ e.reads.missing_labels = DMissing(d2)
  /\ e.reads.background_area = DBkgArea(d2)

\* name of the first failing clause of event e in state (d, dm), or "ok"
Clause(e) ==
  LET ev == e.ev
      valid == EvValid(d, ev)
      d2 == EffData(d, ev)
      dm2 == EffDmap(d, dm, ev)
  IN IF valid /\ e.raised THEN "valid_call_raises"
     ELSE IF ~valid /\ ~e.raised THEN "invalid_call_accepted"
     ELSE IF FromRows(e.data) # d2 THEN "data_effect"
     ELSE IF ~e.dtype_ok THEN "dtype_preserved"
     ELSE IF e.dmap # DmapJ(dm2) THEN "dmap_effect"
     ELSE IF ev.op = "source_mask" /\ {<<e.srcmask[j][1], e.srcmask[j][2]>> : j \in 1..Len(e.srcmask)} # Dilate(d2, {<<ev.offsets[j][1], ev.offsets[j][2]>> : j \in 1..Len(ev.offsets)})
          THEN "source_mask_is_dilation_of_support"
     ELSE IF ev.op = "copy_check" /\ FromRows(e.copy_data) # FromRows(e.copy_expected) THEN "copy_is_independent_of_later_mutations"
     ELSE IF ~e.reads_ok THEN "attr_read_raises"
     ELSE IF ~ReadsOK(e, d2) THEN "attr_values"
     ELSE IF IsReassignLike(ev) /\ valid /\ ev.relabel /\ LabelSet(d2) # 1..Cardinality(LabelSet(d2)) THEN "relabel_gap_free"
     ELSE "ok"

Verdict(ok, step, clause) == PrintT(<<"V", ToJson([id |-> Traces[tid].id, ok |-> ok, step |-> step, clause |-> clause])>>)

Init == tid = 1 /\ k = 1 /\ (IF Len(Traces) >= 1 THEN d = FromRows(Traces[1].init) /\ dm = DmapFromJ(Traces[1].dmap0)
                             ELSE d = <<>> /\ dm = <<>>)
NextTrace == /\ tid' = tid + 1
             /\ IF tid + 1 <= Len(Traces) THEN Start(tid + 1) ELSE UNCHANGED <<k, d, dm>>
Next ==
  /\ tid <= Len(Traces)
  /\ LET evs == Traces[tid].events IN
     IF k > Len(evs) THEN Verdict(TRUE, 0, "ok") /\ NextTrace
     ELSE LET c == Clause(evs[k]) IN
          IF c # "ok" THEN Verdict(FALSE, k, c) /\ NextTrace
          ELSE /\ d' = EffData(d, evs[k].ev) /\ dm' = EffDmap(d, dm, evs[k].ev) /\ k' = k + 1 /\ tid' = tid
TSpec == Init /\ [][Next]_tvars
=============================================================================
