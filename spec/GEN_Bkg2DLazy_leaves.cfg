SPECIFICATION Spec
CONSTANTS
  ThrKinds = {"none", "below_min", "selective", "selective_zero"}
  Variant = "delete_after_filter"
  MaxDepth = 3
  Emit = "leaves"
CHECK_DEADLOCK FALSE
