SPECIFICATION Spec
CONSTANTS
  H = 3
  W = 3
  Vals = {0, 1, 2}
  ThrKinds = {"c1", "colstep"}
  NPix = {1, 2, 4}
  Conns = {4, 8}
  BadKinds = {"none", "mask1"}
  Emit = TRUE
  Shard = 0
  NShards = 1
CHECK_DEADLOCK FALSE
