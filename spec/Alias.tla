--------------------------------- MODULE Alias ---------------------------------
(***************************************************************************)
(* No public call modifies what is passed to it (C10).                     *)
(* The caller owns a store of objects (arrays, masks, masked arrays,       *)
(* Quantities, kernels, footprints, tables, models, segmentation images,   *)
(* coordinate grids); identity of an object's content is an integer id     *)
(* assigned by the harness to its canonical byte string (dtype, shape,     *)
(* bytes, mask, unit, columns, parameters).  A PROGRAM is an entry point   *)
(* called with one argument representation under one data condition; the  *)
(* adapters also read every lazily evaluated public property.              *)
(* InputsUntouched: the store after the call (return or raise) equals the  *)
(* store before it.  TLC also owns the programs quantifier: Programs is    *)
(* the full product minus the combinations declared inapplicable here, and *)
(* a run is complete only if every program was executed (Missing = {}).    *)
(***************************************************************************)
EXTENDS Integers, Sequences, FiniteSets, TLC, Json, IOUtils
Entries == {"aperture_photometry", "do_photometry", "aperture_mask", "aperture_stats", "background2d", "local_background",
            "bkg_estimators", "detect_threshold", "detect_sources", "deblend_sources", "source_finder", "source_catalog", "source_mask",
            "find_peaks", "daofinder", "iraffinder", "starfinder", "centroids", "centroid_sources", "profiles", "psf_photometry",
            "iterative_psf", "grouper", "psf_models", "make_model_image", "isophote", "calc_total_error", "utils", "morphology",
            "image_depth", "epsf", "epsf_weights", "aperture_mask_edge",
            "aperture_photometry_subpixel", "sky_apertures", "annuli", "fit_gaussian", "psf_matching", "datasets", "harmonics", "interpolators", "segment_cutouts",
            "plotting"}
Reps == {"ndarray", "view", "masked", "quantity", "f4"}      \* f4: single-precision arrays (dtype-dispatched code paths)
Conds == {"clean", "nonfinite", "negative", "masked", "emptymask", "invalid"}
\* entry points that take no image (their own argument kinds are varied by the adapter instead)
NoImage == {"grouper", "psf_models", "make_model_image", "isophote", "source_mask"}
Applicable(e, r, c) == (e \in NoImage => (r = "ndarray" /\ c \in {"clean", "invalid"}))
Programs == {p \in Entries \X Reps \X Conds : Applicable(p[1], p[2], p[3])}

Cases == JsonDeserialize(IOEnv.TRACE_FILE)
VARIABLE i
Changed(c) == {k \in 1..Len(c.objects) : c.objects[k].pre # c.objects[k].post}
Clause(c) == IF <<c.entry, c.rep, c.cond>> \notin Programs THEN "unknown_program"
             ELSE IF Changed(c) # {} THEN "input_modified:" \o c.objects[CHOOSE k \in Changed(c) : TRUE].name
             ELSE "ok"
Init == i = 1
Next == /\ i <= Len(Cases)
        /\ LET cl == Clause(Cases[i]) IN PrintT(<<"V", ToJson([id |-> Cases[i].id, ok |-> (cl = "ok"), clause |-> cl])>>)
        /\ i' = i + 1
TSpec == Init /\ [][Next]_i
\* completeness of the programs quantifier (run on the list of all executed programs)
Executed == {<<Cases[k].entry, Cases[k].rep, Cases[k].cond>> : k \in 1..Len(Cases)}
Missing == Programs \ Executed
Complete == Missing = {}
=============================================================================
