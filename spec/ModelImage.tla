------------------------------ MODULE ModelImage ------------------------------
(***************************************************************************)
(* make_model_image (C18): the rendered image is the exact superposition  *)
(* of its table rows.  The harness renders a LINEAR PROBE MODEL            *)
(*     flux * (A + b (x - x_0) + c (y - y_0)),  b = 4 B, c = 4 C           *)
(* which is integer-valued on integer pixel grids for centres on the       *)
(* quarter-pixel lattice, and whose pixel average equals its centre value, *)
(* so every discretisation method must give the same integers.             *)
(* Row = [x4, y4 (centre in quarter pixels), flux, bkg, mh, mw].           *)
(* Window = astropy overlap_slices(shape, (mh, mw), (y0, x0), 'trim').     *)
(***************************************************************************)
EXTENDS CentroidOps
CONSTANTS H, W, A, B, C, RowIds, MaxRows, Emit
VARIABLES rows, done
vars == <<rows, done>>
\* the pool of candidate rows (cfg files cannot hold records)
RowOf(k) == CASE k = 1 -> [x4 |-> 8,  y4 |-> 8,  flux |-> 1, bkg |-> 0, mh |-> 3, mw |-> 3]     \* inside, odd window
              [] k = 2 -> [x4 |-> 10, y4 |-> 6,  flux |-> 3, bkg |-> 2, mh |-> 2, mw |-> 4]     \* half-integer x, even window
              [] k = 3 -> [x4 |-> 0,  y4 |-> 0,  flux |-> 2, bkg |-> 1, mh |-> 3, mw |-> 3]     \* corner pixel: window clipped
              [] k = 4 -> [x4 |-> 19, y4 |-> 13, flux |-> 1, bkg |-> 5, mh |-> 5, mw |-> 3]     \* straddles the upper right edge
              [] k = 5 -> [x4 |-> -8, y4 |-> 6,  flux |-> 4, bkg |-> 3, mh |-> 3, mw |-> 3]     \* outside on the left: skipped
              [] k = 6 -> [x4 |-> 9,  y4 |-> 40, flux |-> 2, bkg |-> 7, mh |-> 3, mw |-> 3]     \* outside above: skipped
              [] k = 7 -> [x4 |-> -4, y4 |-> 7,  flux |-> 5, bkg |-> 0, mh |-> 3, mw |-> 4]     \* centre outside, window reaches in
              [] k = 8 -> [x4 |-> 7,  y4 |-> 9,  flux |-> 1, bkg |-> 4, mh |-> 1, mw |-> 1]     \* single pixel window
              [] k = 9 -> [x4 |-> 12, y4 |-> 8,  flux |-> 2, bkg |-> 0, mh |-> 9, mw |-> 9]     \* window larger than the image
Win(r) == [y0 |-> LargeLo(r.y4, r.mh, H), y1 |-> LargeHi(r.y4, r.mh, H), x0 |-> LargeLo(r.x4, r.mw, W), x1 |-> LargeHi(r.x4, r.mw, W)]
Overlaps(r) == Win(r).y0 < Win(r).y1 /\ Win(r).x0 < Win(r).x1
InWin(p, r) == Overlaps(r) /\ Win(r).y0 <= p[1] /\ p[1] < Win(r).y1 /\ Win(r).x0 <= p[2] /\ p[2] < Win(r).x1
Eval(r, p) == r.flux * (A + B * (4 * p[2] - r.x4) + C * (4 * p[1] - r.y4))
RECURSIVE Render(_, _)
Render(rs, p) == IF rs = <<>> THEN 0 ELSE (IF InWin(p, Head(rs)) THEN Eval(Head(rs), p) + Head(rs).bkg ELSE 0) + Render(Tail(rs), p)
Image(rs) == [p \in Grid(H, W) |-> Render(rs, p)]
AnyOverlap(rs) == \E i \in 1..Len(rs) : Overlaps(rs[i])

Seqs == UNION {[1..n -> RowIds] : n \in 0..MaxRows}
Init == rows \in {s \in Seqs : \A i, j \in 1..Len(s) : i # j => s[i] # s[j]} /\ done = FALSE
RowsJ == [i \in 1..Len(rows) |-> RowOf(rows[i])]
Observe == /\ ~done /\ done' = TRUE /\ UNCHANGED rows
           /\ (Emit => PrintT(<<"GEN", ToJson([rows |-> RowsJ, ids |-> rows, image |-> ToRows(Image(RowsJ), H, W), any_overlap |-> AnyOverlap(RowsJ),
                                                windows |-> [i \in 1..Len(rows) |-> Win(RowOf(rows[i]))]])>>))
Spec == Init /\ [][Observe]_vars
\* declarative consequences of the superposition (design level)
Perm(s) == [i \in 1..Len(s) |-> s[Len(s) + 1 - i]]
OrderInvariant == Image(RowsJ) = Image(Perm(RowsJ))
Additive == \A k \in 0..Len(rows) : \A p \in Grid(H, W) :
              Image(RowsJ)[p] = Image(SubSeq(RowsJ, 1, k))[p] + Image(SubSeq(RowsJ, k + 1, Len(rows)))[p]
SkippedRowsContributeNothing == Image(RowsJ) = Image(SelectSeq(RowsJ, Overlaps))
=============================================================================
