SPECIFICATION Spec
CONSTANTS
  PosIds = {1, 2, 3}
  SizeIds = {1, 2}
  ThetaIds = {1, 2, 3}
  Reads = {"shape", "bbox", "mask", "phot", "area"}
  InheritedReads = {"shape"}
  Variant = "skip_inherited"
  MaxDepth = 5
  Emit = FALSE
VIEW View
INVARIANT Coherent
CHECK_DEADLOCK FALSE
