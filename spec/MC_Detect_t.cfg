SPECIFICATION Spec
CONSTANTS
  H = 3
  W = 3
  Vals = {0, 1, 2}
  ThrKinds = {"c1"}
  NPix = {1, 2, 4}
  Conns = {4, 8}
  BadKinds = {"none"}
  Emit = FALSE
  Shard = 0
  NShards = 1
INVARIANT Sound
INVARIANT NoneIffEmpty
CHECK_DEADLOCK FALSE
