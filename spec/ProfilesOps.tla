----------------------------- MODULE ProfilesOps -----------------------------
(* CurveOfGrowth / RadialProfile versus circular-aperture photometry (C19), 'center' method on integer     *)
(* images.  Coordinates are integers in units of 1/Q pixel (Q = 4): a pixel <<row, col>> has its centre at   *)
(* (x, y) = (Q*col, Q*row).  `bad` = masked or non-finite pixels.                                             *)
EXTENDS Integers, Sequences, FiniteSets, FiniteSetsExt, SequencesExt, TLC, Json, Pix
Q == 4
D2(p, cx, cy) == (Q * p[2] - cx) * (Q * p[2] - cx) + (Q * p[1] - cy) * (Q * p[1] - cy)
\* strict membership and membership including the boundary (a centre exactly on the circle is a tie: don't-care)
Inside(d, bad, cx, cy, r, closed) == {p \in DOMAIN d : p \notin bad /\ (IF closed THEN D2(p, cx, cy) <= r * r ELSE D2(p, cx, cy) < r * r)}
SumOver(f, S) == FoldSet(LAMBDA p, acc : acc + f[p], 0, S)
SumSq(f, S) == FoldSet(LAMBDA p, acc : acc + f[p] * f[p], 0, S)
\* the aperture's minimal bounding box [floor(c-r+1/2), ceil(c+r+1/2)) misses the image: photometry is NaN (see BBox.tla / C01, C02)
CeilDiv(a, b) == -((-a) \div b)
NoOverlap(d, cx, cy, r) ==
  LET h == Cardinality({p[1] : p \in DOMAIN d})  w == Cardinality({p[2] : p \in DOMAIN d})
  IN r > 0 /\ (\/ CeilDiv(cx + r + 2, Q) <= 0 \/ (cx - r + 2) \div Q >= w
               \/ CeilDiv(cy + r + 2, Q) <= 0 \/ (cy - r + 2) \div Q >= h)
\* curve of growth at radius r (r = 0 gives zeros; no overlap gives NaN)
Cog(d, e, bad, cx, cy, r, closed) ==
  LET S == IF r = 0 THEN {} ELSE Inside(d, bad, cx, cy, r, closed)
  IN [flux |-> SumOver(d, S), err2 |-> SumSq(e, S), area |-> Cardinality(S), nan |-> NoOverlap(d, cx, cy, r)]
CogSeq(d, e, bad, cx, cy, radii, closed) == [i \in 1..Len(radii) |-> Cog(d, e, bad, cx, cy, radii[i], closed)]
\* radial profile bin i between radii[i] and radii[i+1]: differences of the curve of growth
RpSeq(d, e, bad, cx, cy, radii, closed) ==
  LET c == CogSeq(d, e, bad, cx, cy, radii, closed)
  IN [i \in 1..(Len(radii) - 1) |-> [dflux |-> c[i+1].flux - c[i].flux, derr2 |-> c[i+1].err2 - c[i].err2, darea |-> c[i+1].area - c[i].area,
                                     nan |-> c[i].nan \/ c[i+1].nan]]
HasTie(d, bad, cx, cy, radii) == \E i \in 1..Len(radii) : \E p \in DOMAIN d : p \notin bad /\ D2(p, cx, cy) = radii[i] * radii[i]

(* declarative consequences *)
\* constant image (no bad pixels inside): every bin with non-zero area has dflux = const * darea
ConstantGivesConstant(d, e, bad, cx, cy, radii, k) ==
  (\A p \in DOMAIN d : d[p] = k) => \A i \in 1..(Len(radii) - 1) :
      LET b == RpSeq(d, e, bad, cx, cy, radii, FALSE)[i] IN b.dflux = k * b.darea
\* non-negative data: the curve of growth is non-decreasing (radii increasing)
NonNegMonotone(d, e, bad, cx, cy, radii) ==
  (\A p \in DOMAIN d : d[p] >= 0) => \A i \in 1..(Len(radii) - 1) :
      CogSeq(d, e, bad, cx, cy, radii, FALSE)[i].flux <= CogSeq(d, e, bad, cx, cy, radii, FALSE)[i+1].flux
=============================================================================
