SPECIFICATION Spec
CONSTANTS
  Sma0 = 1000
  Step = 20
  Linear = FALSE
  MinSma = 300
  MaxSma = 2500
  Codes = {0, 1, 2, 5}
  MaxLen = 9
INVARIANT NoDuplicates
INVARIANT WithinBounds
CHECK_DEADLOCK FALSE
