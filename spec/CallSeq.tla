------------------------------- MODULE CallSeq -------------------------------
(***************************************************************************)
(* Repeated calls of one configured object (C09): PSFPhotometry,           *)
(* IterativePSFPhotometry, the star finders, Ellipse, GriddedPSFModel.     *)
(* Abstractly an object is its configuration; Call(r) returns F(config, r) *)
(* and leaves the configuration alone, so every history of calls returns   *)
(* what fresh objects return.  `residue` is whatever a call leaves behind  *)
(* in the instance that a later call can observe (a grouper set to None, a *)
(* fix flag left on a geometry, a per-call result not reset).  REQUIRED:   *)
(* residue stays empty.  Variant "sticky" (calls in Leaky leave residue)   *)
(* is rejected by TLC - vacuity guard and description of the defect class. *)
(* TLC's main role here is the histories quantifier: every sequence of     *)
(* MaxDepth requests is generated for replay on one real instance.         *)
(***************************************************************************)
EXTENDS Integers, Sequences, FiniteSets, TLC, Json
CONSTANTS Requests, Leaky, Variant, MaxDepth, Emit
VARIABLES hist, residue
vars == <<hist, residue>>
Call(r) == /\ Len(hist) < MaxDepth
           /\ hist' = Append(hist, r)
           /\ residue' = IF Variant = "sticky" /\ r \in Leaky THEN residue \cup {r} ELSE residue
           /\ ((Emit /\ Len(hist') = MaxDepth) => PrintT(<<"GEN", ToJson(hist')>>))
Init == hist = <<>> /\ residue = {}
Next == \E r \in Requests : Call(r)
Spec == Init /\ [][Next]_vars
NoResidue == residue = {}
ConfigStable == [][residue' = residue]_vars
=============================================================================
