----------------------------- MODULE Trace_ApMask -----------------------------
(* Recorded masks of apertures with arbitrary (also irrational) parameters (C01): weights in fixed point S = 2^16.               *)
(*  all methods : every weight in [0, 1]; mask shape = bounding-box shape; sum of weights vs analytic area                      *)
(*                ('exact': |sum - area| <= tolS ; centre/subpixel: not constrained);                                           *)
(*  circles on the 1/Q lattice, 'exact' : every weight inside the sub-cell bracket (ExactBracket, N = 8).                        *)
EXTENDS ApMask, IOUtils
Cases == JsonDeserialize(IOEnv.TRACE_FILE)
VARIABLE i
S == 65536
Clause(c) ==
  LET ny == Len(c.w)  nx == IF ny = 0 THEN 0 ELSE Len(c.w[1]) IN
  IF ny # c.box[4] - c.box[3] \/ nx # c.box[2] - c.box[1] THEN "mask_shape_is_bbox_shape"
  ELSE IF c.has_nan THEN "weights_finite"
  ELSE IF \E r \in 1..ny, q \in 1..nx : c.w[r][q] < 0 \/ c.w[r][q] > S + 4 THEN "weights_in_unit_interval"
  ELSE IF c.method = "exact" /\ Abs(c.sum_k - c.area_k) > c.tol_k THEN "exact_weights_sum_to_area"
  ELSE IF c.method = "exact" /\ c.lattice_circle /\
          (\E r \in 1..ny, q \in 1..nx : LET b == ExactBracket(c.r, c.cx, c.cy, c.box[3] + r - 1, c.box[1] + q - 1, 8, c.q) IN
               c.w[r][q] + 4 < (b[1] * S) \div 64 \/ c.w[r][q] - 4 > (b[2] * S) \div 64) THEN "exact_weight_is_covered_fraction"
  ELSE "ok"
Init == i = 1
Next == /\ i <= Len(Cases)
        /\ LET cl == Clause(Cases[i]) IN PrintT(<<"V", ToJson([id |-> Cases[i].id, ok |-> (cl = "ok"), clause |-> cl])>>)
        /\ i' = i + 1
TSpec == Init /\ [][Next]_i
=============================================================================
