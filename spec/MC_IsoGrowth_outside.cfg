SPECIFICATION Spec
CONSTANTS
  HasMax = TRUE
  KMax = 3
  KMin = 2
  MinZero = TRUE
  KEdge = 0
  KOut = 0
  HasRit = FALSE
  KRit = 0
  Variant = "repaired"
INVARIANT TypeOK
INVARIANT NoCrash
INVARIANT ReturnedOK
PROPERTY Termination
CHECK_DEADLOCK FALSE
