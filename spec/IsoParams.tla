-------------------------------- MODULE IsoParams --------------------------------
(* Parameter lattice of the galaxies and fit configurations used for C20, enumerated by TLC for the conformance harness.          *)
EXTENDS Integers, Sequences, FiniteSets, TLC, Json
CONSTANTS Eps, Pas, Laws, Fixes, Modes, Frames, Emit
VARIABLES e, p, l, f, m, cx, fr, done
vars == <<e, p, l, f, m, cx, fr, done>>
Init == e \in Eps /\ p \in Pas /\ l \in Laws /\ f \in Fixes /\ m \in Modes /\ cx \in {0, 1} /\ fr \in Frames /\ done = FALSE
Observe == ~done /\ done' = TRUE /\ UNCHANGED <<e, p, l, f, m, cx, fr>>
           /\ (Emit => PrintT(<<"GEN", ToJson([eps |-> e, pa |-> p, law |-> l, fix |-> f, mode |-> m, centre |-> cx, frame |-> fr])>>))
Spec == Init /\ [][Observe]_vars
=============================================================================
