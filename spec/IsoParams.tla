-------------------------------- MODULE IsoParams --------------------------------
(* Parameter lattice of the galaxies and fit configurations used for C20, enumerated by TLC for the conformance harness.          *)
EXTENDS Integers, Sequences, FiniteSets, TLC, Json
CONSTANTS Eps, Pas, Laws, Fixes, Modes, Frames, Starts, Emit
VARIABLES e, p, l, f, m, cx, fr, st, done
vars == <<e, p, l, f, m, cx, fr, st, done>>
Init == e \in Eps /\ p \in Pas /\ l \in Laws /\ f \in Fixes /\ m \in Modes /\ cx \in {0, 1} /\ fr \in Frames /\ done = FALSE
        \* first guess: near the truth, or with the position angle perpendicular to it (only meaningful, and only demanded to
        \* converge, for nearly round galaxies fitted with all parameters free)
        /\ st \in {s \in Starts : s = "perp" => (e <= 20 /\ f = "none" /\ m = "bilinear")}
        \* frames whose outer isophotes cross the border are fitted with every integration mode but no fix flags; the large frame
        \* (model images of large ellipses) with bilinear sampling and all parameters free
        /\ (fr \in {"nearleft", "nearbottom", "largeleft", "largebottom"} => (f = "none" /\ m \in {"bilinear", "mean", "median"} /\ e <= 50 /\ st = "near"))
        /\ (fr = "large" => (f = "none" /\ m = "bilinear" /\ ((e <= 50 /\ st = "near") \/ (e = 80 /\ st = "round"))))
        /\ (st = "round" => (fr = "large" /\ l \in {"exp", "sersic"}))      \* (measured: from these guesses the flat Gaussian core is outside the basin)
        /\ (m \in {"mean", "median"} => f = "none")
        /\ (m = "linear_geometry" => (f = "none" /\ fr = "square" /\ st = "near" /\ e <= 50))
Observe == ~done /\ done' = TRUE /\ UNCHANGED <<e, p, l, f, m, cx, fr, st>>
           /\ (Emit => PrintT(<<"GEN", ToJson([eps |-> e, pa |-> p, law |-> l, fix |-> f, mode |-> m, centre |-> cx, frame |-> fr, start |-> st])>>))
Spec == Init /\ [][Observe]_vars
=============================================================================
