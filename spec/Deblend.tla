------------------------------- MODULE Deblend -------------------------------
(***************************************************************************)
(* deblend_sources result assembly (C06), schedule part.                   *)
(*                                                                         *)
(* N per-source tasks are submitted to a pool of NProc workers; workers    *)
(* start and finish tasks in any order; the collector consumes completions *)
(* one at a time (as_completed) and stores results[idx]; when all are      *)
(* stored, the merger walks the labels in input order with a running       *)
(* max_label, giving the children of label i the fresh labels              *)
(* max_label+1 .. max_label+k_i.  A task's result is abstracted to its     *)
(* child count k_i in {0 (not deblended), 2, 3}.                           *)
(*                                                                         *)
(* Variant = "indexed"  : results[idx] (the code).                         *)
(* Variant = "appended" : results appended in completion order (a          *)
(*   realistic wrong design; TLC must find ScheduleIndependent violated -  *)
(*   used as a sanity check that the property is not vacuous).             *)
(***************************************************************************)
EXTENDS DeblendOps
CONSTANTS N, NProc, MaxLabel0, Kids, Variant, Emit
ASSUME N \in Nat /\ NProc \in Nat \ {0}
Tasks == 1..N

VARIABLES kids,        \* [Tasks -> Kids]  child count of each task's result (chosen initially)
          queued,      \* tasks submitted, not yet started
          running,     \* tasks being computed by a worker
          done,        \* tasks finished by a worker, not yet seen by the collector
          order,       \* sequence of task indices in the order the collector saw them
          results,     \* indexed: [Tasks -> Kids \cup {-1}] ; appended: sequence of child counts
          nsub,        \* number of tasks submitted so far
          merged,      \* number of labels merged so far
          maxlab,      \* running max_label
          dmap         \* [Tasks -> set of child labels]  (only for merged tasks with children)
vars == <<kids, queued, running, done, order, results, nsub, merged, maxlab, dmap>>

Init == /\ kids \in [Tasks -> Kids]
        /\ queued = {} /\ running = {} /\ done = {} /\ order = <<>>
        /\ results = IF Variant = "indexed" THEN [t \in Tasks |-> -1] ELSE <<>>
        /\ nsub = 0 /\ merged = 0 /\ maxlab = MaxLabel0 /\ dmap = <<>>

Submit == /\ nsub < N /\ nsub' = nsub + 1 /\ queued' = queued \cup {nsub + 1}
          /\ UNCHANGED <<kids, running, done, order, results, merged, maxlab, dmap>>
Start(t) == /\ t \in queued /\ Cardinality(running) < NProc
            /\ queued' = queued \ {t} /\ running' = running \cup {t}
            /\ UNCHANGED <<kids, done, order, results, nsub, merged, maxlab, dmap>>
Finish(t) == /\ t \in running /\ running' = running \ {t} /\ done' = done \cup {t}
             /\ UNCHANGED <<kids, queued, order, results, nsub, merged, maxlab, dmap>>
\* the collector only starts iterating as_completed after every task was submitted
Collect(t) == /\ nsub = N /\ t \in done /\ done' = done \ {t}
              /\ order' = Append(order, t)
              /\ results' = IF Variant = "indexed" THEN [results EXCEPT ![t] = kids[t]] ELSE Append(results, kids[t])
              /\ UNCHANGED <<kids, queued, running, nsub, merged, maxlab, dmap>>
AllCollected == Len(order) = N
Merge == /\ AllCollected /\ merged < N
         /\ LET i == merged + 1
                k == results[i]
            IN /\ merged' = i
               /\ maxlab' = maxlab + k
               /\ dmap' = IF k = 0 THEN dmap ELSE Append(dmap, <<i, (maxlab + 1)..(maxlab + k)>>)
         /\ (Emit /\ merged + 1 = N => PrintT(<<"GEN", ToJson([kids |-> kids, order |-> order])>>))
         /\ UNCHANGED <<kids, queued, running, done, order, results, nsub>>
Next == Submit \/ (\E t \in Tasks : Start(t) \/ Finish(t) \/ Collect(t)) \/ Merge
Spec == Init /\ [][Next]_vars /\ WF_vars(Next)

(* the serial (nproc = 1) result: children of label i get the labels after those of labels < i *)
SerialDmap == SerialDmapOf(kids, N, MaxLabel0)
Finished == merged = N
ScheduleIndependent == Finished => ({dmap[j] : j \in 1..Len(dmap)} = SerialDmap /\ maxlab = MaxLabel0 + SumKids(kids, N))
ChildLabelsFresh == \A j \in 1..Len(dmap) : /\ \A l \in dmap[j][2] : l > MaxLabel0
                                             /\ \A m \in 1..Len(dmap) : m # j => dmap[j][2] \cap dmap[m][2] = {}
MergeInLabelOrder == \A j, m \in 1..Len(dmap) : j < m => dmap[j][1] < dmap[m][1]
PoolBound == Cardinality(running) <= NProc
Terminates == <>Finished
=============================================================================
