--------------------------- MODULE Trace_Deblend ---------------------------
(* Validation of real deblend_sources runs (C06).  Each case carries                                     *)
(*  - events: the hook events of the run (submit/complete/merge) - empty list for nproc = 1 merges only;  *)
(*  - the task labels in input order, max_label of the input, relabel flag, the returned map;             *)
(*  - the input and output label arrays, npixels, contrast1 flag (contrast = 1 => output = input);         *)
(*  - same_as_serial / input_unchanged: byte comparisons made by the harness (projection).                 *)
EXTENDS DeblendOps, IOUtils
Cases == JsonDeserialize(IOEnv.TRACE_FILE)
VARIABLE i

Evs(c, name) == SelectSeq(c.events, LAMBDA e : e.ev = name)
PosOf(sq, v) == CHOOSE j \in 1..Len(sq) : sq[j] = v
DmapOf(c) == {<<c.dmap[j][1], RangeOf(c.dmap[j][2])>> : j \in 1..Len(c.dmap)}

EventClause(c) ==
  LET subs == Evs(c, "submit")  comps == Evs(c, "complete")  mer == Evs(c, "merge")
      n == Len(c.tasks)
      kd == [t \in 1..n |-> IF \E j \in 1..Len(mer) : mer[j].label = c.tasks[t]
                            THEN (CHOOSE e \in RangeOf(mer) : e.label = c.tasks[t]).n_new ELSE 0]
      lastsub == IF subs = <<>> THEN 0 ELSE Max({j \in 1..Len(c.events) : c.events[j].ev = "submit"})
      firstcomp == IF comps = <<>> THEN Len(c.events) + 1 ELSE Min({j \in 1..Len(c.events) : c.events[j].ev = "complete"})
  IN IF ~c.has_events THEN "ok"       \* hook absent or nothing to deblend: only the result clauses apply
     ELSE IF c.nproc > 1 /\ Len(subs) # n THEN "every_task_submitted"
     ELSE IF \E j \in 1..Len(subs) : subs[j].idx # j - 1 THEN "submit_in_label_order"
     ELSE IF c.nproc > 1 /\ {comps[j].idx : j \in 1..Len(comps)} # 0..(n - 1) THEN "every_task_collected_once"
     ELSE IF Len(comps) # Cardinality({comps[j].idx : j \in 1..Len(comps)}) THEN "every_task_collected_once"
     ELSE IF lastsub > firstcomp THEN "submit_before_collect"
     ELSE IF \E j \in 1..Len(mer) : mer[j].label \notin RangeOf(c.tasks) THEN "merge_of_task_label"
     ELSE IF \E j, m \in 1..Len(mer) : j < m /\ PosOf(c.tasks, mer[j].label) >= PosOf(c.tasks, mer[m].label) THEN "merge_in_label_order"
     ELSE IF \E j \in 1..Len(mer) : mer[j].max_before # c.maxlab0 + SumKids(kd, PosOf(c.tasks, mer[j].label) - 1) THEN "child_labels_fresh_and_consecutive"
     ELSE IF \E j \in 1..Len(mer) : mer[j].n_new < 2 THEN "parent_split_into_two_or_more"
     ELSE IF ~c.relabel /\ DmapOf(c) # {<<c.tasks[x[1]], x[2]>> : x \in SerialDmapOf(kd, n, c.maxlab0)} THEN "map_equals_serial_allocation"
     ELSE "ok"

Clause(c) ==
  IF ~c.input_unchanged THEN "input_unchanged"
  ELSE IF ~c.same_as_serial THEN "identical_for_every_nproc_and_order"
  ELSE IF ~c.finder_same THEN "source_finder_equals_detect_then_deblend"
  ELSE LET ec == EventClause(c) IN
       IF ec # "ok" THEN ec
       ELSE IF c.contrast1 THEN (IF c.out = c.inp /\ c.dmap = <<>> THEN "ok" ELSE "contrast_one_is_identity")
       ELSE RefinesClause(FromRows(c.inp), FromRows(c.out), DmapOf(c), c.npixels, c.relabel)
Init == i = 1
Next == /\ i <= Len(Cases)
        /\ LET cl == Clause(Cases[i]) IN PrintT(<<"V", ToJson([id |-> Cases[i].id, ok |-> (cl = "ok"), clause |-> cl])>>)
        /\ i' = i + 1
TSpec == Init /\ [][Next]_i
=============================================================================
