SPECIFICATION Spec
CONSTANTS
  Sma0 = 1000
  Step = 300
  Linear = TRUE
  MinSma = 300
  MaxSma = 2500
  Codes = {0, 1, 2, 5}
  MaxLen = 9
INVARIANT NoDuplicates
INVARIANT WithinBounds
CHECK_DEADLOCK FALSE
