------------------------------- MODULE IsoGrowth -------------------------------
(***************************************************************************)
(* The semi-major-axis loops of Ellipse.fit_image (C20), one action per    *)
(* loop body, written after photutils/isophote/ellipse.py line by line.    *)
(*                                                                         *)
(* sma is represented by its EXPONENT k: sma = sma0 * (1 + step)^k for     *)
(* geometric growth, sma0 + k * step for linear growth (k = 0 is the       *)
(* starting ellipse, k > 0 the outward pass, k < 0 the inward pass).       *)
(* A parameter record q carries                                            *)
(*   HasMax, KMax : a maxsma was given; KMax >= 1 is the first exponent    *)
(*                  whose sma is >= maxsma                                 *)
(*   KMin         : >= 1, the first m whose sma at exponent -m is          *)
(*                  <= max(minsma, 0.5)                                    *)
(*   MinZero      : minsma = 0 (the central-pixel isophote is extracted)   *)
(*   Variant      : "pinned" = the loop as it stood in the pinned tree,    *)
(*                  "repaired" = an invalid outward fit ends the outward   *)
(*                  pass (or the whole fit when nothing was fitted yet)    *)
(*                                                                         *)
(* One call of fit_isophote returns a stop code:                           *)
(*   0 converged, 2 maxit reached, 4 non-iterative  -> valid, appended     *)
(*   1 too many flagged points, -1 gradient failure -> valid, appended,    *)
(*       then repaired by _fix_last_isophote (-1 becomes 5)                *)
(*   3 no usable sample / harmonic fit failed        -> INVALID, NOT       *)
(*       appended                                                          *)
(* Outward body: a failed fit (code < 0 or 1) on the very first ellipse    *)
(* returns an empty list ("No meaningful fit was possible"); two           *)
(* consecutive 5s or a 1 (with more than two isophotes in the list) switch *)
(* to non-iterative mode when a maxsma lies ahead, else end the outward    *)
(* pass.  Then `isophote = isophote_list[-1]` and sma is grown from THAT   *)
(* isophote: after an invalid fit this is the previous isophote, so the    *)
(* pinned loop tries the very same sma again (for ever, when the ellipse   *)
(* lies outside the frame), and with an empty list it raises IndexError.   *)
(* Inward body: a negative code is repaired, code 3 ends the pass, sma     *)
(* shrinks until it is <= max(minsma, 0.5).  minsma = 0 appends the        *)
(* central isophote; the list is sorted.                                   *)
(*                                                                         *)
(* Which codes a fit can return is left open (outcome sets by zone: well   *)
(* inside the frame, at its edge from KEdge on, completely outside from    *)
(* KOut on); TLC explores every combination.                               *)
(* Properties: Termination (liveness, under weak fairness), NoCrash, and   *)
(* for the returned list: strictly increasing, contiguous exponents        *)
(* around 0, within the [minsma, maxsma] exponents, central isophote iff   *)
(* minsma = 0.  The pinned variant violates Termination and NoCrash (both  *)
(* reproduced on the pinned tree); the repaired variant satisfies all.     *)
(***************************************************************************)
EXTENDS Integers, Sequences, FiniteSets, FiniteSetsExt, SequencesExt, TLC
CONSTANTS HasMax, KMax, KMin, MinZero, KEdge, KOut, Variant,
          HasRit, KRit     \* a maxrit was given; KRit (any sign) is the first exponent whose sma is > maxrit: from there on fits are non-iterative
VARIABLES phase, k, list, noiter
vars == <<phase, k, list, noiter>>
Central == -1000
Par == [HasMax |-> HasMax, KMax |-> KMax, KMin |-> KMin, MinZero |-> MinZero, Variant |-> Variant, HasRit |-> HasRit, KRit |-> KRit]
Rit(q, e) == q.HasRit /\ e >= q.KRit                 \* fit_isophote: `noniterate or (maxrit and sma > maxrit)`
Rec(e, c) == [k |-> e, code |-> c]

Init == phase = "out" /\ k = 0 /\ list = <<>> /\ noiter = FALSE

Finish(l) == phase' = "done" /\ list' = l /\ UNCHANGED <<k, noiter>>
ToInward(l, ni) == phase' = "in" /\ k' = l[1].k - 1 /\ list' = l /\ noiter' = ni
Advance(q, l, ni) == LET nk == Last(l).k + 1 IN
                     IF q.HasMax /\ nk >= q.KMax THEN ToInward(l, ni)
                     ELSE phase' = "out" /\ k' = nk /\ list' = l /\ noiter' = ni

\* one pass through the body of the outward `while True` loop; c = stop code returned by fit_isophote at exponent k
\* t: fewer than fflag of the sample points of this isophote lie on the image (only looked at for non-iterative isophotes without a maxsma)
FitOut(q, c, t) ==
  /\ phase = "out"
  /\ ((noiter \/ Rit(q, k)) <=> c = 4)          \* non-iterative fits (switched on by failures, or beyond maxrit) return code 4, and nothing else does
  /\ LET valid == c # 3
         l1 == IF valid THEN Append(list, Rec(k, c)) ELSE list
     IN IF c < 0 \/ c = 1
        THEN IF Len(l1) = 1 THEN Finish(<<>>)     \* "No meaningful fit was possible": empty list
             ELSE LET fc == IF c < 0 THEN 5 ELSE c
                      l2 == [l1 EXCEPT ![Len(l1)].code = fc]                      \* _fix_last_isophote(isophote_list, -1)
                      two == Len(l2) > 2 /\ ((fc = 5 /\ l2[Len(l2) - 1].code = 5) \/ fc = 1)
                  IN IF two /\ ~(q.HasMax /\ k < q.KMax) THEN ToInward(l2, noiter)
                     ELSE Advance(q, l2, noiter \/ two)
        ELSE IF ~valid /\ q.Variant = "repaired"
             THEN (IF l1 = <<>> THEN Finish(<<>>) ELSE ToInward(l1, noiter))
        ELSE IF l1 = <<>> THEN phase' = "crash" /\ UNCHANGED <<k, list, noiter>>   \* isophote_list[-1]: IndexError
        \* beyond maxrit nothing is fitted and nothing can fail: without a maxsma the pass ends at the frame edge (fix 5151783; before it the
        \* sma grew for ever - the model then has no terminating behaviour for HasRit /\ ~HasMax)
        ELSE IF c = 4 /\ ~q.HasMax /\ t THEN ToInward(l1, noiter)
        ELSE Advance(q, l1, noiter)                                                \* (after an invalid fit: the same sma again)

ToCentral(l) == phase' = "central" /\ list' = l /\ UNCHANGED <<k, noiter>>
\* one pass through the body of the inward loop
FitIn(q, c) ==
  /\ phase = "in"
  /\ (Rit(q, k) <=> c = 4)
  /\ LET valid == c # 3
         l1 == IF valid THEN Append(list, Rec(k, c)) ELSE list
         l2 == IF c < 0 THEN [l1 EXCEPT ![Len(l1)].code = 5] ELSE l1              \* _fix_last_isophote(isophote_list, 0)
     IN IF c = 3 THEN ToCentral(l2)
        ELSE LET nk == Last(l2).k - 1 IN
             IF nk <= -q.KMin THEN ToCentral(l2) ELSE phase' = "in" /\ k' = nk /\ list' = l2 /\ UNCHANGED noiter

\* the central-pixel isophote (only for minsma = 0) and the final sort
CentralAndSort(q) ==
  /\ phase = "central"
  /\ LET l1 == IF q.MinZero THEN Append(list, Rec(Central, 0)) ELSE list
     IN Finish(SortSeq(l1, LAMBDA a, b : a.k < b.k))

\* ---- model checking: which codes can come back where --------------------------------------------------------------------
OutCodes(e) == IF noiter \/ Rit(Par, e) THEN {4} ELSE IF e >= KOut THEN {3} ELSE IF e >= KEdge THEN {0, 1, 2, -1, 3} ELSE {0, 2, -1}
InCodes(e) == IF Rit(Par, e) THEN {4} ELSE {0, 1, 2, -1, 3}
ThinSet(e) == IF e >= KOut THEN {TRUE} ELSE IF e >= KEdge THEN {TRUE, FALSE} ELSE {FALSE}
Next == \/ \E c \in OutCodes(k), t \in ThinSet(k) : FitOut(Par, c, t)
        \/ \E c \in InCodes(k) : FitIn(Par, c)
        \/ CentralAndSort(Par)
Spec == Init /\ [][Next]_vars /\ WF_vars(Next)

TypeOK == /\ phase \in {"out", "in", "central", "done", "crash"}
          /\ k \in Int /\ noiter \in BOOLEAN
          /\ \A j \in 1..Len(list) : list[j].k \in Int /\ list[j].code \in {0, 1, 2, 4, 5, -1}
NoCrash == phase # "crash"
Termination == <>(phase \in {"done", "crash"})
Ks(l) == {l[j].k : j \in 1..Len(l)} \ {Central}
\* the returned list
Returned(q, l) ==
  /\ \A j \in 1..(Len(l) - 1) : l[j].k < l[j + 1].k                               \* strictly increasing semi-major axis
  /\ \A j \in 1..Len(l) : l[j].code # -1                                           \* negative codes never leave fit_image
  /\ l # <<>> => /\ 0 \in Ks(l)
                 /\ Ks(l) = Min(Ks(l))..Max(Ks(l))                                 \* no gap, no duplicate
                 /\ (q.HasMax => Max(Ks(l)) < Max({q.KMax, 1}))                             \* every sma < maxsma (beyond the start)
                 /\ Min(Ks(l)) >= -Max({1, q.KMin - 1})                            \* every sma > max(minsma, 0.5) (beyond the first inward step)
                 /\ ((\E j \in 1..Len(l) : l[j].k = Central) <=> q.MinZero)        \* central isophote iff minsma = 0
ReturnedOK == phase = "done" => Returned(Par, list)
=============================================================================
