------------------------------- MODULE IsoGrowth -------------------------------
(***************************************************************************)
(* The semi-major-axis loops of Ellipse.fit_image (C20).                   *)
(* sma is an integer in units of 1/100 px; geometric growth multiplies by  *)
(* (100 + step)/100 (integer-rounded - the exact ratio does not matter for *)
(* the properties), linear growth adds step.  Outward: fit at sma, append, *)
(* grow, stop when sma >= maxsma, or when a failed fit (stop code 1, or two*)
(* consecutive 5s) is met and there is no maxsma beyond it - otherwise go   *)
(* on in non-iterative mode.  Inward: restart from the first isophote,     *)
(* shrink until sma <= max(minsma, 1/2), optional central point, sort.     *)
(* Stop codes are chosen nondeterministically.                             *)
(* Properties: the sorted list is strictly increasing in sma; every sma is *)
(* at most one growth step beyond maxsma and, except the central point,    *)
(* above max(minsma, 1/2) shrunk by one step.                              *)
(***************************************************************************)
EXTENDS Integers, Sequences, FiniteSets, FiniteSetsExt, SequencesExt, TLC
CONSTANTS Sma0, Step, Linear, MinSma, MaxSma, Codes, MaxLen
VARIABLES phase, sma, list, noiter
vars == <<phase, sma, list, noiter>>
Grow(s) == IF Linear THEN s + Step ELSE (s * (100 + Step)) \div 100
Shrink(s) == IF Linear THEN s - Step ELSE (s * 100) \div (100 + Step)
Floor == Max({MinSma, 50})
Init == phase = "out" /\ sma = Sma0 /\ list = <<>> /\ noiter = FALSE
Out(code) ==
  /\ phase = "out" /\ Len(list) < MaxLen
  /\ LET l2 == Append(list, [sma |-> sma, code |-> IF noiter THEN 4 ELSE code])
         failed == ~noiter /\ (code = 1 \/ (code = 5 /\ Len(list) >= 2 /\ list[Len(list)].code = 5)) /\ Len(l2) > 2
     IN /\ list' = l2
        /\ IF failed /\ ~(MaxSma > sma) THEN phase' = "in" /\ sma' = Shrink(l2[1].sma) /\ noiter' = noiter
           ELSE /\ noiter' = (noiter \/ failed)
                /\ IF Grow(sma) >= MaxSma THEN phase' = "in" /\ sma' = Shrink(l2[1].sma)
                   ELSE phase' = "out" /\ sma' = Grow(sma)
In(code) ==
  /\ phase = "in" /\ Len(list) < 2 * MaxLen
  /\ IF sma <= 0 \/ code = 3 THEN phase' = "done" /\ UNCHANGED <<sma, list, noiter>>
     ELSE /\ list' = Append(list, [sma |-> sma, code |-> code]) /\ UNCHANGED noiter
          /\ IF Shrink(sma) <= Floor THEN phase' = "done" /\ sma' = sma ELSE phase' = "in" /\ sma' = Shrink(sma)
Next == \E c \in Codes : Out(c) \/ In(c)
Spec == Init /\ [][Next]_vars
Smas == {list[k].sma : k \in 1..Len(list)}
NoDuplicates == Cardinality(Smas) = Len(list)          \* sorting gives a strictly increasing list
WithinBounds == \A k \in 1..Len(list) : list[k].sma < Grow(MaxSma) /\ list[k].sma > Shrink(Floor) - 1
=============================================================================
