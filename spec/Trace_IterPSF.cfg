SPECIFICATION TSpec
CHECK_DEADLOCK FALSE
