----------------------------- MODULE DetectOps -----------------------------
(* detect_sources / detect_threshold (C04): exact connected-component labelling above threshold.        *)
(* Images are integer-valued functions on pixel sets; NaN pixels are given as a set (`bad` = NaN or     *)
(* masked); +/-inf are the integers +/-Inf (any value beyond every finite value used).                  *)
EXTENDS SegmOps

Inf == 1000000

OnSet(d, thr, bad) == {p \in DOMAIN d : p \notin bad /\ d[p] > thr[p]}       \* strictly above
KeptComps(S, conn, npix) == {C \in Components(S, conn) : Cardinality(C) >= npix}
\* constructive model: ndimage.label numbers components in raster order of their first pixel; small ones are
\* zeroed; survivors are renumbered consecutively in the same order
LabelMap(d, thr, bad, conn, npix) ==
  LET K == KeptComps(OnSet(d, thr, bad), conn, npix)
      rank == [C \in K |-> Cardinality({B \in K : B = C \/ RasterLess(FirstPixel(B), FirstPixel(C))})]
  IN [p \in DOMAIN d |-> IF \E C \in K : p \in C THEN rank[CHOOSE C \in K : p \in C] ELSE 0]
NoDetection(d, thr, bad, conn, npix) == KeptComps(OnSet(d, thr, bad), conn, npix) = {}

(* declarative statement of the property, for any candidate label map L *)
IsDetection(L, d, thr, bad, conn, npix) ==
  LET on == OnSet(d, thr, bad)
      sup == {p \in DOMAIN L : L[p] # 0}
      segs == {Seg(L, l) : l \in LabelSet(L)}
  IN /\ sup \subseteq on                                             \* NaN / masked / not-above pixels never labelled
     /\ IsComponentPartition(segs, sup, conn)                        \* each label is one connected component ...
     /\ \A C \in Components(on, conn) :                              \* ... of the thresholded set, kept iff big enough
          IF Cardinality(C) >= npix THEN C \in segs ELSE C \cap sup = {}
     /\ LabelSet(L) = 1..Cardinality(LabelSet(L))                    \* labels 1..N without gaps
     /\ \A l, m \in LabelSet(L) : l < m => RasterLess(FirstPixel(Seg(L, l)), FirstPixel(Seg(L, m)))   \* raster order

\* detect_threshold with given background and error maps: pixel-wise bg + nsigma * err
Threshold(bg, err, nsigma) == [p \in DOMAIN bg |-> bg[p] + nsigma * err[p]]
=============================================================================
