---------------------------- MODULE Trace_Profiles ----------------------------
(* Recorded RadialProfile / CurveOfGrowth results versus recorded direct circular-aperture photometry (C19),  *)
(* any method.  Real values are fixed-point integers round(v * S), S = 2^16; Tol in the same units.            *)
(* kind "center": integer image, TLC recomputes the sums itself (ProfilesOps).                                  *)
EXTENDS ProfilesOps, IOUtils
Cases == JsonDeserialize(IOEnv.TRACE_FILE)
VARIABLE i
S == 65536
Tol == 8
Near(a, b) == a - b <= Tol /\ b - a <= Tol
PixSetOf(sq) == {<<sq[j][1], sq[j][2]>> : j \in 1..Len(sq)}
N(c) == Len(c.radii)

\* --- pair relation: profile arrays vs direct aperture sums (all methods), values in fixed point -----------------
Fin(c, k) == ~c.ap_nan[k]                      \* aperture k overlaps the image
FinBin(c, k) == Fin(c, k) /\ Fin(c, k + 1) /\ ~c.rp_nan[k]
PairClause(c) ==
  IF \E k \in 1..N(c) : c.cog_nan[k] # c.ap_nan[k] THEN "cog_nan_iff_aperture_misses_image"
  ELSE IF \E k \in 1..N(c) : Fin(c, k) /\ ~Near(c.cog_flux[k], c.ap_flux[k]) THEN "cog_equals_aperture_sum"
  ELSE IF \E k \in 1..N(c) : Fin(c, k) /\ ~Near(c.cog_area[k], c.ap_area[k]) THEN "cog_area_equals_overlap_area"
  ELSE IF \E k \in 1..N(c) : Fin(c, k) /\ ~Near(c.cog_err[k], c.ap_err[k]) THEN "cog_error_equals_aperture_error"
  \* radial profile bin k: profile * (A[k+1]-A[k]) = F[k+1]-F[k], in 1/1024 units (32-bit safe: areas <= 120 px, |values| <= 8)
  ELSE IF \E k \in 1..(N(c) - 1) : LET dA == c.k_area[k+1] - c.k_area[k]  dF == c.k_flux[k+1] - c.k_flux[k]
                                        lhs == (c.k_profile[k] * dA) \div 1024
                                        tol == Abs(dF) \div 128 + 16 IN
            FinBin(c, k) /\ dA >= 64 /\ ~(lhs - dF <= tol /\ dF - lhs <= tol) THEN "rp_is_flux_difference_over_area_difference"
  \* errors in quadrature: (perr * dA)^2 = E[k+1]^2 - E[k]^2, in 1/64 units
  ELSE IF c.has_error /\ \E k \in 1..(N(c) - 1) : LET dA == (c.k_area[k+1] - c.k_area[k]) \div 16      \* 1/64
                                                       x == (c.e_profile_err[k] * dA) \div 64               \* perr*dA in 1/64
                                                       q == c.e_err[k+1] * c.e_err[k+1] - c.e_err[k] * c.e_err[k]   \* in 1/4096
                                                       tol == Abs(q) \div 16 + 4096 IN
            \* (bins of at least one pixel: the 1/64 quantisation of a smaller area alone exceeds the tolerance once the errors are large)
            FinBin(c, k) /\ dA >= 64 /\ ~(x * x - q <= tol /\ q - x * x <= tol) THEN "rp_error_in_quadrature"
  ELSE IF \E k \in 1..(N(c) - 1) : FinBin(c, k) /\ ~Near(c.rp_area[k], c.ap_area[k+1] - c.ap_area[k]) THEN "rp_area_is_area_difference"
  ELSE IF c.nonneg /\ \E k \in 1..(N(c) - 1) : Fin(c, k) /\ Fin(c, k + 1) /\ c.cog_flux[k+1] < c.cog_flux[k] - Tol THEN "nonnegative_data_monotone_cog"
  ELSE IF c.constant >= 0 /\ \E k \in 1..(N(c) - 1) : FinBin(c, k) /\ c.rp_area[k] >= S \div 16 /\ ~(c.k_profile[k] - c.constant * 1024 <= 4 /\ c.constant * 1024 - c.k_profile[k] <= 4) THEN "constant_image_constant_profile"
  ELSE IF ~c.ee_roundtrip_ok THEN "ee_interpolators_inverse"
  ELSE "ok"

\* --- exact sums for the center method on integer images -----------------------------------------------------------
CenterClause(c) ==
  LET d == FromRows(c.data)  e == FromRows(c.err)  bad == PixSetOf(c.bad)
      lo == CogSeq(d, e, bad, c.cx, c.cy, c.radii, FALSE)
      hi == CogSeq(d, e, bad, c.cx, c.cy, c.radii, TRUE)
      ok(k) == IF lo[k].nan THEN c.cog_nan[k]
               ELSE ~c.cog_nan[k] /\ (\/ (c.cog_flux[k] = lo[k].flux /\ c.cog_area[k] = lo[k].area /\ c.cog_err2[k] = lo[k].err2)
                                      \/ (c.cog_flux[k] = hi[k].flux /\ c.cog_area[k] = hi[k].area /\ c.cog_err2[k] = hi[k].err2))
  IN IF \E k \in 1..N(c) : ~ok(k) THEN "cog_is_sum_over_unmasked_pixels_inside"
     ELSE IF ~HasTie(d, bad, c.cx, c.cy, c.radii) /\ \E k \in 1..(N(c) - 1) :
               LET b == RpSeq(d, e, bad, c.cx, c.cy, c.radii, FALSE)[k] IN
               ~b.nan /\
               (\/ c.rp_area[k] # b.darea
               \/ (b.darea > 0 /\ ~(Abs(c.rp_profile[k] * b.darea - b.dflux * S) <= b.darea + Tol))            \* profile = dflux / darea
               \/ (b.darea > 0 /\ LET y == (c.rp_err[k] * b.darea) \div S IN ~((y <= 1 \/ (y - 1) * (y - 1) <= b.derr2) /\ b.derr2 <= (y + 2) * (y + 2))))
          THEN "rp_is_difference_of_sums"
     ELSE "ok"
Clause(c) == IF c.kind = "center" THEN CenterClause(c) ELSE PairClause(c)
Init == i = 1
Next == /\ i <= Len(Cases)
        /\ LET cl == Clause(Cases[i]) IN PrintT(<<"V", ToJson([id |-> Cases[i].id, ok |-> (cl = "ok"), clause |-> cl])>>)
        /\ i' = i + 1
TSpec == Init /\ [][Next]_i
=============================================================================
