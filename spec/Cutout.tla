--------------------------------- MODULE Cutout ---------------------------------
(* photutils.utils.CutoutImage and the astropy overlap_slices window rule on which make_model_image (C18), centroid_sources (C17)  *)
(* and PSF fitting windows (C12) rely.  Position in quarter pixels; cutout shape (sy, sx); image (H, W).                            *)
(*   window along an axis: [ceil(pos - s/2), ceil(pos + s/2));  large slice = window clipped to the image;                         *)
(*   small slice = the same pixels in cutout coordinates.  modes: trim (only the overlap), partial (full shape, fill outside),       *)
(*   strict (must be fully inside).  No overlap raises in every mode.                                                                *)
EXTENDS CentroidOps
CONSTANTS H, W, PosLo, PosHi, Sizes, Emit
VARIABLES py, px, sy, sx, done
vars == <<py, px, sy, sx, done>>
Off == 16
Init == py \in (PosLo - Off)..(PosHi - Off) /\ px \in (PosLo - Off)..(PosHi - Off) /\ sy \in Sizes /\ sx \in Sizes /\ done = FALSE
Y0 == LargeLo(py, sy, H)  Y1 == LargeHi(py, sy, H)  X0 == LargeLo(px, sx, W)  X1 == LargeHi(px, sx, W)
NoOverlap == Y0 >= Y1 \/ X0 >= X1
Inside == EdgeMin(py, sy) >= 0 /\ EdgeMax(py, sy) <= H /\ EdgeMin(px, sx) >= 0 /\ EdgeMax(px, sx) <= W
Case == [py |-> py, px |-> px, sy |-> sy, sx |-> sx, h |-> H, w |-> W, nooverlap |-> NoOverlap, inside |-> Inside,
         large |-> <<Y0, Y1, X0, X1>>, small |-> <<SmallLo(py, sy), SmallLo(py, sy) + (Y1 - Y0), SmallLo(px, sx), SmallLo(px, sx) + (X1 - X0)>>]
Observe == ~done /\ done' = TRUE /\ UNCHANGED <<py, px, sy, sx>> /\ (Emit => PrintT(<<"GEN", ToJson(Case)>>))
Spec == Init /\ [][Observe]_vars
\* the window has the requested size before clipping, contains the pixel nearest to the position for odd sizes, and the clipped window is
\* exactly window /\ image
WindowHasRequestedSize == EdgeMax(py, sy) - EdgeMin(py, sy) = sy /\ EdgeMax(px, sx) - EdgeMin(px, sx) = sx
ClippedIsIntersection == ~NoOverlap => {r \in 0..(H - 1) : EdgeMin(py, sy) <= r /\ r < EdgeMax(py, sy)} = Y0..(Y1 - 1)
OddWindowCentredOnNearestPixel == (sy % 2 = 1) => (2 * EdgeMin(py, sy) + sy - 1) * 2 \in {(py - 2) + x : x \in 0..4}   \* |centre - pos| <= 1/2 px (in 1/4 px: 2*centre*2 vs pos)
=============================================================================
