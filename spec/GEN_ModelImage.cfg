SPECIFICATION Spec
CONSTANTS
  H = 4
  W = 5
  A = 7
  B = 2
  C = 3
  RowIds = {1, 2, 3, 4, 5, 6, 7, 8, 9}
  MaxRows = 3
  Emit = TRUE
CHECK_DEADLOCK FALSE
