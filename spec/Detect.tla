------------------------------- MODULE Detect -------------------------------
(* Case enumerator / design-level check for DetectOps.  Every initial state is one call of              *)
(* detect_sources on a small image; the single action Observe evaluates the constructive model, checks   *)
(* it against the declarative statement (invariant Sound) and, in GEN configs, prints the case with the   *)
(* expected result for replay into photutils.                                                             *)
EXTENDS DetectOps
CONSTANTS H, W, Vals, ThrKinds, NPix, Conns, BadKinds, Emit, Shard, NShards
VARIABLES d, thrk, bad, badk, conn, npix, done
vars == <<d, thrk, bad, badk, conn, npix, done>>
Px == Grid(H, W)

Thr(k) == CASE k = "c0" -> [p \in Px |-> 0]
            [] k = "c1" -> [p \in Px |-> 1]
            [] k = "checker" -> [p \in Px |-> (p[1] + p[2]) % 2]
            [] k = "colstep" -> [p \in Px |-> IF p[2] = 0 THEN 1 ELSE 0]
\* bad-pixel configurations: none, one NaN pixel, one masked pixel, first row masked
BadSets(k) == CASE k = "none" -> {{}}
                [] k = "nan1" -> {{p} : p \in Px}
                [] k = "mask1" -> {{p} : p \in Px}
                [] k = "maskrow" -> {{p \in Px : p[1] = 0}}
ShardOf(x) == (x[<<0, 0>>] + 3 * x[<<0, 1>>] + 5 * x[<<1, 0>>] + 7 * x[<<H-1, W-1>>] + 11 * x[<<1, 1>>]) % NShards

Init == /\ d \in {x \in [Px -> Vals] : ShardOf(x) = Shard}
        /\ thrk \in ThrKinds /\ badk \in BadKinds /\ bad \in BadSets(badk)
        /\ conn \in Conns /\ npix \in NPix /\ done = FALSE

Result == LabelMap(d, Thr(thrk), bad, conn, npix)
Case == [data |-> RowsJ(d), thr |-> RowsJ(Thr(thrk)), thrkind |-> thrk, badkind |-> badk, bad |-> PixSeq(bad),
         conn |-> conn, npix |-> npix, none |-> NoDetection(d, Thr(thrk), bad, conn, npix),
         expect |-> RowsJ(Result), attrs |-> AttrsJ(Result)]
Observe == /\ ~done /\ done' = TRUE
           /\ (Emit => PrintT(<<"GEN", ToJson(Case)>>))
           /\ UNCHANGED <<d, thrk, bad, badk, conn, npix>>
Spec == Init /\ [][Observe]_vars

Sound == IsDetection(Result, d, Thr(thrk), bad, conn, npix)
NoneIffEmpty == NoDetection(d, Thr(thrk), bad, conn, npix) <=> (LabelSet(Result) = {})
=============================================================================
