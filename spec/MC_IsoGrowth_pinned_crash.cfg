SPECIFICATION Spec
CONSTANTS
  HasMax = TRUE
  KMax = 5
  KMin = 3
  MinZero = TRUE
  KEdge = 0
  KOut = 0
  HasRit = FALSE
  KRit = 0
  Variant = "pinned"
INVARIANT NoCrash
CHECK_DEADLOCK FALSE
