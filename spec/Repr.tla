---------------------------------- MODULE Repr ----------------------------------
(***************************************************************************)
(* Results do not depend on how the same numbers are represented (C15).    *)
(* A program is an entry point called with its image-like inputs in one    *)
(* representation; the reference is the float64 C-ordered ndarray call.    *)
(* Expect(e, r) is the outcome the property demands:                       *)
(*   "same"      same numbers (integer outputs exactly, real outputs to    *)
(*               Tol(r)), no units;                                        *)
(*   "units"     same numbers and the outputs carry the input's units;     *)
(*   "raise"     mixing unit-ful data with unit-less error is rejected;    *)
(*   "rounded"   Background2D's documented integer-output rounding;        *)
(*   "skip"      combination not offered by the API (declared here so that *)
(*               nothing is skipped silently).                             *)
(* The harness records, per program, whether the call raised, the largest  *)
(* relative deviation of real-valued output leaves (units of 2^-20), the   *)
(* equality of integer/structural leaves and whether outputs carry units.  *)
(***************************************************************************)
EXTENDS Integers, Sequences, FiniteSets, TLC, Json, IOUtils, SequencesExt
Entries == {"aperture_photometry", "do_photometry", "aperture_mask", "aperture_stats", "background2d", "local_background",
            "bkg_estimators", "detect_threshold", "detect_sources", "deblend_sources", "source_finder", "source_catalog",
            "find_peaks", "daofinder", "iraffinder", "starfinder", "centroids", "centroid_sources", "profiles", "psf_photometry",
            "iterative_psf", "calc_total_error", "utils", "morphology", "aperture_mask_edge", "stats_large",
            "aperture_photometry_subpixel", "sky_apertures", "annuli", "fit_gaussian", "psf_matching", "datasets", "harmonics", "interpolators", "segment_cutouts",
            "isophote_fit"}
Reps == {"i8", "i2", "u2", "f4", "bigendian", "fortran", "strided", "ma_nomask", "ma_allfalse", "nddata", "nddata_ma", "quantity", "mixed_units", "convertible_units"}
NDDataEntries == {"aperture_photometry_subpixel", "aperture_photometry", "aperture_stats", "psf_photometry"}
\* entry points whose outputs are in data units (so Quantity inputs must give Quantity outputs)
UnitEntries == {"aperture_photometry_subpixel", "aperture_mask_edge", "sky_apertures", "annuli", "interpolators", "segment_cutouts", "aperture_photometry", "do_photometry", "aperture_stats", "background2d", "local_background", "detect_threshold",
                "source_catalog", "find_peaks", "profiles", "psf_photometry", "calc_total_error"}
\* entry points that take an error array next to the data (mixing units must be rejected)
ErrorEntries == {"aperture_photometry_subpixel", "sky_apertures", "annuli", "aperture_photometry", "do_photometry", "aperture_stats", "source_catalog", "profiles", "psf_photometry", "centroids", "find_peaks"}
\* Background2D documents that integer input gives integer (rounded) output maps
\* combinations the API does not offer: Poisson noise is applied to counts (dimensionless by nature); the harmonic fitters are
\* numerical helpers on plain sample vectors
NoUnitsOffered == {"datasets", "harmonics"}
Expect(e, r) == CASE e \in {"background2d", "interpolators"} /\ r \in {"i8", "i2", "u2"} -> "rounded"
                  [] e \in NoUnitsOffered /\ r = "quantity" -> "skip"
                  [] r = "nddata" -> IF e \in NDDataEntries THEN "same" ELSE "skip"
                  \* an NDData container built from a MaskedArray without a mask (its mask attribute is numpy.ma.nomask)
                  [] r = "nddata_ma" -> IF e \in NDDataEntries THEN "same" ELSE "skip"
                  [] r = "quantity" -> IF e \in UnitEntries THEN "units" ELSE "same"
                  [] r = "mixed_units" -> IF e \in ErrorEntries THEN "raise" ELSE "skip"
                  \* data in Jy, companion arrays in mJy (the same physical values): refused, or the same physical result
                  [] r = "convertible_units" -> IF e \in ErrorEntries THEN "raise_or_same" ELSE "skip"
                  [] OTHER -> "same"
\* tolerance in units of 2^-20 relative: float32 holds the integer-valued test data exactly, but results computed in float32 precision
\* are allowed float32 rounding; memory layout may change the order of reductions
Tol(r) == IF r = "f4" THEN 1024 ELSE 4
Programs == {p \in Entries \X Reps : Expect(p[1], p[2]) # "skip"}
Cases == JsonDeserialize(IOEnv.TRACE_FILE)
VARIABLE i
Clause(c) ==
  LET ex == Expect(c.entry, c.rep) IN
  IF <<c.entry, c.rep>> \notin Programs THEN "unknown_program"
  ELSE IF ~c.ref_ok THEN "reference_call_failed"
  ELSE IF ex = "raise" THEN (IF c.raised THEN "ok" ELSE "mixing_unitful_and_unitless_inputs_must_be_rejected")
  ELSE IF ex = "raise_or_same" THEN (IF c.raised THEN "ok"
                                      ELSE IF ~c.struct_equal \/ c.maxdev > 4 THEN "convertible_units_are_refused_or_give_the_same_physical_result" ELSE "ok")
  ELSE IF c.raised THEN "valid_representation_makes_the_call_fail"
  ELSE IF ~c.struct_equal THEN "integer_and_structural_outputs_identical"
  ELSE IF ex = "rounded" THEN (IF c.maxabs > 2200 THEN "integer_input_rounds_the_background_maps" ELSE "ok")     \* meshes and maps are cast to the integer dtype: |dev| <= 2 (units of 1/1024)
  ELSE IF c.maxdev > Tol(c.rep) THEN "same_numbers_same_result"
  ELSE IF ex = "units" /\ ~c.out_has_units THEN "quantity_inputs_give_outputs_with_units"
  ELSE "ok"
Init == i = 1
Next == /\ i <= Len(Cases)
        /\ LET cl == Clause(Cases[i]) IN PrintT(<<"V", ToJson([id |-> Cases[i].id, ok |-> (cl = "ok"), clause |-> cl])>>)
        /\ i' = i + 1
TSpec == Init /\ [][Next]_i
Executed == {<<Cases[k].entry, Cases[k].rep>> : k \in 1..Len(Cases)}
Complete == Programs \ Executed = {}
PList == SetToSeq(Programs)
PNext == i <= Len(PList) /\ PrintT(<<"GEN", ToJson(<<PList[i][1], PList[i][2]>>)>>) /\ i' = i + 1
PSpec == Init /\ [][PNext]_i
=============================================================================
