SPECIFICATION Spec
CONSTANTS
  Arrays = {"profile", "profile_error", "data_profile"}
  LazyOnly = {"data_profile", "data_radius", "ee", "ree"}
  ZeroMethods = {}
  Variant = "raw_first_read"
  MaxDepth = 5
  Emit = FALSE
INVARIANT AllCachedAtCurrentScale
INVARIANT UnnormalizeRestoresRaw
CHECK_DEADLOCK FALSE
