SPECIFICATION Spec
CONSTANTS
  HasMax = TRUE
  KMax = 7
  KMin = 5
  MinZero = TRUE
  KEdge = 3
  KOut = 6
  HasRit = FALSE
  KRit = 0
  Variant = "repaired"
INVARIANT TypeOK
INVARIANT NoCrash
INVARIANT ReturnedOK
PROPERTY Termination
CHECK_DEADLOCK FALSE
