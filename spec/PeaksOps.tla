------------------------------- MODULE PeaksOps -------------------------------
(* find_peaks (C14): the returned pixels are exactly the unmasked, non-border pixels whose value exceeds the threshold and       *)
(* equals the maximum of their footprint neighbourhood (NaN replaced by the image minimum, zero padding outside the image);     *)
(* at most npeaks of them, the highest.  Footprint = set of <<dr, dc>> offsets.                                                   *)
EXTENDS Integers, Sequences, FiniteSets, FiniteSetsExt, SequencesExt, TLC, Json, Pix
\* scipy.ndimage window of an s-sized box along one axis: offsets -(s \div 2) .. s - (s \div 2) - 1
BoxOffsets(sy, sx) == ((-(sy \div 2))..(sy - (sy \div 2) - 1)) \X ((-(sx \div 2))..(sx - (sx \div 2) - 1))
Filled(d, nan) == LET fin == {d[p] : p \in (DOMAIN d) \ nan} IN [p \in DOMAIN d |-> IF p \in nan THEN Min(fin) ELSE d[p]]
NeighMax(d, p, fp) == LET nb == {<<p[1] + o[1], p[2] + o[2]>> : o \in fp}
                          inimg == nb \cap DOMAIN d
                      IN Max({d[q] : q \in inimg} \cup (IF inimg # nb THEN {0} ELSE {}))
Border(h, w, by, bx) == {p \in Grid(h, w) : p[1] < by \/ p[1] >= h - by \/ p[2] < bx \/ p[2] >= w - bx}
IsConstant(d) == Cardinality({d[p] : p \in DOMAIN d}) = 1
Peaks(d, nan, mask, thr, fp, h, w, by, bx) ==
  LET f == Filled(d, nan) IN
  {p \in DOMAIN d : p \notin mask /\ p \notin Border(h, w, by, bx) /\ f[p] > thr[p] /\ f[p] = NeighMax(f, p, fp)}
\* a returned selection R is admissible for npeaks iff it is a subset of the peaks of the right size keeping the highest values
Admissible(R, P, f, npeaks) ==
  /\ R \subseteq P /\ Cardinality(R) = Min({npeaks, Cardinality(P)})
  /\ \A a \in R, b \in P \ R : f[a] >= f[b]
=============================================================================
