SPECIFICATION Spec
CONSTANTS
  N = 4
  NProc = 3
  MaxLabel0 = 7
  Kids = {0, 2, 3}
  Variant = "appended"
  Emit = FALSE
INVARIANT ScheduleIndependent
CHECK_DEADLOCK FALSE
