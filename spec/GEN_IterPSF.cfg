SPECIFICATION Spec
CONSTANTS
  NChains = 3
  MaxDepth = 3
  MaxIters = 4
  Modes = {"new", "all"}
  Variant = "ok"
  AllowLoss = FALSE
  Emit = TRUE
CHECK_DEADLOCK FALSE
