---------------------------- MODULE Trace_IterPSF ----------------------------
(***************************************************************************)
(* Trace validation for IterPSF.tla (C12): recorded executions of the real *)
(* IterativePSFPhotometry on arbitrary (noisy, crowded) scenes.            *)
(* One case = the result tables T_1 .. T_K of runs with maxiters = 1 .. K  *)
(* on the same scene and configuration; consecutive tables must be related *)
(* by one Iterate step of IterPSF (what was detected is not logged: TLC     *)
(* infers it from the rows that appear):                                   *)
(*   first table : ids 1..n, iter_detected = 1, group ids numbered by      *)
(*                 first appearance, group sizes = multiplicities;         *)
(*   mode "new"  : T_k is a PREFIX of T_{k+1} row for row (ids, iteration, *)
(*                 group id, group size and the fitted values - as         *)
(*                 digests); appended rows carry iteration k+1, ids and    *)
(*                 group ids continue after the current maxima;            *)
(*   mode "all"  : the table is replaced: the sources whose fit window no   *)
(*                 longer overlaps the image are removed, the others keep  *)
(*                 their order and iteration, appended rows carry          *)
(*                 iteration k+1, ids are 1..N and groups are renumbered   *)
(*                 over all rows;                                          *)
(*   no new row  : the loop has ended - every later table equals T_k.      *)
(***************************************************************************)
EXTENDS Integers, Sequences, FiniteSets, TLC, Json, IOUtils, SequencesExt, FiniteSetsExt
Cases == JsonDeserialize(IOEnv.TRACE_FILE)
VARIABLE i
N(t) == Len(t.ids)
\* restricted growth string: numbered by first appearance (starting after `lo`)
FirstAppearance(s, lo) == \A k \in 1..Len(s) : s[k] >= lo + 1 /\ s[k] <= 1 + Max({lo} \cup {s[j] : j \in 1..(k - 1)})
SizesOK(t) == \A k \in 1..N(t) : t.gsizes[k] = Cardinality({j \in 1..N(t) : t.gids[j] = t.gids[k]})
IdsOK(t) == t.ids = [k \in 1..N(t) |-> k]
TableOK(t) ==
  IF ~IdsOK(t) THEN "rows_in_input_order_with_ids_1_to_n"
  ELSE IF ~SizesOK(t) THEN "group_size_counts_group_members"
  ELSE IF \E k \in 1..(N(t) - 1) : t.iters[k] > t.iters[k + 1] THEN "iter_detected_is_the_iteration_of_first_detection"
  ELSE "ok"
First(t) ==
  IF N(t) = 0 THEN "ok"
  ELSE IF \E k \in 1..N(t) : t.iters[k] # 1 THEN "iter_detected_is_the_iteration_of_first_detection"
  ELSE IF ~FirstAppearance(t.gids, 0) THEN "group_ids_numbered_by_first_appearance"
  ELSE "ok"
MaxOr0(s) == IF Len(s) = 0 THEN 0 ELSE Max({s[k] : k \in 1..Len(s)})
\* mode "all" re-fits every source from its previous fitted position; a source whose fit window (fit_shape around that position) no
\* longer overlaps the image is removed first (`_get_invalid_positions`: ceil(p - f/2) >= n or ceil(p + f/2) <= 0).  Positions in
\* 1/64 px; c.half = 64 * fit_shape / 2; a position within one unit of a limit is a don't-care.
Lim(c, n) == 64 * (n - 1) + c.half          \* p - f/2 > n - 1  <=>  64 p > Lim
Gone1(c, p, n) == p > Lim(c, n) \/ p <= -c.half
Tie1(c, p, n) == (p - Lim(c, n) <= 1 /\ Lim(c, n) - p <= 1) \/ (p + c.half <= 1 /\ -(p + c.half) <= 1)
Gone(c, t, j) == Gone1(c, t.y[j], c.h) \/ Gone1(c, t.x[j], c.w)
AnyTie(c, t) == \E j \in 1..N(t) : Tie1(c, t.y[j], c.h) \/ Tie1(c, t.x[j], c.w)
Kept(c, t) == SelectSeq([j \in 1..N(t) |-> j], LAMBDA j : ~Gone(c, t, j))
\* one Iterate step from table a (maxiters = k) to table b (maxiters = k + 1)
Step(c, a, b, k) ==
  LET mode == c.mode
      nnew == Cardinality({j \in 1..N(b) : b.iters[j] = k + 1})
  IN
  IF nnew = 0 THEN (IF b = a THEN "ok" ELSE "nothing_detected_ends_the_loop_with_the_table_unchanged")
  ELSE IF \E j \in 1..(N(b) - nnew) : b.iters[j] = k + 1 THEN "iter_detected_is_the_iteration_of_first_detection"      \* new rows come last
  ELSE IF mode = "new"
       THEN IF N(b) - nnew # N(a) THEN "mode_new_never_touches_the_rows_of_earlier_iterations"
            ELSE IF SubSeq(b.ids, 1, N(a)) # a.ids \/ SubSeq(b.iters, 1, N(a)) # a.iters \/ SubSeq(b.gids, 1, N(a)) # a.gids
                    \/ SubSeq(b.gsizes, 1, N(a)) # a.gsizes \/ SubSeq(b.key, 1, N(a)) # a.key
               THEN "mode_new_never_touches_the_rows_of_earlier_iterations"
            ELSE IF ~FirstAppearance(SubSeq(b.gids, N(a) + 1, N(b)), MaxOr0(a.gids)) THEN "new_group_ids_continue_after_the_largest_one"
            ELSE "ok"
  ELSE IF ~FirstAppearance(b.gids, 0) THEN "group_ids_numbered_by_first_appearance"
  ELSE IF AnyTie(c, a) THEN "ok"
  ELSE LET keep == Kept(c, a) IN
       IF N(b) - nnew # Len(keep) THEN "mode_all_keeps_exactly_the_sources_that_still_overlap_the_image"
       ELSE IF \E j \in 1..Len(keep) : b.iters[j] # a.iters[keep[j]] THEN "iter_detected_is_the_iteration_of_first_detection"
       ELSE "ok"
RECURSIVE Walk(_, _, _, _)
Walk(c, k, stopped, n) ==
  IF k > n THEN "ok"
  ELSE LET t == c.tables[k]  tk == TableOK(t) IN
       IF tk # "ok" THEN tk
       ELSE IF k = 1 THEN (LET f == First(t) IN IF f # "ok" THEN f ELSE Walk(c, 2, N(t) = 0, n))
       ELSE LET a == c.tables[k - 1] IN
            IF stopped THEN (IF t = a THEN Walk(c, k + 1, TRUE, n) ELSE "once_stopped_the_result_is_final")
            ELSE LET s == Step(c, a, t, k - 1) IN
                 IF s # "ok" THEN s ELSE Walk(c, k + 1, \A j \in 1..N(t) : t.iters[j] # k, n)
Clause(c) == Walk(c, 1, FALSE, Len(c.tables))
Init == i = 1
Next == /\ i <= Len(Cases)
        /\ LET cl == Clause(Cases[i]) IN PrintT(<<"V", ToJson([id |-> Cases[i].id, ok |-> (cl = "ok"), clause |-> cl])>>)
        /\ i' = i + 1
TSpec == Init /\ [][Next]_i
=============================================================================
