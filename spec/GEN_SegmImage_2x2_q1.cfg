SPECIFICATION Spec
CONSTANTS
  H = 2
  W = 2
  InitLabels = {0, 1, 3}
  NewLabels = {2, 4}
  MaxDepth = 3
  Acts = {"read", "reassign", "remove", "keep", "relabel", "border", "setdata"}
  Emit = TRUE
  Shard = 0
  NShards = 1
VIEW View
CHECK_DEADLOCK FALSE
