---------------------------- MODULE Trace_PSFModels ----------------------------
(* Acceptance predicates for recorded projections of PSF/PRF models (C13), fixed point S = 2^16 relative to the flux.          *)
(*  total    : sum over a pixel grid (PRF) or quadrature (PSF) of the model / flux                       -> S (+- tol)          *)
(*  minval   : minimum value over the grid / flux                                                       -> >= -tolneg           *)
(*  peak_off : squared distance (1/16 px units) between the brightest sample of a fine grid and (x_0, y_0) -> 0                  *)
(*  lin      : max |model(2 flux) - 2 model(flux)| / flux                                                  -> 0                  *)
(*  circ     : max |circular - elliptical with equal widths at this rotation| / flux                       -> 0                  *)
(*  forms    : max |sigma form - fwhm form| / flux                                                          -> 0                  *)
(*  kind "samples": image-based models at sample points: max |model - expected| scaled                      -> 0                  *)
EXTENDS Integers, Sequences, FiniteSets, TLC, Json, IOUtils
Cases == JsonDeserialize(IOEnv.TRACE_FILE)
VARIABLE i
S == 65536
Abs(x) == IF x < 0 THEN -x ELSE x
Clause(c) ==
  IF c.kind = "samples" THEN (IF c.raised THEN "evaluation_raises" ELSE IF c.maxdev > c.tol THEN c.rel ELSE "ok")
  ELSE IF c.raised THEN "evaluation_raises"
  ELSE IF Abs(c.total - S) > c.tol_total THEN "integrates_to_flux"
  ELSE IF c.minval < -8 THEN "non_negative"
  ELSE IF c.peak_off > c.tol_peak THEN "peak_at_x0_y0"
  ELSE IF c.lin > 4 THEN "linear_in_flux"
  ELSE IF c.has_circ /\ c.circ > c.tol_circ THEN "circular_equals_elliptical_with_equal_widths"
  ELSE IF c.has_forms /\ c.forms > 4 THEN "sigma_and_fwhm_forms_agree"
  ELSE IF c.has_psfref /\ c.psfref > 3277 THEN "pixel_integrated_gaussian_oriented_like_the_point_form"      \* 5 % of the peak
  ELSE "ok"
Init == i = 1
Next == /\ i <= Len(Cases)
        /\ LET cl == Clause(Cases[i]) IN PrintT(<<"V", ToJson([id |-> Cases[i].id, ok |-> (cl = "ok"), clause |-> cl])>>)
        /\ i' = i + 1
TSpec == Init /\ [][Next]_i
=============================================================================
