----------------------------- MODULE CentroidLoop -----------------------------
(***************************************************************************)
(* The per-source loop of centroid_sources (C17).  For each position the   *)
(* centroid function must receive that position's cutout of the data, of   *)
(* the error array and of the mask (OR the trimmed footprint mask), and    *)
(* xpeak/ypeak relative to that cutout's origin - whatever positions came  *)
(* before.  `kw` is the keyword dictionary actually handed over:           *)
(*   kw.err  : the sequence of cutout operations applied to the ORIGINAL   *)
(*             error array (<<i>> = sliced with window i)                  *)
(*   kw.xoff : what has been subtracted from the ORIGINAL xpeak            *)
(* Variant "rebuilt" builds the dictionary from the originals in every     *)
(* iteration (required); "carried" is the pinned code (the dictionary      *)
(* survives the iteration: error re-sliced, peak re-offset): rejected.     *)
(***************************************************************************)
EXTENDS Integers, Sequences, TLC
CONSTANTS NPos, Origins, Variant
VARIABLES i, kw, origin
vars == <<i, kw, origin>>
Init == i = 0 /\ kw = [err |-> <<>>, xoff |-> 0] /\ origin \in [1..NPos -> Origins]
Iter == /\ i < NPos /\ i' = i + 1 /\ UNCHANGED origin
        /\ kw' = IF Variant = "rebuilt" THEN [err |-> <<i + 1>>, xoff |-> origin[i + 1]]
                 ELSE [err |-> Append(kw.err, i + 1), xoff |-> kw.xoff + origin[i + 1]]
Spec == Init /\ [][Iter]_vars
PerSource == i > 0 => (kw.err = <<i>> /\ kw.xoff = origin[i])
=============================================================================
