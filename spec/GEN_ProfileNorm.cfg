SPECIFICATION Spec
CONSTANTS
  Arrays = {"profile", "profile_error", "data_profile"}
  LazyOnly = {"data_profile", "data_radius", "ee", "ree"}
  ZeroMethods = {}
  Variant = "scaled_first_read"
  MaxDepth = 4
  Emit = TRUE
CHECK_DEADLOCK FALSE
