------------------------------- MODULE Profiles -------------------------------
(* Case enumerator for ProfilesOps: every centre of a quarter-pixel lattice around (and off) a small integer   *)
(* image, a few radii lists, a few images (ramp, constant, ramp with bad pixels).  Invariants: the            *)
(* declarative consequences hold for the constructive sums; GEN configs print the expected values.             *)
EXTENDS ProfilesOps
CONSTANTS H, W, CMin, CMax, Images, RadiiKinds, Emit, Shard, NShards
VARIABLES img, cx, cy, radii, done
vars == <<img, cx, cy, radii, done>>
Px == Grid(H, W)
\* radii lists in quarter pixels (cfg files cannot hold tuples)
RadiiOf(k) == CASE k = "a" -> <<0, 3, 6, 10>> [] k = "b" -> <<2, 5, 7, 12, 30>> [] k = "c" -> <<1, 4>> [] k = "d" -> <<4, 8, 12, 16, 20>>
COff == 8   \* centres range over (CMin - COff)..(CMax - COff): cfg files cannot hold negative numbers
Data(k) == CASE k = "ramp" -> [p \in Px |-> 1 + p[2] + 5 * p[1]]
             [] k = "const" -> [p \in Px |-> 3]
             [] k = "signed" -> [p \in Px |-> ((p[1] * 3 + p[2] * 2) % 5) - 2]
             [] k = "rampbad" -> [p \in Px |-> 1 + p[2] + 5 * p[1]]
Err(k) == [p \in Px |-> 1 + ((p[1] + 2 * p[2]) % 3)]
Bad(k) == IF k = "rampbad" THEN {<<1, 1>>, <<2, 3>>, <<0, 0>>} \cap Px ELSE {}
Init == /\ img \in Images /\ cx \in (CMin - COff)..(CMax - COff) /\ cy \in (CMin - COff)..(CMax - COff) /\ (cx + 7 * cy) % NShards = Shard
        /\ radii \in {RadiiOf(k) : k \in RadiiKinds} /\ done = FALSE
Case == [img |-> img, data |-> ToRows(Data(img), H, W), err |-> ToRows(Err(img), H, W), bad |-> PixSeq(Bad(img)),
         cx |-> cx, cy |-> cy, radii |-> radii, tie |-> HasTie(Data(img), Bad(img), cx, cy, radii),
         cog |-> CogSeq(Data(img), Err(img), Bad(img), cx, cy, radii, FALSE),
         cog_closed |-> CogSeq(Data(img), Err(img), Bad(img), cx, cy, radii, TRUE),
         rp |-> RpSeq(Data(img), Err(img), Bad(img), cx, cy, radii, FALSE)]
Observe == /\ ~done /\ done' = TRUE /\ (Emit => PrintT(<<"GEN", ToJson(Case)>>)) /\ UNCHANGED <<img, cx, cy, radii>>
Spec == Init /\ [][Observe]_vars
ConstOK == ConstantGivesConstant(Data(img), Err(img), Bad(img), cx, cy, radii, 3)
MonoOK == NonNegMonotone(Data(img), Err(img), Bad(img), cx, cy, radii)
=============================================================================
