SPECIFICATION GSpec
CONSTANTS
  HasMax = TRUE
  KMax = 4
  KMin = 3
  MinZero = FALSE
  KEdge = 1
  KOut = 3
  HasRit = FALSE
  KRit = 0
  Variant = "repaired"
CHECK_DEADLOCK FALSE
INVARIANT GeoShape
INVARIANT NoDivergedGeometry
