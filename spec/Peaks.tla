--------------------------------- MODULE Peaks ---------------------------------
(* Enumerator / design-level check for PeaksOps: every small image x mask x border x footprint; GEN prints the expected peak set. *)
EXTENDS PeaksOps
CONSTANTS H, W, Vals, FpKinds, Borders, MaskKinds, ThrVals, Emit, Shard, NShards
VARIABLES d, fpk, bw, maskk, msk, thr, done
vars == <<d, fpk, bw, maskk, msk, thr, done>>
Px == Grid(H, W)
Fp(k) == CASE k = "box3" -> BoxOffsets(3, 3) [] k = "box2" -> BoxOffsets(2, 2) [] k = "box13" -> BoxOffsets(1, 3)
           [] k = "cross" -> {<<0, 0>>, <<0, 1>>, <<0, -1>>, <<1, 0>>, <<-1, 0>>} [] k = "box5" -> BoxOffsets(5, 5)
Bw(k) == CASE k = "none" -> <<0, 0>> [] k = "b1" -> <<1, 1>> [] k = "b01" -> <<0, 1>> [] k = "b10" -> <<1, 0>>
MaskSets(k) == CASE k = "none" -> {{}} [] k = "one" -> {{p} : p \in Px}
ShardOf(x) == (x[<<0, 0>>] + 3 * x[<<0, 1>>] + 5 * x[<<1, 0>>] + 7 * x[<<H-1, W-1>>] + 11 * x[<<1, 1>>]) % NShards
Init == /\ d \in {x \in [Px -> Vals] : ShardOf(x) = Shard} /\ fpk \in FpKinds /\ bw \in Borders /\ maskk \in MaskKinds /\ msk \in MaskSets(maskk)
        /\ thr \in ThrVals /\ done = FALSE
ThrF == [p \in Px |-> thr]
P == Peaks(d, {}, msk, ThrF, Fp(fpk), H, W, Bw(bw)[1], Bw(bw)[2])
Case == [data |-> ToRows(d, H, W), fp |-> fpk, border |-> Bw(bw), mask |-> PixSeq(msk), thr |-> thr, constant |-> IsConstant(d), peaks |-> PixSeq(P)]
Observe == ~done /\ done' = TRUE /\ (Emit => PrintT(<<"GEN", ToJson(Case)>>)) /\ UNCHANGED <<d, fpk, bw, maskk, msk, thr>>
Spec == Init /\ [][Observe]_vars
\* declarative reading: no peak is masked, in the border or at/below threshold; no in-footprint neighbour is larger; and every pixel with these
\* properties is a peak
Declarative == \A p \in Px : (p \in P) <=> (/\ p \notin msk /\ p \notin Border(H, W, Bw(bw)[1], Bw(bw)[2]) /\ d[p] > thr
                                            /\ \A o \in Fp(fpk) : LET q == <<p[1] + o[1], p[2] + o[2]>> IN (q \in Px => d[q] <= d[p]) /\ (q \notin Px => 0 <= d[p]))
=============================================================================
