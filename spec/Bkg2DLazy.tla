------------------------------ MODULE Bkg2DLazy ------------------------------
(***************************************************************************)
(* Background2D's lazily evaluated meshes (C09).                           *)
(*                                                                         *)
(* The box statistics _bkg_stats / _bkgrms_stats are deleted to save       *)
(* memory once they are no longer needed.  "Needed" is subtle: with a      *)
(* selective filter (filter_threshold above the smallest mesh value) the   *)
(* median filter of BOTH meshes reads _bkg_stats.  The model keeps, per    *)
(* object, which meshes are cached and which statistics still exist; every *)
(* public read is an action.  NoReadRaises: whatever was read before,      *)
(* every read finds the statistics it needs.  Abstractly every read        *)
(* returns F(constructor arguments, attribute) - the conformance harness   *)
(* compares each returned value bit-wise with a fresh object's.            *)
(*                                                                         *)
(* Variant "delete_after_filter" is the required discipline; variant       *)
(* "delete_before_filter" is the pinned code (background_mesh deleted      *)
(* _bkg_stats before the selective filter used it): TLC must reject it.    *)
(***************************************************************************)
EXTENDS Integers, Sequences, FiniteSets, TLC, Json
CONSTANTS ThrKinds,    \* subset of {"none", "below_min", "selective", "selective_zero"}  (selective_zero: filter_threshold = 0, a falsy
                       \* value that is not None, on data with non-positive meshes - the selective path all the same)
          Variant, MaxDepth, Emit
Reads == {"background_mesh", "background_rms_mesh", "background", "background_rms",
          "background_median", "background_rms_median", "npixels_mesh", "npixels_map"}
VARIABLES thr, cached, bkgStats, rmsStats, hist, failed
vars == <<thr, cached, bkgStats, rmsStats, hist, failed>>

Selective == thr \in {"selective", "selective_zero"}
\* what evaluating a mesh needs and does
CanBkgMesh == bkgStats = "present"
CanRmsMesh == rmsStats = "present" /\ (Selective => bkgStats = "present")
\* in the pinned variant the deletion happens before the filter: a selective filter then finds nothing
BkgMeshFails == \/ ~CanBkgMesh
                \/ (Variant = "delete_before_filter" /\ Selective /\ "background_rms_mesh" \in cached)
DoBkgMesh(c, b) == <<c \cup {"background_mesh"},
                     IF "background_rms_mesh" \in c \/ thr = "none" THEN "deleted" ELSE b>>
\* meshes a read evaluates (in order)
Needs(r) == CASE r \in {"background_mesh", "background", "background_median"} -> <<"background_mesh">>
              [] r \in {"background_rms_mesh", "background_rms", "background_rms_median"} -> <<"background_rms_mesh">>
              [] OTHER -> <<>>
Read(r) ==
  /\ Len(hist) < MaxDepth /\ ~failed
  /\ hist' = Append(hist, r)
  /\ LET need == {m \in {Needs(r)[i] : i \in 1..Len(Needs(r))} : m \notin cached} IN
     IF need = {} THEN /\ cached' = cached \cup (IF r \in {"background_median", "background_rms_median"} THEN {r} ELSE {})
                       /\ UNCHANGED <<bkgStats, rmsStats, failed>>
     ELSE IF "background_mesh" \in need THEN
            IF BkgMeshFails THEN failed' = TRUE /\ UNCHANGED <<cached, bkgStats, rmsStats>>
            ELSE /\ cached' = DoBkgMesh(cached, bkgStats)[1] \cup (IF r = "background_median" THEN {r} ELSE {})
                 /\ bkgStats' = DoBkgMesh(cached, bkgStats)[2]
                 /\ UNCHANGED <<rmsStats, failed>>
     ELSE IF ~CanRmsMesh THEN failed' = TRUE /\ UNCHANGED <<cached, bkgStats, rmsStats>>
          ELSE /\ cached' = cached \cup {"background_rms_mesh"} \cup (IF r = "background_rms_median" THEN {r} ELSE {})
               /\ rmsStats' = "deleted" /\ UNCHANGED <<bkgStats, failed>>
  /\ ((Emit = "transitions" \/ (Emit = "leaves" /\ Len(hist') = MaxDepth)) => PrintT(<<"GEN", ToJson([thr |-> thr, path |-> hist'])>>))
  /\ UNCHANGED thr

Init == thr \in ThrKinds /\ cached = {} /\ bkgStats = "present" /\ rmsStats = "present" /\ hist = <<>> /\ failed = FALSE
Next == \E r \in Reads : Read(r)
Spec == Init /\ [][Next]_vars

NoReadRaises == ~failed
\* statistics are only deleted when nothing will need them again
StatsKeptWhileNeeded == /\ ("background_mesh" \notin cached => bkgStats = "present")
                        /\ ("background_rms_mesh" \notin cached => (rmsStats = "present" /\ (Selective => bkgStats = "present")))
View == <<thr, cached, bkgStats, rmsStats, failed>>
=============================================================================
