----------------------------- MODULE Trace_ApPhot -----------------------------
(***************************************************************************)
(* Aperture sums (C02): for every position                                 *)
(*   sum  = SUM w*data, err^2 = SUM w*error^2, area = SUM w                *)
(* over exactly the pixels inside the image with w > 0 and not masked;     *)
(* NaN iff the aperture's box misses the image; a non-finite data value    *)
(* on a counted pixel makes the sum non-finite.                            *)
(* kind "lattice": the weights are NOT taken from the implementation - TLC *)
(*   recomputes box and inside-counts with ApMask (shape on the half-pixel *)
(*   lattice, rational angle, subpixels s) and forms the exact sums;       *)
(* kind "logged" : any aperture / method; the weight cutout is logged in   *)
(*   fixed point and TLC forms the sums from it;                           *)
(* kind "pair"   : two result vectors that must agree (many positions vs   *)
(*   one at a time, list of apertures vs single, table form vs             *)
(*   do_photometry, NDData form, poisoned masked / zero-weight pixels,     *)
(*   additivity in data, sky aperture vs to_pixel(wcs)).                   *)
(* Fixed point: sums S = 4096, errors 64.                                  *)
(***************************************************************************)
EXTENDS ApMask, IOUtils
Cases == JsonDeserialize(IOEnv.TRACE_FILE)
VARIABLE i
S == 4096
PixSetOf(sq) == {<<sq[j][1], sq[j][2]>> : j \in 1..Len(sq)}
R == (-12)..16

\* exact sums for a lattice case; returns a record with numerators over s^2
Lattice(c) ==
  LET sh == c.shape  Q == c.q  s == c.s
      bx == <<BoxLo(sh, c.cx, 1, Q, R), BoxHi(sh, c.cx, 1, Q, R), BoxLo(sh, c.cy, 2, Q, R), BoxHi(sh, c.cy, 2, Q, R)>>
      ny == Len(c.data)  nx == Len(c.data[1])
      common == {p \in (bx[3]..(bx[4] - 1)) \X (bx[1]..(bx[2] - 1)) : 0 <= p[1] /\ p[1] < ny /\ 0 <= p[2] /\ p[2] < nx}
      cnt == [p \in common |-> Count(sh, c.cx, c.cy, p[1], p[2], s, Q, "impl")]
      cntl == [p \in common |-> Count(sh, c.cx, c.cy, p[1], p[2], s, Q, "lower")]
      cntc == [p \in common |-> Count(sh, c.cx, c.cy, p[1], p[2], s, Q, "upper")]
      good == {p \in common : cnt[p] > 0 /\ p \notin PixSetOf(c.mask)}
      d == [p \in common |-> c.data[p[1] + 1][p[2] + 1]]
      e == [p \in common |-> c.err[p[1] + 1][p[2] + 1]]
      \* for circles and unrotated shapes all quantities are dyadic, the implementation's arithmetic is exact and the strict
      \* convention decides boundary points; for rotated shapes (irrational cos/sin in floating point) boundary points are don't-cares
      \* (also sub-pixel steps 1/s are only exact in binary floating point when s is a power of two)
      rotated == (sh.kind \notin {"circle", "cann"} /\ sh.ang # 0) \/ s \notin {1, 2, 4, 8}
  IN [nooverlap |-> common = {}, tie |-> rotated /\ ((\E p \in common : cntl[p] # cntc[p]) \/ BoxTie(sh, c.cx, 1, Q, R) \/ BoxTie(sh, c.cy, 2, Q, R)),
      nonfinite |-> good \cap PixSetOf(c.nonfinite) # {},
      sum |-> FoldSet(LAMBDA p, acc : acc + cnt[p] * d[p], 0, good),
      var |-> FoldSet(LAMBDA p, acc : acc + cnt[p] * e[p] * e[p], 0, good),
      area |-> FoldSet(LAMBDA p, acc : acc + cnt[p], 0, good)]
LatticeClause(c) ==
  LET x == Lattice(c)  s2 == c.s * c.s IN
  IF x.tie THEN "ok"                                           \* boundary ties: don't-care
  ELSE IF x.nooverlap THEN (IF c.sum_nan /\ c.area_nan THEN "ok" ELSE "nan_iff_box_misses_image")
  ELSE IF x.nonfinite THEN (IF c.sum_nan THEN "ok" ELSE "nonfinite_counted_pixel_propagates")
  ELSE IF c.sum_nan \/ c.area_nan THEN "nan_iff_box_misses_image"
  ELSE IF Abs(c.sum_k * s2 - S * x.sum) > 2 * s2 THEN "sum_is_weighted_sum_over_unmasked_in_image_pixels"
  ELSE IF Abs(c.area_k * s2 - S * x.area) > 2 * s2 THEN "area_overlap_is_sum_of_weights_over_same_pixels"
  ELSE IF c.has_error /\ Abs(c.err_k * c.err_k * s2 - 4096 * x.var) > (2 * c.err_k + 2) * s2 THEN "error_is_quadrature_sum_over_same_pixels"
  ELSE "ok"

\* logged weights: w in 1/4096; box and image given
LoggedClause(c) ==
  LET bx == c.box  ny == Len(c.data)  nx == Len(c.data[1])
      common == {p \in (bx[3]..(bx[4] - 1)) \X (bx[1]..(bx[2] - 1)) : 0 <= p[1] /\ p[1] < ny /\ 0 <= p[2] /\ p[2] < nx}
      w == [p \in common |-> c.w[p[1] - bx[3] + 1][p[2] - bx[1] + 1]]
      good == {p \in common : w[p] > 0 /\ p \notin PixSetOf(c.mask)}
      sum == FoldSet(LAMBDA p, acc : acc + w[p] * c.data[p[1] + 1][p[2] + 1], 0, good)         \* in 1/4096
      area == FoldSet(LAMBDA p, acc : acc + w[p], 0, good)
      var == FoldSet(LAMBDA p, acc : acc + w[p] * c.err[p[1] + 1][p[2] + 1] * c.err[p[1] + 1][p[2] + 1], 0, good)   \* in 1/4096
      n == Cardinality(good) + 2
  IN IF common = {} THEN (IF c.sum_nan /\ c.area_nan THEN "ok" ELSE "nan_iff_box_misses_image")
     ELSE IF good \cap PixSetOf(c.nonfinite) # {} THEN (IF c.sum_nan THEN "ok" ELSE "nonfinite_counted_pixel_propagates")
     ELSE IF c.sum_nan \/ c.area_nan THEN "nan_iff_box_misses_image"
     ELSE IF Abs(c.sum_k - sum) > 8 * n THEN "sum_is_weighted_sum_over_unmasked_in_image_pixels"
     ELSE IF Abs(c.area_k - area) > n THEN "area_overlap_is_sum_of_weights_over_same_pixels"
     ELSE IF c.has_error /\ Abs(c.err_k * c.err_k - var) > (2 * c.err_k + 2) + 8 * n THEN "error_is_quadrature_sum_over_same_pixels"
     ELSE "ok"
PairClause(c) ==
  IF Len(c.a) # Len(c.b) THEN c.rel
  ELSE IF \E k \in 1..Len(c.a) : c.a_nan[k] # c.b_nan[k] THEN c.rel
  ELSE IF \E k \in 1..Len(c.a) : ~c.a_nan[k] /\ Abs(c.a[k] - c.b[k]) > c.tol THEN c.rel
  ELSE "ok"
Clause(c) == CASE c.kind = "lattice" -> LatticeClause(c) [] c.kind = "logged" -> LoggedClause(c) [] c.kind = "pair" -> PairClause(c)
Init == i = 1
Next == /\ i <= Len(Cases)
        /\ LET cl == Clause(Cases[i]) IN PrintT(<<"V", ToJson([id |-> Cases[i].id, ok |-> (cl = "ok"), clause |-> cl])>>)
        /\ i' = i + 1
TSpec == Init /\ [][Next]_i
=============================================================================
