------------------------------ MODULE Trace_Peaks ------------------------------
(* TLC as oracle for recorded find_peaks calls on larger images (NaN, plateaus, negative regions, 2-D thresholds, masks, asymmetric *)
(* borders, footprints, npeaks) and for the result tables of DAOStarFinder / IRAFStarFinder / StarFinder (C14).                    *)
(* Star finder rows: every returned row satisfies the configured inclusive bounds, ids are 1..N, values finite, brightest=k keeps   *)
(* the k largest fluxes of the unrestricted run, xycoords restricts the result to those positions, separations respected.          *)
(* Fixed point S = 1024 for the star-finder columns.                                                                                *)
EXTENDS PeaksOps, IOUtils
Cases == JsonDeserialize(IOEnv.TRACE_FILE)
VARIABLE i
PixSetOf(sq) == {<<sq[j][1], sq[j][2]>> : j \in 1..Len(sq)}
PeaksClause(c) ==
  LET d == FromRows(c.data)  h == Len(c.data)  w == Len(c.data[1])
      nan == PixSetOf(c.nan)  f == Filled(d, nan)
      P == Peaks(d, nan, PixSetOf(c.mask), FromRows(c.thr), PixSetOf(c.fp), h, w, c.border[1], c.border[2])
      R == PixSetOf(c.out)
  IN IF IsConstant(f) THEN (IF c.none THEN "ok" ELSE "constant_image_gives_none")
     ELSE IF P = {} THEN (IF c.none THEN "ok" ELSE "none_iff_no_peak")
     ELSE IF c.none THEN "none_iff_no_peak"
     ELSE IF Len(c.out) # Cardinality(R) THEN "peaks_listed_once"
     ELSE IF ~(R \subseteq P) THEN "returned_pixel_is_not_a_contract_peak"
     ELSE IF ~Admissible(R, P, f, c.npeaks) THEN "keeps_the_npeaks_highest_peaks"
     ELSE IF \E k \in 1..Len(c.out) : c.values[k] # f[<<c.out[k][1], c.out[k][2]>>] THEN "peak_value_column"
     ELSE IF c.ids # [k \in 1..Len(c.out) |-> k] THEN "ids_are_1_to_n"
     \* refinement: centroid_func = centre of mass over the footprint window around the peak, clipped to the image, without
     \* the masked pixels, on the NaN-filled values (fixed point 1024; NaN iff the total is zero)
     ELSE IF c.refine /\ Len(c.cen) # Len(c.out) THEN "one_centroid_per_peak"
     ELSE IF c.refine /\ \E k \in 1..Len(c.out) :
               LET pk == <<c.out[k][1], c.out[k][2]>>
                   W == {q \in DOMAIN d : <<q[1] - pk[1], q[2] - pk[2]>> \in PixSetOf(c.fp)} \ PixSetOf(c.mask)
                   tot == FoldSet(LAMBDA q, acc : acc + f[q], 0, W)
                   sx == FoldSet(LAMBDA q, acc : acc + q[2] * f[q], 0, W)
                   sy == FoldSet(LAMBDA q, acc : acc + q[1] * f[q], 0, W)
                   AbsV(x) == IF x < 0 THEN -x ELSE x
               IN IF tot = 0 THEN ~c.cen[k][3]
                  ELSE c.cen[k][3] \/ AbsV(c.cen[k][1] * tot - 1024 * sx) > AbsV(tot) + 1 \/ AbsV(c.cen[k][2] * tot - 1024 * sy) > AbsV(tot) + 1
          THEN "centroid_column_is_centroid_func_of_the_peak_window"
     ELSE "ok"
\* star finders: rows as records of fixed-point ints; cfg gives the bounds
SS == 1024      \* fixed point of the star-finder rows
InR(x, lo, hi) == lo <= x /\ x <= hi
StarClause(c) ==
  LET n == Len(c.rows) IN
  \* peakmax keeps EXACTLY the sources of the run without it whose reported peak is <= peakmax (counts of the two runs without `brightest`)
  IF "pm_got" \in DOMAIN c /\ c.pm_expected # c.pm_got THEN "peakmax_keeps_exactly_the_sources_at_or_below_it"
  ELSE IF c.none THEN (IF n = 0 THEN "ok" ELSE "none_iff_nothing_qualifies")
  ELSE IF n = 0 THEN "none_iff_nothing_qualifies"
  ELSE IF \E k \in 1..n : c.rows[k].id # k THEN "ids_are_1_to_n"
  ELSE IF \E k \in 1..n : ~c.rows[k].finite THEN "values_finite"
  ELSE IF \E k \in 1..n : ~InR(c.rows[k].sharp, c.sharplo, c.sharphi) THEN "sharpness_within_inclusive_bounds"
  ELSE IF \E k \in 1..n : ~InR(c.rows[k].round1, c.roundlo, c.roundhi) \/ ~InR(c.rows[k].round2, c.roundlo, c.roundhi) THEN "roundness_within_inclusive_bounds"
  ELSE IF c.peakmax >= 0 /\ \E k \in 1..n : c.rows[k].peak > c.peakmax THEN "peak_not_above_peakmax"
  ELSE IF c.brightest > 0 /\ n > c.brightest THEN "brightest_keeps_at_most_n"
  \* brightest = k: the k largest fluxes of the unrestricted run (multiset of fluxes, as sorted sequences)
  ELSE IF c.brightest > 0 /\ c.fluxes_sorted # SubSeq(c.all_fluxes_sorted, 1, Min({c.brightest, Len(c.all_fluxes_sorted)})) THEN "brightest_keeps_the_largest_fluxes"
  \* every centroid lies within the kernel footprint of a detected peak (half-sizes in S units) or of a supplied coordinate
  ELSE IF \E k \in 1..n : ~\E j \in 1..Len(c.peaks) : Abs(c.rows[k].x - c.peaks[j][1]) <= c.khx /\ Abs(c.rows[k].y - c.peaks[j][2]) <= c.khy THEN "centroid_within_kernel_of_a_peak"
  \* every centroid lies on the frame ([-1/2, n - 1/2] per axis)
  ELSE IF \E k \in 1..n : c.rows[k].x < -(SS \div 2) \/ c.rows[k].x > c.w \/ c.rows[k].y < -(SS \div 2) \/ c.rows[k].y > c.h THEN "centroid_on_the_frame"
  \* a row that belongs to an isolated true source (within 3 px of it) is centred on it (within 1.2 px)
  ELSE IF \E k \in 1..n, j \in 1..Len(c.truth) :
            LET dx == Abs(c.rows[k].x - c.truth[j][1])  dy == Abs(c.rows[k].y - c.truth[j][2]) IN
            dx <= 3 * SS /\ dy <= 3 * SS /\ (dx > (12 * SS) \div 10 \/ dy > (12 * SS) \div 10) THEN "centroid_on_its_isolated_source"
  \* separation: no two returned sources closer than min_separation (squared, S^2 units scaled down by 64 to stay within 32 bits)
  ELSE IF c.minsep2 > 0 /\ \E a, b \in 1..n : a < b /\
            ((c.rows[a].x - c.rows[b].x) \div 8) * ((c.rows[a].x - c.rows[b].x) \div 8) + ((c.rows[a].y - c.rows[b].y) \div 8) * ((c.rows[a].y - c.rows[b].y) \div 8) < c.minsep2 - c.septol THEN "sources_separated_by_min_separation"
  ELSE "ok"
PairClause(c) == IF c.a = c.b THEN "ok" ELSE c.rel
Clause(c) == CASE c.kind = "peaks" -> PeaksClause(c) [] c.kind = "star" -> StarClause(c) [] c.kind = "pair" -> PairClause(c)
Init == i = 1
Next == /\ i <= Len(Cases)
        /\ LET cl == Clause(Cases[i]) IN PrintT(<<"V", ToJson([id |-> Cases[i].id, ok |-> (cl = "ok"), clause |-> cl])>>)
        /\ i' = i + 1
TSpec == Init /\ [][Next]_i
=============================================================================
