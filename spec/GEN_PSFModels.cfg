SPECIFICATION Spec
CONSTANTS
  Layouts = {"2x2", "3x2", "2x3", "3x3", "5x3"}
  XLo = 2
  XHi = 42
  Emit = TRUE
CHECK_DEADLOCK FALSE
