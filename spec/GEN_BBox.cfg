SPECIFICATION Spec
CONSTANTS
  Q = 4
  CLo = 2
  CHi = 42
  NMax = 4
  Emit = TRUE
CHECK_DEADLOCK FALSE
