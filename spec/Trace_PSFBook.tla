------------------------------ MODULE Trace_PSFBook ------------------------------
(* Validation of PSFPhotometry result tables (C12) on scenes rendered from the same PSF model.  Positions are integers in          *)
(* quarter pixels; real-valued columns are fixed point (S = 4096 for positions, relative 2^-14 for fluxes).                         *)
EXTENDS CentroidOps, IOUtils
Cases == JsonDeserialize(IOEnv.TRACE_FILE)
VARIABLE i
PixSetOf(sq) == {<<sq[j][1], sq[j][2]>> : j \in 1..Len(sq)}
N(c) == Len(c.pos)
D2(c, a, b) == (c.pos[a][1] - c.pos[b][1]) * (c.pos[a][1] - c.pos[b][1]) + (c.pos[a][2] - c.pos[b][2]) * (c.pos[a][2] - c.pos[b][2])
\* single-linkage clusters: reachability closure of "distance <= t"
RECURSIVE Reach(_, _, _)
Reach(c, seed, t2) == LET nxt == seed \cup {b \in 1..N(c) : \E a \in seed : D2(c, a, b) <= t2} IN IF nxt = seed THEN seed ELSE Reach(c, nxt, t2)
Cluster(c, a) == Reach(c, {a}, c.t * c.t)
\* group id of source a by first appearance in input order: number of distinct clusters among the sources up to the first member of a's cluster
FirstAppearanceId(c, a) == Cardinality({Min(Cluster(c, b)) : b \in 1..Min(Cluster(c, a))})
SepTie(c) == \E a, b \in 1..N(c) : a # b /\ D2(c, a, b) = c.t * c.t
ExpectedGid(c, a) == CASE c.grouping = "grouper" -> FirstAppearanceId(c, a) [] c.grouping \in {"supplied", "both"} -> c.supplied[a] [] OTHER -> a
Window(c, a) == {p \in Grid(c.h, c.w) : LargeLo(c.pos[a][2], c.fit[1], c.h) <= p[1] /\ p[1] < LargeHi(c.pos[a][2], c.fit[1], c.h)
                                         /\ LargeLo(c.pos[a][1], c.fit[2], c.w) <= p[2] /\ p[2] < LargeHi(c.pos[a][1], c.fit[2], c.w)}
Clause(c) ==
  \* a source whose whole fit window is masked is refused (documented ValueError)
  IF \E a \in 1..N(c) : Window(c, a) \ PixSetOf(c.mask) = {} THEN (IF c.raised THEN "ok" ELSE "completely_masked_source_must_raise")
  ELSE IF c.raised THEN "valid_scene_raises"
  ELSE IF c.id_col # [a \in 1..N(c) |-> a] THEN "rows_in_input_order_with_ids_1_to_n"
  ELSE IF c.grouping = "grouper" /\ SepTie(c) THEN "ok"
  ELSE IF \E a \in 1..N(c) : c.group_id[a] # ExpectedGid(c, a) THEN "group_ids_are_single_linkage_clusters_or_supplied"
  ELSE IF \E a \in 1..N(c) : c.group_size[a] # Cardinality({b \in 1..N(c) : ExpectedGid(c, b) = ExpectedGid(c, a)}) THEN "group_size_counts_group_members"
  ELSE IF \E a \in 1..N(c) : c.npixfit[a] # Cardinality(Window(c, a) \ PixSetOf(c.mask)) THEN "npixfit_counts_unmasked_window_pixels"
  ELSE IF \E a \in 1..N(c) : (c.flags[a] % 2 = 1) # (c.npixfit[a] < c.fit[1] * c.fit[2]) THEN "flag_1_iff_window_incomplete"
  ELSE IF \E a \in 1..N(c) : ((c.flags[a] \div 4) % 2 = 1) # (c.flux_fit[a] <= 0) THEN "flag_4_iff_non_positive_flux"
  \* flag 2: "the fit x and/or y position lies outside of the input data".  Positions in 1/4096 px; the data cover [-1/2, n - 1/2] per axis.
  \* Decided where the documented meaning is unambiguous: a position in [0, n - 1/2] on both axes is ON the data (flag clear); a position
  \* below -1/2 or above n on an axis is outside (flag set); the two half-pixel rims in between are don't-cares.
  ELSE IF \E a \in 1..N(c) : (c.flags[a] \div 2) % 2 = 1 /\ c.x_fit[a] >= 0 /\ c.x_fit[a] <= 4096 * (c.w - 1) + 2048 /\ c.y_fit[a] >= 0 /\ c.y_fit[a] <= 4096 * (c.h - 1) + 2048
       THEN "flag_2_only_when_fit_position_outside_the_data"
  ELSE IF \E a \in 1..N(c) : (c.flags[a] \div 2) % 2 = 0 /\ (c.x_fit[a] < -2048 \/ c.x_fit[a] > 4096 * c.w \/ c.y_fit[a] < -2048 \/ c.y_fit[a] > 4096 * c.h)
       THEN "flag_2_when_fit_position_outside_the_data"
  \* flag 32: the fitted position sits on a bound of its xy_bounds box (gap in 1e-9 px; between 1e-9 and 1e-6 px is a don't-care)
  ELSE IF \E a \in 1..N(c) : c.bound_gap[a] >= 0 /\ c.bound_gap[a] <= 1 /\ (c.flags[a] \div 32) % 2 = 0 THEN "flag_32_when_fit_ends_on_a_bound"
  ELSE IF \E a \in 1..N(c) : (c.bound_gap[a] < 0 \/ c.bound_gap[a] > 1000) /\ (c.flags[a] \div 32) % 2 = 1 THEN "flag_32_only_when_fit_ends_on_a_bound"
  ELSE IF \E a \in 1..N(c) : c.fixed_changed[a] THEN "fixed_parameters_keep_initial_value"
  \* recovery of the rendered values (sources whose window is complete and unmasked, i.e. well constrained)
  ELSE IF \E a \in 1..N(c) : c.check_recovery /\ (Abs(c.x_fit[a] - c.x_true[a]) > c.tol_pos \/ Abs(c.y_fit[a] - c.y_true[a]) > c.tol_pos) THEN "recovers_rendered_positions"
  ELSE IF \E a \in 1..N(c) : c.check_recovery /\ Abs(c.flux_fit[a] - c.flux_true[a]) > c.tol_flux THEN "recovers_rendered_fluxes"
  ELSE IF c.check_recovery /\ c.resid_k > c.tol_resid THEN "residual_image_is_zero"
  ELSE IF ~c.maskblind_ok THEN "values_under_the_mask_do_not_matter"
  ELSE IF ~c.units_ok THEN "convertible_units_give_the_same_physical_result"
  ELSE IF ~c.scaled_ok THEN "fluxes_scale_with_the_image"
  ELSE IF ~c.scaled_huge_ok THEN "fluxes_scale_with_the_image_by_2_to_30"
  ELSE IF ~c.scaled_tiny_ok THEN "fluxes_scale_with_the_image_by_2_to_minus_30"
  ELSE IF ~c.iter_equal THEN "iterative_with_one_iteration_equals_single"
  ELSE "ok"
Init == i = 1
Next == /\ i <= Len(Cases)
        /\ LET cl == Clause(Cases[i]) IN PrintT(<<"V", ToJson([id |-> Cases[i].id, ok |-> (cl = "ok"), clause |-> cl])>>)
        /\ i' = i + 1
TSpec == Init /\ [][Next]_i
=============================================================================
