----------------------------- MODULE Trace_Catalog -----------------------------
(***************************************************************************)
(* SourceCatalog measurements (C07) on integer scenes: for every label     *)
(*   S(l)  = pixels carrying l, unmasked, with finite data                 *)
(*   M(l)  = pixels carrying l, unmasked, with finite non-negative         *)
(*           convolved value (moment footprint)                            *)
(* segment_flux = SUM data, segment_fluxerr^2 = SUM err^2, area = |S|,     *)
(* segment_area = |label pixels|, bbox = minimal box of the label pixels,  *)
(* min/max value and first (raster) index of it over S, background sum /   *)
(* mean over S, raw image moments of the convolved data over M relative to *)
(* the bbox origin, centroid = origin + m01/m00, m10/m00.  A completely    *)
(* masked source gives NaN.  kind "pair": two row sets that must agree     *)
(* (poison outside the footprint, label renumbering, row reordering,       *)
(* detection catalog delegation).  Fixed point S = 4096.                   *)
(***************************************************************************)
EXTENDS Integers, Sequences, FiniteSets, FiniteSetsExt, SequencesExt, TLC, Json, IOUtils, Pix
Cases == JsonDeserialize(IOEnv.TRACE_FILE)
VARIABLE i
S == 4096
PixSetOf(sq) == {<<sq[j][1], sq[j][2]>> : j \in 1..Len(sq)}
Near(a, b, tol) == a - b <= tol /\ b - a <= tol
SumG(g, T) == FoldSet(LAMBDA p, acc : acc + g[p[1] + 1][p[2] + 1], 0, T)
\* first pixel in raster order among those of T attaining value val in rows g
FirstWith(g, T, val) == FirstPixel({p \in T : g[p[1] + 1][p[2] + 1] = val})
RowClause(c, r) ==
  LET seg == FromRows(c.segm)
      L == {p \in DOMAIN seg : seg[p] = r.label}
      bad == PixSetOf(c.mask) \cup PixSetOf(c.nonfinite)
      Sl == L \ bad
      Ml == {p \in L : p \notin PixSetOf(c.mask) /\ p \notin PixSetOf(c.conv_nonfinite) /\ c.conv[p[1] + 1][p[2] + 1] >= 0}
      bx == BoxOf(L)
      vals == {c.data[p[1] + 1][p[2] + 1] : p \in Sl}
      m00 == SumG(c.conv, Ml)
      m01 == FoldSet(LAMBDA p, acc : acc + (p[2] - bx[3]) * c.conv[p[1] + 1][p[2] + 1], 0, Ml)       \* x moment
      m10 == FoldSet(LAMBDA p, acc : acc + (p[1] - bx[1]) * c.conv[p[1] + 1][p[2] + 1], 0, Ml)       \* y moment
      m11 == FoldSet(LAMBDA p, acc : acc + (p[1] - bx[1]) * (p[2] - bx[3]) * c.conv[p[1] + 1][p[2] + 1], 0, Ml)
      m02 == FoldSet(LAMBDA p, acc : acc + (p[2] - bx[3]) * (p[2] - bx[3]) * c.conv[p[1] + 1][p[2] + 1], 0, Ml)
      m20 == FoldSet(LAMBDA p, acc : acc + (p[1] - bx[1]) * (p[1] - bx[1]) * c.conv[p[1] + 1][p[2] + 1], 0, Ml)
  IN IF L = {} THEN "row_label_is_a_label_of_the_map"
     ELSE IF r.segment_area # Cardinality(L) THEN "segment_area_counts_label_pixels"
     ELSE IF r.bbox # <<bx[3], bx[4], bx[1], bx[2]>> THEN "bbox_is_minimal_box_of_label_pixels"
     ELSE IF Sl = {} THEN (IF r.flux_nan /\ r.area_nan /\ r.min_nan /\ r.bkgsum_nan THEN "ok" ELSE "completely_masked_source_is_nan")
     ELSE IF r.flux_nan \/ r.area_nan \/ r.min_nan THEN "completely_masked_source_is_nan"
     ELSE IF r.area # Cardinality(Sl) THEN "area_counts_unmasked_finite_pixels"
     \* segment_flux = sum of the data over S(l) minus (number of those pixels) x (the source's local background, 0 when not requested)
     ELSE IF ~Near(r.flux_k, S * SumG(c.data, Sl) - Cardinality(Sl) * r.localbkg_k, 2 + Cardinality(Sl)) THEN "segment_flux_is_sum_over_segment_pixels"
     ELSE IF c.has_error /\ ~Near(r.fluxerr2_k, 16 * FoldSet(LAMBDA p, acc : acc + c.err[p[1] + 1][p[2] + 1] * c.err[p[1] + 1][p[2] + 1], 0, Sl), 16) THEN "segment_fluxerr_is_quadrature_sum"
     ELSE IF ~Near(r.min_k, S * Min(vals) - r.localbkg_k, 1) \/ ~Near(r.max_k, S * Max(vals) - r.localbkg_k, 1) THEN "min_max_over_segment_pixels"
     ELSE IF r.minidx # FirstWith(c.data, Sl, Min(vals)) \/ r.maxidx # FirstWith(c.data, Sl, Max(vals)) THEN "min_max_indices_first_occurrence_in_image_coordinates"
     ELSE IF c.has_bkg /\ (~Near(r.bkgsum_k, S * SumG(c.bkg, Sl), 2) \/ ~Near(r.bkgmean_k * Cardinality(Sl), S * SumG(c.bkg, Sl), 2 * Cardinality(Sl))) THEN "background_sum_mean_over_segment_pixels"
     ELSE IF r.moments # <<m00, m01, m10, m11, m02, m20>> THEN "moments_of_nonnegative_convolved_segment_pixels"
     ELSE IF m00 > 0 /\ (r.cen_nan \/ ~Near((r.xcen_k - S * bx[3]) * m00, S * m01, 2 * m00) \/ ~Near((r.ycen_k - S * bx[1]) * m00, S * m10, 2 * m00)) THEN "centroid_is_moment_ratio_plus_bbox_origin"
     \* second central moments (covariance) from the raw moments, in 1/256 units:  covar_xx * m00^2 = m02 * m00 - m01^2, etc.
     \* sources that are clearly not thin (det >= 2/144) carry no regularisation; clearly thin ones (det < 1/288) get the same k/12 on both diagonals
     ELSE IF m00 > 0 /\ ~r.cov_nan /\
             (LET A == m02 * m00 - m01 * m01   B == m20 * m00 - m10 * m10   C == m11 * m00 - m01 * m10
                  mm == m00 * m00
                  small == A < 30000 /\ B < 30000 /\ Abs(C) < 30000 /\ mm < 30000          \* products stay inside 32 bits
                  det == A * B - C * C                                                   \* determinant * m00^4
                  regular == det >= (2 * mm * mm) \div 144 + 1                            \* det >= 2/144
                  thin == det < (mm * mm) \div 288                                        \* det < 1/288
                  dx == r.cov[1] * mm - 256 * A   dy == r.cov[3] * mm - 256 * B   dxy == r.cov[2] * mm - 256 * C
                  tol == 3 * mm
              IN small /\ (\/ ~Near(dxy, 0, tol)
                           \/ (regular /\ (~Near(dx, 0, tol) \/ ~Near(dy, 0, tol)))
                           \/ (thin /\ (~Near(dx, dy, 2 * tol) \/ dx < (256 * mm) \div 12 - tol)))) THEN "covariance_is_central_second_moment_of_own_pixels"
     ELSE "ok"
Clause(c) == IF c.kind = "pair" THEN (IF c.a = c.b THEN "ok" ELSE c.rel)
             ELSE IF Len(c.rows) # Cardinality(({c.segm[a][b] : a \in 1..Len(c.segm), b \in 1..Len(c.segm[1])}) \ {0}) THEN "one_row_per_label"
             ELSE LET bads == {k \in 1..Len(c.rows) : RowClause(c, c.rows[k]) # "ok"} IN
                  IF bads = {} THEN "ok" ELSE RowClause(c, c.rows[CHOOSE k \in bads : TRUE])
Init == i = 1
Next == /\ i <= Len(Cases)
        /\ LET cl == Clause(Cases[i]) IN PrintT(<<"V", ToJson([id |-> Cases[i].id, ok |-> (cl = "ok"), clause |-> cl])>>)
        /\ i' = i + 1
TSpec == Init /\ [][Next]_i
=============================================================================
