SPECIFICATION Spec
CONSTANTS
  NChains = 3
  MaxDepth = 3
  MaxIters = 4
  Modes = {"new", "all"}
  Variant = "offset_by_count"
  AllowLoss = TRUE
  Emit = FALSE
INVARIANT TypeOK
INVARIANT TableComplete
INVARIANT NoGaps
INVARIANT GidsContiguous
INVARIANT GroupsAreFitGroups
PROPERTY NewModeAppendOnly
PROPERTY StoppedIsFinal
CHECK_DEADLOCK FALSE
