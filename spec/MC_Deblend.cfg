SPECIFICATION Spec
CONSTANTS
  N = 4
  NProc = 3
  MaxLabel0 = 7
  Kids = {0, 2, 3}
  Variant = "indexed"
  Emit = FALSE
INVARIANT ScheduleIndependent
INVARIANT ChildLabelsFresh
INVARIANT MergeInLabelOrder
INVARIANT PoolBound
PROPERTY Terminates
CHECK_DEADLOCK FALSE
