SPECIFICATION Spec
CONSTANTS
  Q = 2
  Kinds = {"circle", "ellipse", "rect", "cann", "eann", "rann"}
  Sizes = {1, 2, 3}
  Angles = {0, 1, 3, 4, 6}
  Subs = {1, 2}
  Emit = TRUE
  Shard = 0
  NShards = 1
CHECK_DEADLOCK FALSE
