SPECIFICATION Spec
CONSTANTS
  ThrKinds = {"none", "below_min", "selective", "selective_zero"}
  Variant = "delete_before_filter"
  MaxDepth = 8
  Emit = "none"
VIEW View
INVARIANT NoReadRaises
CHECK_DEADLOCK FALSE
