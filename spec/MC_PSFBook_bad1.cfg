SPECIFICATION Spec
CONSTANTS
  N = 4
  Variant = "argsort_gid"
INVARIANT OwnRow
CHECK_DEADLOCK FALSE
