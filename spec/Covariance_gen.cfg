SPECIFICATION PSpec
CONSTANTS
  MaxOff = 7
  MaxPad = 2
CHECK_DEADLOCK FALSE
