SPECIFICATION Spec
CONSTANTS
  HasMax = TRUE
  KMax = 4
  KMin = 2
  MinZero = FALSE
  KEdge = 9
  KOut = 9
  Variant = "repaired"
INVARIANT TypeOK
INVARIANT NoCrash
INVARIANT ReturnedOK
PROPERTY Termination
CHECK_DEADLOCK FALSE
