SPECIFICATION Spec
CONSTANTS
  HasMax = TRUE
  KMax = 4
  KMin = 2
  MinZero = FALSE
  KEdge = 9
  KOut = 9
  HasRit = FALSE
  KRit = 0
  Variant = "repaired"
INVARIANT TypeOK
INVARIANT NoCrash
INVARIANT ReturnedOK
PROPERTY Termination
CHECK_DEADLOCK FALSE
