----------------------------- MODULE AliasPrograms -----------------------------
(* Prints Alias!Programs, one JSON record per program, for the conformance harness to execute. *)
EXTENDS Alias, SequencesExt
PList == SetToSeq(Programs)
PInit == i = 1
PNext == i <= Len(PList) /\ PrintT(<<"GEN", ToJson(<<PList[i][1], PList[i][2], PList[i][3]>>)>>) /\ i' = i + 1
PSpec == PInit /\ [][PNext]_i
=============================================================================
