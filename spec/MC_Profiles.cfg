SPECIFICATION Spec
CONSTANTS
  H = 5
  W = 6
  CMin = 2
  CMax = 34
  Images = {"ramp", "const", "signed", "rampbad"}
  RadiiKinds = {"a", "b", "c", "d"}
  Emit = FALSE
  Shard = 0
  NShards = 1
INVARIANT ConstOK
INVARIANT MonoOK
CHECK_DEADLOCK FALSE
