------------------------------- MODULE ApMaskGen -------------------------------
(* Case enumerator for ApMask: shapes x centres on the 1/Q lattice of one pixel (integer translates are covered by C03)  *)
(* x subpixel factors.  Prints, per case, the minimal box and for every pixel of it the strict / non-strict counts.      *)
EXTENDS ApMask
CONSTANTS Q, Kinds, Sizes, Angles, Subs, Emit, Shard, NShards
VARIABLES sh, cx, cy, s, done
vars == <<sh, cx, cy, s, done>>
R == (-8)..12
ShapesOf(k) ==
  CASE k = "circle"  -> {[kind |-> k, p1 |-> r, p2 |-> 0, p3 |-> 0, p4 |-> 0, ang |-> 0] : r \in Sizes}
    [] k = "ellipse" -> {[kind |-> k, p1 |-> a, p2 |-> b, p3 |-> 0, p4 |-> 0, ang |-> g] : a \in Sizes, b \in Sizes, g \in Angles}
    [] k = "rect"    -> {[kind |-> k, p1 |-> w, p2 |-> h, p3 |-> 0, p4 |-> 0, ang |-> g] : w \in Sizes, h \in Sizes, g \in Angles}
    [] k = "cann"    -> {[kind |-> k, p1 |-> a, p2 |-> b, p3 |-> 0, p4 |-> 0, ang |-> 0] : a \in Sizes, b \in Sizes}
    \* inner b / h are independent parameters (not only the proportional default)
    [] k = "eann"    -> {[kind |-> k, p1 |-> a, p2 |-> 2 * a, p3 |-> bi, p4 |-> 2 * b, ang |-> g] : a \in Sizes, b \in Sizes, bi \in Sizes, g \in Angles}
    [] k = "rann"    -> {[kind |-> k, p1 |-> a, p2 |-> 2 * a, p3 |-> bi, p4 |-> 2 * b, ang |-> g] : a \in Sizes, b \in Sizes, bi \in Sizes, g \in Angles}
Valid(x) == CASE x.kind = "cann" -> x.p1 < x.p2 [] x.kind = "ellipse" -> x.p1 >= x.p2 [] x.kind \in {"eann", "rann"} -> x.p3 < x.p4 [] OTHER -> TRUE
Init == /\ sh \in {x \in UNION {ShapesOf(k) : k \in Kinds} : Valid(x)}
        /\ cx \in 0..(Q - 1) /\ cy \in 0..(Q - 1) /\ s \in Subs /\ done = FALSE
        /\ (sh.p1 + 3 * sh.p2 + 5 * cx + 7 * cy + sh.ang + s) % NShards = Shard
Box == <<BoxLo(sh, cx, 1, Q, R), BoxHi(sh, cx, 1, Q, R), BoxLo(sh, cy, 2, Q, R), BoxHi(sh, cy, 2, Q, R)>>
Case == LET bx == Box IN
  [shape |-> sh, cx |-> cx, cy |-> cy, q |-> Q, s |-> s, box |-> bx,
   boxtie |-> (BoxTie(sh, cx, 1, Q, R) \/ BoxTie(sh, cy, 2, Q, R)),
   lower |-> [row \in 1..(bx[4] - bx[3]) |-> [col \in 1..(bx[2] - bx[1]) |-> Count(sh, cx, cy, bx[3] + row - 1, bx[1] + col - 1, s, Q, "lower")]],
   impl |-> [row \in 1..(bx[4] - bx[3]) |-> [col \in 1..(bx[2] - bx[1]) |-> Count(sh, cx, cy, bx[3] + row - 1, bx[1] + col - 1, s, Q, "impl")]],
   upper |-> [row \in 1..(bx[4] - bx[3]) |-> [col \in 1..(bx[2] - bx[1]) |-> Count(sh, cx, cy, bx[3] + row - 1, bx[1] + col - 1, s, Q, "upper")]]]
Observe == ~done /\ done' = TRUE /\ (Emit => PrintT(<<"GEN", ToJson(Case)>>)) /\ UNCHANGED <<sh, cx, cy, s>>
Spec == Init /\ [][Observe]_vars
\* design-level sanity of the model: strict <= non-strict; nothing of the shape lies outside the box (every sub-centre of the ring of
\* pixels around the box is outside); annulus counts never exceed s^2
LowerLeUpper == \A row \in Box[3]..(Box[4] - 1), col \in Box[1]..(Box[2] - 1) :
                  Count(sh, cx, cy, row, col, s, Q, "lower") <= Count(sh, cx, cy, row, col, s, Q, "impl") /\ Count(sh, cx, cy, row, col, s, Q, "impl") <= Count(sh, cx, cy, row, col, s, Q, "upper")
                  /\ Count(sh, cx, cy, row, col, s, Q, "upper") <= s * s
BoxContainsShape == \A row \in (Box[3] - 1)..Box[4], col \in (Box[1] - 1)..Box[2] :
                      (row < Box[3] \/ row >= Box[4] \/ col < Box[1] \/ col >= Box[2]) => Count(sh, cx, cy, row, col, s, Q, "lower") = 0
=============================================================================
