--------------------------------- MODULE Trace_Iso ---------------------------------
(* Validation of recorded Ellipse.fit_image runs on noise-free elliptical galaxies (C20).  sma and geometry in fixed point      *)
(* (S = 1024 for lengths; eps, pa(rad) S = 16384; intensities relative S = 16384).                                             *)
EXTENDS Integers, Sequences, FiniteSets, TLC, Json, IOUtils
Cases == JsonDeserialize(IOEnv.TRACE_FILE)
VARIABLE i
S == 1024
Abs(x) == IF x < 0 THEN -x ELSE x
N(c) == Len(c.sma)
PaDiff(a, b) == LET d == (a - b) % 51472 IN IF d > 25736 THEN 51472 - d ELSE d          \* pi * 16384 = 51472
Clause(c) ==
  IF c.kind = "polar" THEN (IF c.maxdev > 2 THEN "scalar_and_array_polar_transform_agree" ELSE "ok")
  \* the same image in other flux units (exact power-of-two factor): same list, same geometry, intensities scaled (deviation in 1e-6)
  ELSE IF c.kind = "scale" THEN (IF c.maxdev > 2 THEN "geometry_independent_of_the_flux_unit" ELSE "ok")
  ELSE IF c.raised THEN "fit_raises"
  \* eps = 0.8 at these sizes is barely sampled: an empty result is accepted there (nothing is claimed about it)
  ELSE IF N(c) = 0 THEN (IF c.demand_fit THEN "no_isophote_fitted" ELSE "ok")
  ELSE IF \E k \in 1..(N(c) - 1) : c.sma[k] >= c.sma[k + 1] THEN "sorted_by_strictly_increasing_sma"
  ELSE IF \E k \in 1..N(c) : c.sma[k] > c.maxsma_bound \/ (c.sma[k] > 0 /\ c.sma[k] < c.minsma_bound) THEN "sma_within_minsma_maxsma"
  \* the central-pixel isophote (sma = 0) belongs to the result exactly when minsma = 0 was asked for
  ELSE IF ~c.central_allowed /\ \E k \in 1..N(c) : c.sma[k] <= 0 THEN "sma_within_minsma_maxsma"
  ELSE IF ~c.image_untouched THEN "image_untouched"
  ELSE IF c.fix_center /\ \E k \in 1..N(c) : c.sma[k] > 0 /\ (c.x0[k] # c.x0_init \/ c.y0[k] # c.y0_init) THEN "fixed_centre_keeps_initial_value"
  ELSE IF c.fix_pa /\ \E k \in 1..N(c) : c.sma[k] > 0 /\ c.pa[k] # c.pa_init THEN "fixed_pa_keeps_initial_value"
  ELSE IF c.fix_eps /\ \E k \in 1..N(c) : c.sma[k] > 0 /\ c.eps[k] # c.eps_init THEN "fixed_eps_keeps_initial_value"
  \* recovery on well-sampled isophotes (flag supplied per isophote: converged, sma in the sampled range)
  ELSE IF \E k \in 1..N(c) : c.well[k] /\ ~c.fix_center /\ (Abs(c.x0[k] - c.tx0) > 3 * c.x0_err[k] + 52 \/ Abs(c.y0[k] - c.ty0) > 3 * c.y0_err[k] + 52) THEN "recovers_centre"
  ELSE IF \E k \in 1..N(c) : c.well[k] /\ ~c.fix_eps /\ Abs(c.eps[k] - c.teps) > 3 * c.eps_err[k] + 330 THEN "recovers_ellipticity"
  ELSE IF \E k \in 1..N(c) : c.well[k] /\ ~c.fix_pa /\ c.teps >= 1600 /\ PaDiff(c.pa[k], c.tpa) > 3 * c.pa_err[k] + 500 THEN "recovers_position_angle"
  ELSE IF \E k \in 1..N(c) : c.well[k] /\ Abs(c.intens_rel[k] - 16384) > c.intens_tol THEN "recovers_intensity"
  ELSE IF c.model_checked /\ c.model_maxrel > c.model_tol THEN "ellipse_model_reproduces_image"
  ELSE "ok"
Init == i = 1
Next == /\ i <= Len(Cases)
        /\ LET cl == Clause(Cases[i]) IN PrintT(<<"V", ToJson([id |-> Cases[i].id, ok |-> (cl = "ok"), clause |-> cl])>>)
        /\ i' = i + 1
TSpec == Init /\ [][Next]_i
=============================================================================
