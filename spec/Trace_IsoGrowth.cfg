SPECIFICATION TSpec
CONSTANTS
  HasMax = TRUE
  KMax = 1
  KMin = 1
  MinZero = FALSE
  KEdge = 0
  KOut = 0
  HasRit = FALSE
  KRit = 0
  Variant = "repaired"
CHECK_DEADLOCK FALSE
