SPECIFICATION TSpec
CONSTANTS
  HasMax = TRUE
  KMax = 1
  KMin = 1
  MinZero = FALSE
  KEdge = 0
  KOut = 0
  Variant = "repaired"
CHECK_DEADLOCK FALSE
