--------------------------------- MODULE BBox ---------------------------------
(* Enumerator / design-level check for BBoxOps: every lattice interval and every small box-vs-image pair. *)
EXTENDS BBoxOps

(**************************** enumerator / MC ******************************)
CONSTANTS Q, CLo, CHi, NMax, Emit          \* interval end points range over (CLo-COff)..(CHi-COff) in 1/Q px
COff == 16
VARIABLES kind, a, b, c, d, ny, nx, done
vars == <<kind, a, b, c, d, ny, nx, done>>
Coord == (CLo - COff)..(CHi - COff)
Idx == (-6)..8
Init == \/ /\ kind = "interval" /\ a \in Coord /\ b \in Coord /\ a <= b /\ c = 0 /\ d = 0 /\ ny = 1 /\ nx = 1 /\ done = FALSE
        \/ /\ kind = "slices" /\ a \in (-3)..5 /\ b \in (a + 1)..(a + 4) /\ c \in (-3)..4 /\ d \in (c + 1)..(c + 3)
           /\ ny \in 1..NMax /\ nx \in 1..NMax /\ done = FALSE
Case == IF kind = "interval"
        THEN [kind |-> kind, xmin |-> a, xmax |-> b, q |-> Q, lo |-> LoOf(a, Q), hi |-> HiOf(b, Q)]
        ELSE [kind |-> kind, box |-> <<a, b, c, d>>, ny |-> ny, nx |-> nx, slices |-> OverlapSlices(a, b, c, d, ny, nx)]
Observe == ~done /\ done' = TRUE /\ (Emit => PrintT(<<"GEN", ToJson(Case)>>)) /\ UNCHANGED <<kind, a, b, c, d, ny, nx>>
Spec == Init /\ [][Observe]_vars
ClosedFormIsMinimal == kind = "interval" =>
   IF {i \in Idx : Meets(i, a, b, Q)} = {} THEN LoOf(a, Q) >= HiOf(b, Q)        \* a point on a pixel edge meets no open cell
   ELSE LoOf(a, Q) = MinimalLo(a, b, Q, Idx) /\ HiOf(b, Q) = MinimalHi(a, b, Q, Idx)
SlicesSelectCommon == kind = "slices" =>
   LET sl == OverlapSlices(a, b, c, d, ny, nx) IN
   IF Common(a, b, c, d, ny, nx) = {} THEN sl = None
   ELSE sl # None /\ Selected(sl) = Common(a, b, c, d, ny, nx) /\ SelectedSmall(sl, a, c) = Common(a, b, c, d, ny, nx)
=============================================================================
