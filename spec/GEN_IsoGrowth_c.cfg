SPECIFICATION GSpec
CONSTANTS
  HasMax = TRUE
  KMax = 3
  KMin = 4
  MinZero = TRUE
  KEdge = 0
  KOut = 9
  HasRit = FALSE
  KRit = 0
  Variant = "repaired"
CHECK_DEADLOCK FALSE
INVARIANT GeoShape
INVARIANT NoDivergedGeometry
