SPECIFICATION Spec
CONSTANTS
  Q = 4
  CLo = 2
  CHi = 42
  NMax = 4
  Emit = FALSE
INVARIANT ClosedFormIsMinimal
INVARIANT SlicesSelectCommon
CHECK_DEADLOCK FALSE
