SPECIFICATION Spec
CONSTANTS
  Layouts = {"2x2", "3x2", "2x3", "3x3", "5x3"}
  XLo = 2
  XHi = 42
  Emit = FALSE
INVARIANT WeightsSumToNorm
INVARIANT OnGridPointOneStoredEPSF
INVARIANT OnGridLineTwoPointBlend
INVARIANT OutsideNearestEdge
CHECK_DEADLOCK FALSE
