SPECIFICATION Spec
CONSTANTS
  H = 2
  W = 2
  InitLabels = {0, 1, 3}
  NewLabels = {2}
  MaxDepth = 3
  Acts = {"read", "reassign", "remove", "keep", "relabel", "border", "masked", "setdata"}
  Emit = FALSE
  Shard = 0
  NShards = 1
VIEW View
INVARIANT CacheCoherent
INVARIANT DmapNamesLive
INVARIANT RelabelGapFree
PROPERTY ZeroBorderIdentity
PROPERTY SupportShrinks
PROPERTY ReadsArePure
PROPERTY UntouchedKept
CHECK_DEADLOCK FALSE
