SPECIFICATION Spec
CONSTANTS
  NSrc = 4
  Kinds = {"arr", "list", "private", "scalar"}
  ScalarKinds = {"scalar"}
  IdxForms = {"int0", "intlast", "slice02", "slice12", "stride2", "rev", "list20", "bool", "getlabel", "getlabels"}
  ExtraNames = {"e1", "e2"}
  Variant = "shared_registry"
  MaxDepth = 4
  Emit = FALSE
INVARIANT Commutes
INVARIANT Independent
CHECK_DEADLOCK FALSE
