----------------------------- MODULE SegmImage -----------------------------
(* The SegmentationImage state machine (C05): actions built from SegmOps' effect functions.             *)
(* See SegmOps.tla for the declarative (Derive) and implementation-shaped (Get*, EffCache) operators.   *)
EXTENDS SegmOps

(***************************** the state machine ***************************)
CONSTANTS H, W,            \* grid
          InitLabels,      \* values a pixel may take initially (contains 0)
          NewLabels,       \* candidate new_label / start_label arguments
          MaxDepth,        \* bound on the history length
          Acts,            \* enabled action families
          Emit,            \* TRUE: print one JSON record per transition (GEN configs)
          Shard, NShards   \* initial states are partitioned over NShards TLC processes
VARIABLES data, dmap, cache, hist
vars == <<data, dmap, cache, hist>>
Pix  == (0..H-1) \X (0..W-1)

Do(ev) ==
  /\ Len(hist) < MaxDepth
  /\ data'  = EffData(data, ev)
  /\ dmap'  = EffDmap(data, dmap, ev)
  /\ cache' = EffCache(data, cache, ev)
  /\ hist'  = Append(hist, IF Emit THEN [ev |-> ev, valid |-> EvValid(data, ev), data |-> RowsJ(data'), dmap |-> DmapJ(dmap'),
                                           attrs |-> AttrsJ(data')]
                                    ELSE [ev |-> ev, valid |-> EvValid(data, ev)])
  /\ (Emit => PrintT(<<"GEN", ToJson(hist')>>))


Read(a)    == "read" \in Acts /\ ~Has(cache, a) /\ Do([op |-> "read", attr |-> a])
ReadAll    == "read" \in Acts /\ Do([op |-> "readall"])
Reassign(ls, new, rl) == "reassign" \in Acts /\ ls # {} /\ Do([op |-> "reassign", labels |-> SortedSeq(ls), new |-> new, relabel |-> rl])
RemoveL(ls, rl)        == "remove" \in Acts /\ Do([op |-> "remove", labels |-> SortedSeq(ls), relabel |-> rl])
KeepL(ls, rl)          == "keep" \in Acts /\ ls # {} /\ Do([op |-> "keep", labels |-> SortedSeq(ls), relabel |-> rl])
RelabelConsecutive(s) == "relabel" \in Acts /\ Do([op |-> "relabel_consecutive", start |-> s])
RemoveBorder(w, po, rl)  == "border" \in Acts /\ Do([op |-> "remove_border", width |-> w, partial |-> po, relabel |-> rl])
RemoveMasked(m, po, rl)  == "masked" \in Acts /\ Do([op |-> "remove_masked", mask |-> PixSeq(m), partial |-> po, relabel |-> rl])
SetData(d2)           == "setdata" \in Acts /\ Do([op |-> "setdata", data |-> RowsJ(d2)])

\* initial bookkeeping as deblend_sources leaves it: none, or one parent (label number 9, absent from the array)
\* whose children are >= 2 labels of the array
NoDmap == [x \in {} |-> {}]
InitDmaps(d) == {NoDmap} \cup {(9 :> ch) : ch \in {s \in SUBSET LabelSet(d) : Cardinality(s) >= 2}}

ShardOf(d) == (d[<<0, 0>>] + 3 * d[<<0, 1>>] + 5 * d[<<1, 0>>] + 7 * d[<<H-1, W-1>>]) % NShards
Init == /\ data \in {d \in [Pix -> InitLabels] : ShardOf(d) = Shard}
        /\ dmap \in InitDmaps(data)
        /\ cache = ("labels" :> DLabels(data))               \* the constructor goes through the data setter
        /\ hist = <<IF Emit THEN [ev |-> [op |-> "init"], valid |-> TRUE, data |-> RowsJ(data), dmap |-> DmapJ(dmap), attrs |-> AttrsJ(data)]
                             ELSE [ev |-> [op |-> "init"], valid |-> TRUE]>>

\* masks: every subset on tiny grids; rows, columns, single pixels and their complements otherwise
MaskChoices == IF H * W <= 4 THEN SUBSET Pix
               ELSE {{p \in Pix : p[1] = r} : r \in 0..H-1} \cup {{p \in Pix : p[2] = c} : c \in 0..W-1}
                    \cup {{p} : p \in Pix} \cup {Pix \ {p} : p \in Pix} \cup {{}, Pix}
\* label arguments: every subset of the present labels, plus one absent label (the call must raise)
LabelArgs == SUBSET LabelSet(data) \cup {{Max(NewLabels) + 1}}
Next == \/ \E a \in ReadAttrs : Read(a)
        \/ ReadAll
        \/ \E ls \in LabelArgs, new \in NewLabels \cup {0}, rl \in BOOLEAN : Reassign(ls, new, rl)
        \/ \E ls \in LabelArgs, rl \in BOOLEAN : RemoveL(ls, rl)
        \/ \E ls \in LabelArgs, rl \in BOOLEAN : KeepL(ls, rl)
        \/ \E s \in NewLabels : RelabelConsecutive(s)
        \/ \E w \in 0..2, po \in BOOLEAN, rl \in BOOLEAN : RemoveBorder(w, po, rl)
        \/ \E m \in MaskChoices, po \in BOOLEAN, rl \in BOOLEAN : RemoveMasked(m, po, rl)
        \/ \E d2 \in [Pix -> {0, 2}] : SetData(d2)

Spec == Init /\ [][Next]_vars

(******************************* properties ********************************)
\* every cached value is what a fresh object would compute from the current array
CacheCoherent == \A a \in DOMAIN cache : cache[a] = Derive(a, data)
\* bookkeeping never names an absent label
DmapNamesLive == \A q \in DOMAIN dmap : dmap[q] # {} /\ dmap[q] \subseteq LabelSet(data)
\* relabel=True leaves labels 1..N (whenever the call was valid and did something)
LastEv == hist[Len(hist)].ev
RelabelGapFree == (IsReassignLike(LastEv) /\ LastEv.relabel /\ hist[Len(hist)].valid)
                    => (LabelSet(data) = 1..Cardinality(LabelSet(data)))
\* a zero border width removes nothing; an invalid call changes nothing
ZeroBorderIdentity == [][\A po, rl \in BOOLEAN : RemoveBorder(0, po, rl) => (rl \/ data' = data)]_vars
\* apart from assigning new data, the non-zero support never grows
SupportShrinks == [][(\E d2 \in [Pix -> {0, 2}] : SetData(d2)) \/ {p \in Pix : data'[p] # 0} \subseteq {p \in Pix : data[p] # 0}]_vars
\* reads never change the abstract state
ReadsArePure == [][(ReadAll \/ \E a \in ReadAttrs : Read(a)) => (data' = data /\ dmap' = dmap)]_vars
\* labels that are not touched keep their pixels when relabel = FALSE
UntouchedKept == [][\A ls \in LabelArgs, rl \in {FALSE} : RemoveL(ls, rl) =>
                      \A l \in LabelSet(data) \ ls : Seg(data', l) = Seg(data, l)]_vars

View == <<data, dmap, cache>>
=============================================================================
