SPECIFICATION Spec
CONSTANTS
  H = 2
  W = 2
  InitLabels = {0, 1, 3}
  NewLabels = {2}
  MaxDepth = 2
  Acts = {"masked", "border", "read"}
  Emit = TRUE
  Shard = 0
  NShards = 1
VIEW View
CHECK_DEADLOCK FALSE
