----------------------------- MODULE ProfileNorm -----------------------------
(***************************************************************************)
(* normalize / unnormalize of RadialProfile and CurveOfGrowth versus the   *)
(* first read of each lazily evaluated array (C19, C09).                   *)
(*                                                                         *)
(* norm   : sequence of the normalisation factors applied so far ("max" /  *)
(*          "sum"; the numeric factor is a function of the raw arrays and  *)
(*          of the factors before it - evaluated by the conformance        *)
(*          harness from the definition);                                  *)
(* scale  : for each array, NotCached or the sequence of factors by which  *)
(*          the cached copy has been divided.                              *)
(* REQUIRED: a cached array is always at the current scale, whenever it    *)
(* was first read; unnormalize restores every array; a normalisation that  *)
(* cannot be applied (max or sum is zero) changes nothing.                 *)
(* Variant "raw_first_read" is the pinned code (data_profile first read    *)
(* after normalize() came back un-normalised): TLC must reject it.         *)
(***************************************************************************)
EXTENDS Integers, Sequences, FiniteSets, TLC, Json
CONSTANTS Arrays,        \* lazily evaluated arrays of the object, e.g. {"profile","profile_error","data_profile"}
          LazyOnly,      \* arrays that normalize() does not force (data_profile)
          ZeroMethods,   \* methods whose normalisation is zero for the object under test (normalize must be a no-op)
          Variant, MaxDepth, Emit
NotCached == <<"NotCached">>
VARIABLES norm, scale, hist
vars == <<norm, scale, hist>>

ScaleJ == [a \in Arrays |-> scale'[a]]
Log(op, arg) == /\ hist' = Append(hist, [op |-> op, arg |-> arg, norm |-> norm', scale |-> ScaleJ])
                /\ ((Emit /\ Len(hist') = MaxDepth) => PrintT(<<"GEN", ToJson(hist')>>))
FirstRead(a) == IF Variant = "raw_first_read" /\ a \in LazyOnly THEN <<>> ELSE norm
Read(a) == /\ Len(hist) < MaxDepth
           /\ scale' = [scale EXCEPT ![a] = IF @ = NotCached THEN FirstRead(a) ELSE @]
           /\ UNCHANGED norm /\ Log("read", a)
\* normalize(method) reads profile and profile_error (so they are cached), then divides every cached array
Forced(s) == [a \in Arrays |-> IF a \notin LazyOnly /\ s[a] = NotCached THEN norm ELSE s[a]]
Normalize(m) == /\ Len(hist) < MaxDepth
                /\ IF m \in ZeroMethods
                   THEN norm' = norm /\ scale' = Forced(scale)                   \* warning only
                   ELSE /\ norm' = Append(norm, m)
                        /\ scale' = [a \in Arrays |-> IF Forced(scale)[a] = NotCached THEN NotCached ELSE Append(Forced(scale)[a], m)]
                /\ Log("normalize", m)
\* unnormalize multiplies every cached array by the accumulated value; correct only for arrays at the current scale
Unnormalize == /\ Len(hist) < MaxDepth
               /\ norm' = <<>>
               /\ scale' = [a \in Arrays |-> LET s == Forced(scale)[a] IN
                              IF s = NotCached THEN NotCached ELSE IF s = norm THEN <<>> ELSE <<"WRONG">>]
               /\ Log("unnormalize", "")
Init == norm = <<>> /\ scale = [a \in Arrays |-> NotCached] /\ hist = <<>>
Next == (\E a \in Arrays : Read(a)) \/ (\E m \in {"max", "sum"} : Normalize(m)) \/ Unnormalize
Spec == Init /\ [][Next]_vars

AllCachedAtCurrentScale == \A a \in Arrays : scale[a] \in {NotCached, norm}
UnnormalizeRestoresRaw == (hist # <<>> /\ hist[Len(hist)].op = "unnormalize") => \A a \in Arrays : scale[a] \in {NotCached, <<>>}
=============================================================================
