---------------------------- MODULE Trace_Detect ----------------------------
(* TLC as oracle for recorded detect_sources / detect_threshold / SourceFinder(deblend=False) calls.    *)
(* Each case: input arrays + what photutils returned; clauses are evaluated with DetectOps.              *)
EXTENDS DetectOps, IOUtils
Cases == JsonDeserialize(IOEnv.TRACE_FILE)
VARIABLE i
PixSetOf(sq) == {<<sq[j][1], sq[j][2]>> : j \in 1..Len(sq)}

\* detect_threshold estimating the noise (and the background when none is given) from the UNMASKED pixels.  Precondition checked here:
\* nothing is sigma-clipped (all unmasked values within 3 sigma of their mean).  With n values, sum S and sum of squares Q:
\* n^2 var = n Q - S^2, so threshold = bg + nsigma std  <=>  n^2 (thr - bg)^2 = nsigma^2 (n Q - S^2) and thr >= bg.
RECURSIVE SumSeq(_)
SumSeq(s) == IF Len(s) = 0 THEN 0 ELSE Head(s) + SumSeq(Tail(s))
EstClause(c) ==
  LET dd == FromRows(c.data)
      bad == PixSetOf(c.mask)
      good == SetToSeq(DOMAIN dd \ bad)
      n == Len(good)
      S == SumSeq([k \in 1..n |-> dd[good[k]]])
      Q == SumSeq([k \in 1..n |-> dd[good[k]] * dd[good[k]]])
      V == n * Q - S * S
      out == FromRows(c.out)
      bgm == FromRows(c.bg)
  IN IF \E k \in 1..n : (n * dd[good[k]] - S) * (n * dd[good[k]] - S) > 9 * V THEN "ok"     \* precondition fails: clipping would act
     ELSE IF c.bgkind = "none"
          THEN (IF \A p \in DOMAIN out : n * out[p] >= S /\ (n * out[p] - S) * (n * out[p] - S) = c.nsigma * c.nsigma * V THEN "ok"
                ELSE "threshold_estimates_come_from_the_unmasked_pixels")
          ELSE (IF \A p \in DOMAIN out : out[p] >= bgm[p] /\ n * n * (out[p] - bgm[p]) * (out[p] - bgm[p]) = c.nsigma * c.nsigma * V THEN "ok"
                ELSE "threshold_noise_estimate_comes_from_the_unmasked_pixels")
Clause(c) ==
  IF c.kind = "threshold_est" THEN EstClause(c) ELSE
  IF c.kind = "threshold" THEN
       (IF FromRows(c.out) = Threshold(FromRows(c.bg), FromRows(c.err), c.nsigma) THEN "ok" ELSE "threshold_pixelwise")
  ELSE
  LET dd == FromRows(c.data)
      th == FromRows(c.thr)
      bad == PixSetOf(c.nan) \cup PixSetOf(c.mask)
      none == NoDetection(dd, th, bad, c.conn, c.npix)
  IN IF c.raised THEN "raises"
     ELSE IF c.none # none THEN "none_iff_no_component"
     ELSE IF none THEN (IF c.warned THEN "ok" ELSE "no_detections_warning")
     ELSE LET L == FromRows(c.out)
              E == LabelMap(dd, th, bad, c.conn, c.npix) IN
          IF ~IsDetection(L, dd, th, bad, c.conn, c.npix) THEN "declarative_statement"
          ELSE IF L # E THEN "constructive_model"
          ELSE IF c.labels # DLabels(L) THEN "attr_labels"
          ELSE IF c.slices # DSlices(L) THEN "attr_slices"
          ELSE IF c.areas # DAreas(L) THEN "attr_areas"
          ELSE "ok"
Init == i = 1
Next == /\ i <= Len(Cases)
        /\ LET cl == Clause(Cases[i]) IN PrintT(<<"V", ToJson([id |-> Cases[i].id, ok |-> (cl = "ok"), clause |-> cl])>>)
        /\ i' = i + 1
TSpec == Init /\ [][Next]_i
=============================================================================
