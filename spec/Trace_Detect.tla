---------------------------- MODULE Trace_Detect ----------------------------
(* TLC as oracle for recorded detect_sources / detect_threshold / SourceFinder(deblend=False) calls.    *)
(* Each case: input arrays + what photutils returned; clauses are evaluated with DetectOps.              *)
EXTENDS DetectOps, IOUtils
Cases == JsonDeserialize(IOEnv.TRACE_FILE)
VARIABLE i
PixSetOf(sq) == {<<sq[j][1], sq[j][2]>> : j \in 1..Len(sq)}

Clause(c) ==
  IF c.kind = "threshold" THEN
       (IF FromRows(c.out) = Threshold(FromRows(c.bg), FromRows(c.err), c.nsigma) THEN "ok" ELSE "threshold_pixelwise")
  ELSE
  LET dd == FromRows(c.data)
      th == FromRows(c.thr)
      bad == PixSetOf(c.nan) \cup PixSetOf(c.mask)
      none == NoDetection(dd, th, bad, c.conn, c.npix)
  IN IF c.raised THEN "raises"
     ELSE IF c.none # none THEN "none_iff_no_component"
     ELSE IF none THEN (IF c.warned THEN "ok" ELSE "no_detections_warning")
     ELSE LET L == FromRows(c.out)
              E == LabelMap(dd, th, bad, c.conn, c.npix) IN
          IF ~IsDetection(L, dd, th, bad, c.conn, c.npix) THEN "declarative_statement"
          ELSE IF L # E THEN "constructive_model"
          ELSE IF c.labels # DLabels(L) THEN "attr_labels"
          ELSE IF c.slices # DSlices(L) THEN "attr_slices"
          ELSE IF c.areas # DAreas(L) THEN "attr_areas"
          ELSE "ok"
Init == i = 1
Next == /\ i <= Len(Cases)
        /\ LET cl == Clause(Cases[i]) IN PrintT(<<"V", ToJson([id |-> Cases[i].id, ok |-> (cl = "ok"), clause |-> cl])>>)
        /\ i' = i + 1
TSpec == Init /\ [][Next]_i
=============================================================================
