---------------------------- MODULE ApertureAttrs ----------------------------
(***************************************************************************)
(* Descriptor-driven cache invalidation of photutils apertures (C09).      *)
(* An aperture has parameters (positions, size, theta) set through         *)
(* descriptors and lazily cached derived values (shape, isscalar, bbox,    *)
(* centred edges, ...).  REQUIRED: assigning ANY parameter drops EVERY     *)
(* cached value, so each read is a function of the current parameters.     *)
(* `stamp[r]` remembers the parameters under which read r was cached.      *)
(* Variant "all" is the required discipline; "skip_theta" (theta setter    *)
(* forgets the reset) and "skip_inherited" (only some caches dropped) are  *)
(* realistic wrong designs that TLC must reject (vacuity guards).          *)
(***************************************************************************)
EXTENDS Integers, Sequences, FiniteSets, TLC, Json
CONSTANTS PosIds, SizeIds, ThetaIds, Reads, InheritedReads, Variant, MaxDepth, Emit
VARIABLES params, stamp, hist
vars == <<params, stamp, hist>>
NoStamp == [x \in {} |-> 0]

Log(ev) == hist' = Append(hist, ev)
\* GEN configs run without VIEW: every history of length MaxDepth is printed once (prefixes are replayed on the way)
Emitting == (Emit /\ Len(hist') = MaxDepth) => PrintT(<<"GEN", ToJson(hist')>>)
Reset(which) == IF Variant = "all" THEN NoStamp
                ELSE IF Variant = "skip_theta" /\ which = "theta" THEN stamp
                ELSE IF Variant = "skip_inherited" THEN [r \in (DOMAIN stamp) \cap InheritedReads |-> stamp[r]]
                ELSE NoStamp
SetPos(k) == /\ Len(hist) < MaxDepth /\ params' = [params EXCEPT !.pos = k, !.shift = 0] /\ stamp' = Reset("pos")
             /\ Log([op |-> "set_pos", arg |-> k]) /\ Emitting
\* aper.positions += delta : getter, in-place add, setter with the same array
IAddPos == /\ Len(hist) < MaxDepth /\ params.shift < 2 /\ params' = [params EXCEPT !.shift = @ + 1] /\ stamp' = Reset("pos")
           /\ Log([op |-> "iadd_pos", arg |-> 0]) /\ Emitting
SetSize(k) == /\ Len(hist) < MaxDepth /\ params' = [params EXCEPT !.size = k] /\ stamp' = Reset("size")
              /\ Log([op |-> "set_size", arg |-> k]) /\ Emitting
SetTheta(k) == /\ Len(hist) < MaxDepth /\ params' = [params EXCEPT !.theta = k] /\ stamp' = Reset("theta")
               /\ Log([op |-> "set_theta", arg |-> k]) /\ Emitting
\* the caller modifies, in place, the array it passed as `positions`: the aperture owns a copy, so nothing changes
CallerMutates == /\ Len(hist) < MaxDepth /\ UNCHANGED <<params, stamp>>
                 /\ Log([op |-> "caller_mutates", arg |-> 0]) /\ Emitting
\* the aperture is used with a bad-pixel mask (area_overlap / do_photometry with mask=...) and the caller edits, in place, a mask
\* array returned by to_mask(), and the aperture is drawn with a non-zero origin: none of these leaves anything behind in the aperture
UsedWithMask == /\ Len(hist) < MaxDepth /\ UNCHANGED <<params, stamp>>
                /\ Log([op |-> "used_with_mask", arg |-> 0]) /\ Emitting
Read(r) == /\ Len(hist) < MaxDepth /\ r \notin DOMAIN stamp
           /\ stamp' = stamp @@ (r :> params) /\ UNCHANGED params
           /\ Log([op |-> "read", arg |-> r]) /\ Emitting
Init == /\ params \in [pos : PosIds, shift : {0}, size : SizeIds, theta : ThetaIds]
        /\ params.size = 1 /\ params.theta = 1
        /\ stamp = NoStamp
        /\ hist = <<[op |-> "init", arg |-> params.pos]>>
Next == \/ \E k \in PosIds : SetPos(k)
        \/ IAddPos
        \/ CallerMutates
        \/ UsedWithMask
        \/ \E k \in SizeIds : SetSize(k)
        \/ \E k \in ThetaIds : SetTheta(k)
        \/ \E r \in Reads : Read(r)
Spec == Init /\ [][Next]_vars
\* every cached value was computed under the current parameters
Coherent == \A r \in DOMAIN stamp : stamp[r] = params
View == <<params, stamp>>
=============================================================================
