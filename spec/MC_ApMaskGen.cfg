SPECIFICATION Spec
CONSTANTS
  Q = 2
  Kinds = {"circle", "ellipse", "rect", "cann", "eann", "rann"}
  Sizes = {1, 2, 3, 5}
  Angles = {0, 1, 3, 4, 6}
  Subs = {1, 2, 3}
  Emit = FALSE
  Shard = 0
  NShards = 1
INVARIANT LowerLeUpper
INVARIANT BoxContainsShape
CHECK_DEADLOCK FALSE
