---------------------------- MODULE Trace_Centroid ----------------------------
(* TLC as oracle for recorded centroid calls (C17).  Fixed point: positions are round(v * S), S = 2^14; Tol = 2 (1.2e-4 px). *)
(* kinds:                                                                                                        *)
(*  "com"    : centroid_com on an integer image with masked pixels - exact rational centre of mass;              *)
(*  "exact"  : a function's result on an image whose true centre is known exactly (symmetric source, quadratic);   *)
(*  "pair"   : results on an image and on its transformed copy (D4 element, positive rescaling, changed values of  *)
(*             masked pixels): transformed result = transform of the result;                                      *)
(*  "loop"   : what a recording probe centroid function received in every iteration of centroid_sources, and what  *)
(*             centroid_sources returned: per-source windows, masks, error cutouts, peak offsets, offset restore.  *)
EXTENDS CentroidOps, IOUtils
Cases == JsonDeserialize(IOEnv.TRACE_FILE)
VARIABLE i
S == 16384
Tol == 2
Near(a, b) == a - b <= Tol /\ b - a <= Tol
PixSetOf(sq) == {<<sq[j][1], sq[j][2]>> : j \in 1..Len(sq)}

ComClause(c) ==
  LET d == FromRows(c.data)  sums == ComSums(d, PixSetOf(c.bad)) IN
  IF sums[3] = 0 THEN (IF c.isnan THEN "ok" ELSE "com_nan_when_total_zero")
  ELSE IF c.isnan THEN "com_is_weighted_mean"
  \* |x_fixed * total - S * sum(x v)| <= Tol * |total|
  ELSE IF Abs(c.x * sums[3] - S * sums[1]) > Tol * Abs(sums[3]) + 1 \/ Abs(c.y * sums[3] - S * sums[2]) > Tol * Abs(sums[3]) + 1 THEN "com_is_weighted_mean"
  ELSE "ok"
ExactClause(c) == IF c.isnan THEN "exact_centre_of_symmetric_or_quadratic_source"
                  ELSE IF ~Near(c.x, c.tx) \/ ~Near(c.y, c.ty) THEN "exact_centre_of_symmetric_or_quadratic_source" ELSE "ok"
PairClause(c) ==
  IF c.isnan1 # c.isnan2 THEN "commutes_with_" \o c.rel
  ELSE IF c.isnan1 THEN "ok"
  ELSE LET t == IF c.rel \in {"rescale", "rescale_to_small_units", "maskedvalues"} THEN <<c.x1, c.y1>> ELSE D4(c.rel, c.x1, c.y1, c.w * S - (S - 1), c.h * S - (S - 1)) IN
       \* D4 on fixed-point coordinates: x -> (w-1)*S - x ; written through w*S-(S-1) so that w-1-x scales correctly
       IF ~Near(c.x2, t[1]) \/ ~Near(c.y2, t[2]) THEN "commutes_with_" \o c.rel ELSE "ok"
\* one iteration record: window of the probe call (origin and shape read from the index-valued error cutout), mask bits, peaks
LoopClause(c) ==
  IF Len(c.calls) # Len(c.pos) THEN "one_call_per_position"
  ELSE IF \E k \in 1..Len(c.pos) :
       LET px == c.pos[k][1]  py == c.pos[k][2]   \* quarter pixels
           x0 == LargeLo(px, c.fw, c.w)  x1 == LargeHi(px, c.fw, c.w)
           y0 == LargeLo(py, c.fh, c.h)  y1 == LargeHi(py, c.fh, c.h)
           call == c.calls[k] IN
       \/ call.shape # <<y1 - y0, x1 - x0>>                         \* the data cutout is this position's window
       \/ call.data_origin # <<y0, x0>>
  THEN "cutout_is_window_of_this_position"
  ELSE IF \E k \in 1..Len(c.pos) : c.has_error /\
       (c.calls[k].err_origin # c.calls[k].data_origin \/ c.calls[k].err_shape # c.calls[k].shape) THEN "error_cutout_of_this_position"
  ELSE IF \E k \in 1..Len(c.pos) : c.has_peak /\
       (c.calls[k].xpeak # c.xpeak - c.calls[k].data_origin[2] \/ c.calls[k].ypeak # c.ypeak - c.calls[k].data_origin[1]) THEN "peak_relative_to_this_cutout"
  ELSE IF \E k \in 1..Len(c.pos) :
       LET px == c.pos[k][1]  py == c.pos[k][2]
           sx == SmallLo(px, c.fw)  sy == SmallLo(py, c.fh)
           call == c.calls[k]
           exp == {<<r, q>> \in (0..(call.shape[1] - 1)) \X (0..(call.shape[2] - 1)) :
                      \/ <<r + sy, q + sx>> \in PixSetOf(c.fp_false)                                  \* outside the footprint
                      \/ <<r + call.data_origin[1], q + call.data_origin[2]>> \in PixSetOf(c.mask)}    \* input mask
       IN PixSetOf(call.mask) # exp THEN "mask_is_footprint_or_input_mask_of_this_cutout"
  ELSE IF \E k \in 1..Len(c.pos) : ~c.calls[k].kwargs_ok THEN "extra_arguments_passed_unchanged"
  \* the probe returns (a, b) = cutout-relative (1/4, 1/2): result = origin + that
  ELSE IF \E k \in 1..Len(c.pos) : c.out[k] # <<4 * c.calls[k].data_origin[2] + 1, 4 * c.calls[k].data_origin[1] + 2>> THEN "offset_restored_with_this_cutout_origin"
  ELSE "ok"
Clause(c) == CASE c.kind = "com" -> ComClause(c) [] c.kind = "exact" -> ExactClause(c) [] c.kind = "pair" -> PairClause(c) [] c.kind = "loop" -> LoopClause(c)
Init == i = 1
Next == /\ i <= Len(Cases)
        /\ LET cl == Clause(Cases[i]) IN PrintT(<<"V", ToJson([id |-> Cases[i].id, ok |-> (cl = "ok"), clause |-> cl])>>)
        /\ i' = i + 1
TSpec == Init /\ [][Next]_i
=============================================================================
