SPECIFICATION Spec
CONSTANTS
  NChains = 3
  MaxDepth = 3
  MaxIters = 4
  Modes = {"new", "all"}
  Variant = "ok"
  AllowLoss = TRUE
  Emit = FALSE
INVARIANT TypeOK
INVARIANT TableComplete
INVARIANT NoGaps
INVARIANT GidsContiguous
INVARIANT GroupsAreFitGroups
PROPERTY NewModeAppendOnly
PROPERTY StoppedIsFinal
CHECK_DEADLOCK FALSE
