------------------------------ MODULE SegmOps ------------------------------
(***************************************************************************)
(* photutils.segmentation.SegmentationImage as a state machine (C05).      *)
(*                                                                         *)
(* Abstract state: the label array `data`, the deblend bookkeeping `dmap`  *)
(* (parent |-> set of children).  Implementation-shaped state: `cache`,    *)
(* the memo dictionary of lazyproperties *with their values*, following    *)
(* the code's discipline:                                                  *)
(*   - every mutator funnels into reassign_labels, which drops the whole   *)
(*     cache;                                                              *)
(*   - relabel_consecutive drops the cache, then re-seeds `labels` with    *)
(*     the new labels and KEEPS the old `slices` list;                     *)
(*   - the data setter seeds `labels`;                                     *)
(*   - `labels` is derived from cached raw slices when those exist;        *)
(*   - `areas` zips labels with slices (strict).                           *)
(* The declarative side is Derive(attr, data): what a fresh object         *)
(* reports.  CacheCoherent says every cached value equals Derive.          *)
(* Operators take the array as an argument so that Trace_SegmImage can     *)
(* re-use them on recorded arrays of any shape.                            *)
(***************************************************************************)
EXTENDS Integers, Sequences, FiniteSets, TLC, FiniteSetsExt, SequencesExt, Json, Pix

None == <<>>                      \* a missing slice (find_objects returns None)
Raise == "raise"

PixOf(d)      == DOMAIN d                                   \* set of <<r,c>>, 0-indexed
LabelSet(d)   == {d[p] : p \in PixOf(d)} \ {0}
Seg(d, l)     == {p \in PixOf(d) : d[p] = l}
MaxOr0(S)     == IF S = {} THEN 0 ELSE Max(S)
SortedSeq(S)  == SetToSortSeq(S, <)
RowsOf(d)     == {p[1] : p \in PixOf(d)}
ColsOf(d)     == {p[2] : p \in PixOf(d)}
NRows(d)      == Cardinality(RowsOf(d))
NCols(d)      == Cardinality(ColsOf(d))

\* minimal half-open box <<r0, r1, c0, c1>> of a non-empty pixel set (python slices)
MinBox(S) == <<Min({p[1] : p \in S}), Max({p[1] : p \in S}) + 1,
               Min({p[2] : p \in S}), Max({p[2] : p \in S}) + 1>>
InBox(p, b) == b[1] <= p[1] /\ p[1] < b[2] /\ b[3] <= p[2] /\ p[2] < b[4]

(************************* declarative: a fresh object *********************)
DLabels(d)    == SortedSeq(LabelSet(d))
DRawSlices(d) == [l \in 1..MaxOr0(LabelSet(d)) |-> IF Seg(d, l) = {} THEN None ELSE MinBox(Seg(d, l))]
DSlices(d)    == LET ls == DLabels(d) IN [i \in 1..Len(ls) |-> MinBox(Seg(d, ls[i]))]
DAreas(d)     == LET ls == DLabels(d) IN [i \in 1..Len(ls) |-> Cardinality(Seg(d, ls[i]))]
DNLabels(d)   == Cardinality(LabelSet(d))
DMaxLabel(d)  == MaxOr0(LabelSet(d))
DIsConsec(d)  == LabelSet(d) # {} /\ LabelSet(d) = 1..Cardinality(LabelSet(d))
DMissing(d)   == SortedSeq((1..DMaxLabel(d)) \ LabelSet(d))
DBkgArea(d)   == Cardinality(Seg(d, 0))
\* one polygon / segment entry per label: area = pixel count, bounds = minimal box
DPolygons(d)  == LET ls == DLabels(d) IN
                 [i \in 1..Len(ls) |-> [label |-> ls[i], area |-> Cardinality(Seg(d, ls[i])), box |-> MinBox(Seg(d, ls[i])),
                                        nregions |-> Cardinality(Components(Seg(d, ls[i]), 8))]]

Derive(a, d) ==
  CASE a = "labels"          -> DLabels(d)
    [] a = "raw_slices"      -> DRawSlices(d)
    [] a = "slices"          -> DSlices(d)
    [] a = "areas"           -> DAreas(d)
    [] a = "nlabels"         -> DNLabels(d)
    [] a = "max_label"       -> DMaxLabel(d)
    [] a = "is_consecutive"  -> DIsConsec(d)
    [] a = "missing_labels"  -> DMissing(d)
    [] a = "background_area" -> DBkgArea(d)
    [] a = "polygons"        -> DPolygons(d)

(********************* implementation-shaped lazy reads ********************)
Has(c, a) == a \in DOMAIN c
Put(c, a, v) == IF Has(c, a) THEN c ELSE c @@ (a :> v)

GetRaw(c, d)    == Put(c, "raw_slices", DRawSlices(d))                  \* scipy.ndimage.find_objects
LabelsFromRaw(raw) == LET idx == {l \in 1..Len(raw) : raw[l] # None} IN SortedSeq(idx)
GetLabels(c, d) == Put(c, "labels", IF Has(c, "raw_slices") THEN LabelsFromRaw(c["raw_slices"]) ELSE DLabels(d))
GetSlices(c, d) == IF Has(c, "slices") THEN c
                   ELSE LET c1 == GetRaw(c, d) IN Put(c1, "slices", SelectSeq(c1["raw_slices"], LAMBDA s : s # None))
GetNLabels(c, d) == IF Has(c, "nlabels") THEN c ELSE LET c1 == GetLabels(c, d) IN Put(c1, "nlabels", Len(c1["labels"]))
GetMaxLabel(c, d) == IF Has(c, "max_label") THEN c
                     ELSE LET c1 == GetNLabels(c, d) IN
                          Put(c1, "max_label", IF c1["nlabels"] = 0 THEN 0 ELSE Max({c1["labels"][i] : i \in 1..Len(c1["labels"])}))
GetAreas(c, d) == IF Has(c, "areas") THEN c
                  ELSE LET c1 == GetLabels(c, d)
                           c2 == GetSlices(c1, d)
                           ls == c2["labels"]
                           ss == c2["slices"]
                       IN Put(c2, "areas", IF Len(ls) # Len(ss) THEN Raise     \* zip(..., strict=True)
                                          ELSE [i \in 1..Len(ls) |-> Cardinality({p \in PixOf(d) : InBox(p, ss[i]) /\ d[p] = ls[i]})])
GetIsConsec(c, d) == IF Has(c, "is_consecutive") THEN c
                     ELSE LET c1 == GetNLabels(c, d)
                              ls == c1["labels"]
                          IN Put(c1, "is_consecutive", c1["nlabels"] # 0 /\ ls[Len(ls)] - ls[1] + 1 = c1["nlabels"] /\ ls[1] = 1)
GetMissing(c, d) == IF Has(c, "missing_labels") THEN c
                    ELSE LET c1 == GetMaxLabel(c, d)
                         IN Put(c1, "missing_labels", SortedSeq((1..c1["max_label"]) \ {c1["labels"][i] : i \in 1..Len(c1["labels"])}))
GetBkgArea(c, d) == Put(c, "background_area", DBkgArea(d))

ReadAttrs == {"labels", "slices", "areas", "max_label", "is_consecutive", "missing_labels", "background_area"}
Get(c, d, a) ==
  CASE a = "labels"          -> GetLabels(c, d)
    [] a = "raw_slices"      -> GetRaw(c, d)
    [] a = "slices"          -> GetSlices(c, d)
    [] a = "areas"           -> GetAreas(c, d)
    [] a = "nlabels"         -> GetNLabels(c, d)
    [] a = "max_label"       -> GetMaxLabel(c, d)
    [] a = "is_consecutive"  -> GetIsConsec(c, d)
    [] a = "missing_labels"  -> GetMissing(c, d)
    [] a = "background_area" -> GetBkgArea(c, d)
\* reading everything (labels first), as the conformance harness does before a mutator
GetAll(c, d) == GetBkgArea(GetMissing(GetIsConsec(GetAreas(GetLabels(c, d), d), d), d), d)
EmptyCache == [x \in {} |-> 0]

(*************************** mutators: effects *****************************)
\* relabel map of reassign_labels(ls, new, relabel): a function on 0..max_label
ReassignMap(d, ls, new, relabel) ==
  LET m1 == [l \in 0..DMaxLabel(d) |-> IF l \in ls THEN new ELSE IF l \in LabelSet(d) THEN l ELSE 0]
      kept == {m1[l] : l \in 0..DMaxLabel(d)} \ {0}
      rank == [v \in kept |-> Cardinality({u \in kept : u <= v})]
  IN IF relabel THEN [l \in 0..DMaxLabel(d) |-> IF m1[l] = 0 THEN 0 ELSE rank[m1[l]]] ELSE m1
ApplyMap(d, m) == [p \in PixOf(d) |-> m[d[p]]]
\* required bookkeeping: children are carried through the map; a child that disappears is no longer named;
\* a parent left without children is dropped
MapDmap(dm, m) == LET dm2 == [q \in DOMAIN dm |-> {m[ch] : ch \in dm[q]} \ {0}]
                  IN [q \in {x \in DOMAIN dm2 : dm2[x] # {}} |-> dm2[q]]

\* an empty label list re-assigns nothing, but relabel=TRUE still leaves labels 1..N (the map is then the rank map)
ReassignData(d, ls, new, relabel) == ApplyMap(d, ReassignMap(d, ls, new, relabel))
ReassignDmap(d, dm, ls, new, relabel) == MapDmap(dm, ReassignMap(d, ls, new, relabel))

RelabelNoop(d, start) == LabelSet(d) = {} \/ LabelSet(d) = start..(start + Cardinality(LabelSet(d)) - 1)
ConsecMap(d, start) == [l \in 0..DMaxLabel(d) |-> IF l \in LabelSet(d) THEN start - 1 + Cardinality({u \in LabelSet(d) : u <= l}) ELSE 0]

BorderMask(d, w) == {p \in PixOf(d) : p[1] < w \/ p[1] >= NRows(d) - w \/ p[2] < w \/ p[2] >= NCols(d) - w}
BorderOK(d, w)   == 2 * w < Min({NRows(d), NCols(d)})             \* else ValueError
MaskedLabels(d, mask, partial) ==
  LET hit == {d[p] : p \in mask} \ {0}
      interior == {d[p] : p \in PixOf(d) \ mask} \ {0}
  IN IF partial THEN hit ELSE hit \ interior

(* make_source_mask: dilation of the non-zero support by a footprint given as offsets <<dr, dc>> from its centre: the locus of the   *)
(* points covered by the footprint when its centre lies on a labelled pixel (no reflection), clipped to the array.                 *)
SupportOf(d) == {p \in PixOf(d) : d[p] # 0}
Dilate(d, offs) == {p \in PixOf(d) : \E o \in offs : <<p[1] - o[1], p[2] - o[2]>> \in SupportOf(d)}

(************************ effects as functions of an event *****************)
\* An event is a record with field `op` and the call's arguments; sequences stand for python lists.
RangeOf(sq) == {sq[i] : i \in 1..Len(sq)}
EvLabels(d, ev) ==          \* the labels the call ends up re-assigning to ev's target
  CASE ev.op = "reassign"      -> RangeOf(ev.labels)
    [] ev.op = "remove"        -> RangeOf(ev.labels)
    [] ev.op = "keep"          -> LabelSet(d) \ RangeOf(ev.labels)
    [] ev.op = "remove_border" -> MaskedLabels(d, BorderMask(d, ev.width), ev.partial)
    [] ev.op = "remove_masked" -> MaskedLabels(d, RangeOf(ev.mask), ev.partial)
IsReassignLike(ev) == ev.op \in {"reassign", "remove", "keep", "remove_border", "remove_masked"}
EvNew(ev) == IF ev.op = "reassign" THEN ev.new ELSE 0

\* argument validity (an invalid call must raise and change nothing)
EvValid(d, ev) ==
  \* (recorded events carry dtmax, the largest value of the array's integer dtype: labels that do not fit must be refused, not wrapped)
  CASE ev.op \in {"reassign", "remove", "keep"} -> /\ RangeOf(ev.labels) \subseteq LabelSet(d)
                                                  /\ (("dtmax" \in DOMAIN ev /\ ev.op = "reassign") => ev.new <= ev.dtmax)
    [] ev.op = "remove_border"       -> BorderOK(d, ev.width)
    [] ev.op = "relabel_consecutive" -> /\ (LabelSet(d) = {} \/ ev.start > 0)
                                        /\ (("dtmax" \in DOMAIN ev /\ LabelSet(d) # {} /\ ev.start > 0 /\ ~RelabelNoop(d, ev.start))
                                                => ev.start + Cardinality(LabelSet(d)) - 1 <= ev.dtmax)
    [] OTHER -> TRUE

EffData(d, ev) ==
  IF ~EvValid(d, ev) THEN d
  ELSE IF IsReassignLike(ev) THEN ReassignData(d, EvLabels(d, ev), EvNew(ev), ev.relabel)
  ELSE IF ev.op = "relabel_consecutive" THEN (IF RelabelNoop(d, ev.start) THEN d ELSE ApplyMap(d, ConsecMap(d, ev.start)))
  ELSE IF ev.op = "setdata" THEN [p \in PixOf(d) |-> ev.data[p[1] + 1][p[2] + 1]]
  ELSE d
EffDmap(d, dm, ev) ==
  IF ~EvValid(d, ev) THEN dm
  ELSE IF IsReassignLike(ev) THEN ReassignDmap(d, dm, EvLabels(d, ev), EvNew(ev), ev.relabel)
  ELSE IF ev.op = "relabel_consecutive" THEN (IF RelabelNoop(d, ev.start) THEN dm ELSE MapDmap(dm, ConsecMap(d, ev.start)))
  ELSE IF ev.op = "setdata" THEN [x \in {} |-> {}]
  ELSE dm
\* the memo dictionary after relabel_consecutive(start), following the code: old slices are kept, labels re-seeded
RelabelCache(d, c, start) ==
  IF RelabelNoop(d, start) THEN GetNLabels(c, d)
  ELSE LET seeded == ("labels" :> [i \in 1..DNLabels(d) |-> start - 1 + i])
       IN IF Has(c, "slices") THEN seeded @@ ("slices" :> c["slices"]) ELSE seeded
\* the memo dictionary after the event, following the code
EffCache(d, c, ev) ==
  IF ~EvValid(d, ev) THEN GetLabels(c, d)
  ELSE IF IsReassignLike(ev) THEN
         (IF EvLabels(d, ev) # {} THEN EmptyCache
          ELSE IF ev.relabel THEN RelabelCache(d, GetLabels(c, d), 1) ELSE GetLabels(c, d))
  ELSE IF ev.op = "relabel_consecutive" THEN RelabelCache(d, c, ev.start)
  ELSE IF ev.op = "setdata" THEN ("labels" :> DLabels(EffData(d, ev)))
  ELSE IF ev.op = "read" THEN Get(c, d, ev.attr)
  ELSE IF ev.op = "readall" THEN GetAll(c, d)
  ELSE c

RowsJ(d) == [r \in 1..NRows(d) |-> [c \in 1..NCols(d) |-> d[<<r-1, c-1>>]]]
DmapJ(dm) == SetToSortSeq({<<q, SortedSeq(dm[q])>> : q \in DOMAIN dm}, LAMBDA a, b : a[1] < b[1])
\* everything a fresh object reports, for the conformance harness to compare with
AttrsJ(d) == [labels |-> DLabels(d), slices |-> DSlices(d), areas |-> DAreas(d), nlabels |-> DNLabels(d),
              max_label |-> DMaxLabel(d), is_consecutive |-> DIsConsec(d), missing_labels |-> DMissing(d),
              background_area |-> DBkgArea(d), polygons |-> DPolygons(d)]
=============================================================================
