-------------------------------- MODULE PSFBook --------------------------------
(***************************************************************************)
(* Bookkeeping of grouped PSF fitting (C12).  N sources in input order     *)
(* 1..N carry group ids gid[i].  The fit runs group by group on the table  *)
(* sorted (stably) by group id; every per-source item of the per-group     *)
(* results (fitted parameters, errors, npixfit, centre index, group size,  *)
(* fit info) is concatenated in that order and must be brought back to     *)
(* input order: result[i] belongs to source i.                             *)
(* Variant "argsort_ids" (the code: ungroup = argsort of the ids in        *)
(* grouped order, result[i] = flat[ungroup[i]]) is required to satisfy     *)
(* OwnRow for every assignment; "argsort_gid" and "scatter" (out[ungroup]  *)
(* = flat) are realistic wrong designs that TLC must reject.               *)
(***************************************************************************)
EXTENDS Integers, Sequences, FiniteSets, FiniteSetsExt, SequencesExt, TLC
CONSTANTS N, Variant
VARIABLE gid
\* stable sort of 1..N by group id
Grouped == SortSeq([i \in 1..N |-> i], LAMBDA a, b : gid[a] < gid[b] \/ (gid[a] = gid[b] /\ a < b))
PosOf(sq, v) == CHOOSE k \in 1..Len(sq) : sq[k] = v
Flat == [k \in 1..N |-> Grouped[k]]                     \* payload of the k-th fitted source = its source id
\* argsort of a sequence of distinct-or-not keys (stable)
ArgSort(keys) == SortSeq([i \in 1..N |-> i], LAMBDA a, b : keys[a] < keys[b] \/ (keys[a] = keys[b] /\ a < b))
Ungroup == IF Variant = "argsort_gid" THEN ArgSort(gid) ELSE ArgSort([k \in 1..N |-> Grouped[k]])
Result == IF Variant = "scatter" THEN [i \in 1..N |-> Flat[PosOf(Ungroup, i)]]       \* out[ungroup[k]] = flat[k]
          ELSE [i \in 1..N |-> Flat[Ungroup[i]]]
Init == gid \in [1..N -> 1..N]
Next == UNCHANGED gid
Spec == Init /\ [][Next]_gid
OwnRow == \A i \in 1..N : Result[i] = i
=============================================================================
