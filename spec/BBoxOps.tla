-------------------------------- MODULE BBoxOps --------------------------------
(***************************************************************************)
(* Bounding boxes under the 0-indexed pixel-centre convention (C01).       *)
(* Lengths are integers in units of 1/Q pixel.  Pixel i is the open cell   *)
(* (i - 1/2, i + 1/2).                                                     *)
(*  FromFloat   : the code's closed form floor(x + 1/2), ceil(x + 1/2);    *)
(*  MinimalBox  : declaratively, the least [i0, i1) containing every pixel *)
(*                whose open cell meets the closed interval [xmin, xmax].  *)
(*  OverlapSlices(box, shape): the common pixels of box and image as a     *)
(*                pair of (large, small) index ranges, None iff empty.     *)
(***************************************************************************)
EXTENDS Integers, Sequences, FiniteSets, FiniteSetsExt, TLC, Json
Abs(x) == IF x < 0 THEN -x ELSE x
CeilDiv(a, b) == -((-a) \div b)
LoOf(xmin, Q) == (2 * xmin + Q) \div (2 * Q)            \* floor(xmin/Q + 1/2)
HiOf(xmax, Q) == CeilDiv(2 * xmax + Q, 2 * Q)           \* ceil(xmax/Q + 1/2)
\* pixel i meets [xmin, xmax]  <=>  i - 1/2 < xmax  and  i + 1/2 > xmin   (in units 1/(2Q))
Meets(i, xmin, xmax, Q) == 2 * Q * i - Q < 2 * xmax /\ 2 * Q * i + Q > 2 * xmin
MinimalLo(xmin, xmax, Q, R) == Min({i \in R : Meets(i, xmin, xmax, Q)})
MinimalHi(xmin, xmax, Q, R) == Max({i \in R : Meets(i, xmin, xmax, Q)}) + 1

None == <<>>
\* one axis of get_overlap_slices: box [b0, b1) against image length n -> <<large range, small range>> or None
Axis(b0, b1, n) == IF b1 <= 0 \/ b0 >= n THEN None
                   ELSE <<<<Max({b0, 0}), Min({b1, n})>>, <<Max({-b0, 0}), Min({b1, n}) - b0>>>>
OverlapSlices(ix0, ix1, iy0, iy1, ny, nx) ==
  IF Axis(ix0, ix1, nx) = None \/ Axis(iy0, iy1, ny) = None THEN None
  ELSE [large |-> <<Axis(iy0, iy1, ny)[1], Axis(ix0, ix1, nx)[1]>>, small |-> <<Axis(iy0, iy1, ny)[2], Axis(ix0, ix1, nx)[2]>>]
\* declaratively: the pixels selected in the image and in the box cutout
Common(ix0, ix1, iy0, iy1, ny, nx) == {p \in (iy0..(iy1 - 1)) \X (ix0..(ix1 - 1)) : 0 <= p[1] /\ p[1] < ny /\ 0 <= p[2] /\ p[2] < nx}
Selected(sl) == {p \in (sl.large[1][1]..(sl.large[1][2] - 1)) \X (sl.large[2][1]..(sl.large[2][2] - 1)) : TRUE}
SelectedSmall(sl, ix0, iy0) == {<<p[1] + iy0, p[2] + ix0>> : p \in (sl.small[1][1]..(sl.small[1][2] - 1)) \X (sl.small[2][1]..(sl.small[2][2] - 1))}
UnionBox(a, b) == <<Min({a[1], b[1]}), Max({a[2], b[2]}), Min({a[3], b[3]}), Max({a[4], b[4]})>>
InterBox(a, b) == LET r == <<Max({a[1], b[1]}), Min({a[2], b[2]}), Max({a[3], b[3]}), Min({a[4], b[4]})>>
                  IN IF r[1] >= r[2] \/ r[3] >= r[4] THEN None ELSE r
=============================================================================
