SPECIFICATION Spec
CONSTANTS
  H = 2
  W = 3
  Vals = {0, 1, 2}
  ThrKinds = {"c1", "checker"}
  NPix = {1, 2, 3}
  Conns = {4, 8}
  BadKinds = {"none", "nan1", "maskrow"}
  Emit = TRUE
  Shard = 0
  NShards = 1
CHECK_DEADLOCK FALSE
