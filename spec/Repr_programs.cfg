SPECIFICATION PSpec
CHECK_DEADLOCK FALSE
