----------------------------- MODULE Trace_ApStats -----------------------------
(***************************************************************************)
(* ApertureStats (C16).  For an aperture on the half-pixel lattice TLC     *)
(* computes the pixel set of the statistics itself:                        *)
(*   P = {pixels of the image whose CENTRE lies in the aperture}           *)
(*       minus masked, minus non-finite, minus sigma-clipped               *)
(* with values v = data - local background, and from it the exact          *)
(* (rational) min, max, mean, median, variance, MAD, centroid; sum /       *)
(* sum_err / areas are the ApPhot sums with the sum_method weights over    *)
(* unmasked finite pixels (no sigma clip).  NaN iff no overlap or P = {}.  *)
(* Integer sigma clipping: centre = median, spread = population standard   *)
(* deviation, keep |v - med| <= sigma * std, up to maxiters iterations     *)
(* (exact by cross-multiplication; a value exactly on the limit is a tie). *)
(* Fixed point: S = 4096 (values, positions), 64 (variance), 16 (std).     *)
(***************************************************************************)
EXTENDS ApMask, IOUtils
Cases == JsonDeserialize(IOEnv.TRACE_FILE)
VARIABLE i
S == 4096
PixSetOf(sq) == {<<sq[j][1], sq[j][2]>> : j \in 1..Len(sq)}
R == (-12)..16
SumF(f, T) == FoldSet(LAMBDA p, acc : acc + f[p], 0, T)
SumSqF(f, T) == FoldSet(LAMBDA p, acc : acc + f[p] * f[p], 0, T)
\* twice the median of the values f over the non-empty set T
Median2(f, T) ==
  LET n == Cardinality(T)
      rank(p) == Cardinality({q \in T : f[q] < f[p]})            \* number of strictly smaller values
      ge(p) == Cardinality({q \in T : f[q] <= f[p]})
      \* k-th smallest value (1-based): the value v with rank(v) < k <= ge(v)
      kth(k) == f[CHOOSE p \in T : rank(p) < k /\ k <= ge(p)]
  IN IF n % 2 = 1 THEN 2 * kth((n + 1) \div 2) ELSE kth(n \div 2) + kth(n \div 2 + 1)
\* one sigma-clipping pass: keep p iff (2 v - M2)^2 * n^2 <= 4 * sig^2 * (n * sum v^2 - (sum v)^2)
ClipOnce(f, T, sig) ==
  LET n == Cardinality(T)  m2 == Median2(f, T)  q == n * SumSqF(f, T) - SumF(f, T) * SumF(f, T)
  IN {p \in T : (2 * f[p] - m2) * (2 * f[p] - m2) * n * n <= 4 * sig * sig * q}
ClipTie(f, T, sig) ==
  LET n == Cardinality(T)  m2 == Median2(f, T)  q == n * SumSqF(f, T) - SumF(f, T) * SumF(f, T)
  IN \E p \in T : (2 * f[p] - m2) * (2 * f[p] - m2) * n * n = 4 * sig * sig * q /\ q > 0
RECURSIVE Clip(_, _, _, _)
Clip(f, T, sig, iters) == IF iters = 0 \/ T = {} THEN T ELSE LET T2 == ClipOnce(f, T, sig) IN IF T2 = T THEN T ELSE Clip(f, T2, sig, iters - 1)
RECURSIVE AnyClipTie(_, _, _, _)
AnyClipTie(f, T, sig, iters) == IF iters = 0 \/ T = {} THEN FALSE ELSE ClipTie(f, T, sig) \/ (LET T2 == ClipOnce(f, T, sig) IN T2 # T /\ AnyClipTie(f, T2, sig, iters - 1))

Near(a, b, tol) == a - b <= tol /\ b - a <= tol
Clause(c) ==
  LET sh == c.shape  Q == c.q
      bx == <<BoxLo(sh, c.cx, 1, Q, R), BoxHi(sh, c.cx, 1, Q, R), BoxLo(sh, c.cy, 2, Q, R), BoxHi(sh, c.cy, 2, Q, R)>>
      ny == Len(c.data)  nx == Len(c.data[1])
      common == {p \in (bx[3]..(bx[4] - 1)) \X (bx[1]..(bx[2] - 1)) : 0 <= p[1] /\ p[1] < ny /\ 0 <= p[2] /\ p[2] < nx}
      bad == PixSetOf(c.mask) \cup PixSetOf(c.nonfinite)
      v == [p \in common |-> c.data[p[1] + 1][p[2] + 1] - c.bkg]
      P0 == {p \in common : Count(sh, c.cx, c.cy, p[1], p[2], 1, Q, "impl") > 0 /\ p \notin bad}
      P == IF c.sigma > 0 THEN Clip(v, P0, c.sigma, c.maxiters) ELSE P0
      \* rotated shapes: cos/sin are inexact in floating point, a pixel centre exactly on the boundary is a don't-care
      rotated == sh.kind \notin {"circle", "cann"} /\ sh.ang # 0
      edgetie == rotated /\ (\E p \in common : Count(sh, c.cx, c.cy, p[1], p[2], 1, Q, "lower") # Count(sh, c.cx, c.cy, p[1], p[2], 1, Q, "upper"))
      tie == edgetie \/ (rotated /\ (BoxTie(sh, c.cx, 1, Q, R) \/ BoxTie(sh, c.cy, 2, Q, R))) \/ (c.sigma > 0 /\ AnyClipTie(v, P0, c.sigma, c.maxiters))
      n == Cardinality(P)
      sum == SumF(v, P)   ssq == SumSqF(v, P)
      vals == {v[p] : p \in P}
  IN IF tie THEN "ok"
     ELSE IF common = {} \/ P = {} THEN (IF c.nan.min /\ c.nan.max /\ c.nan.mean /\ c.nan.median /\ c.nan.std THEN "ok" ELSE "nan_when_no_overlap_or_no_unmasked_pixel")
     ELSE IF c.nan.min \/ c.nan.mean \/ c.nan.median THEN "nan_when_no_overlap_or_no_unmasked_pixel"
     ELSE IF c.npix # n THEN "center_aper_area_counts_pixel_set"
     ELSE IF ~Near(c.min_k, S * Min(vals), 1) \/ ~Near(c.max_k, S * Max(vals), 1) THEN "min_max_of_pixel_set"
     ELSE IF ~Near(c.mean_k * n, S * sum, 2 * n) THEN "mean_of_pixel_set"
     ELSE IF ~Near(2 * c.median_k, S * Median2(v, P), 3) THEN "median_of_pixel_set"
     ELSE IF ~Near(c.var_k * n * n, 64 * (n * ssq - sum * sum), n * n + 64) THEN "variance_of_pixel_set"
     ELSE IF ~Near(c.std_k * c.std_k * n * n, 256 * (n * ssq - sum * sum), (2 * c.std_k + 2) * n * n) THEN "std_of_pixel_set"
     ELSE IF ~Near(4 * c.mad_k, S * Median2([p \in P |-> Abs(2 * v[p] - Median2(v, P))], P), 6) THEN "mad_of_pixel_set"
     \* centroid: centre of mass of the values over P, in image coordinates (x = column)
     \* (a negative net flux - sky apertures on background-subtracted data - still has a centre of mass; only a zero sum has none)
     ELSE IF c.sigma = 0 /\ sum # 0 /\
             (c.nan.xcen \/ c.nan.ycen \/ ~Near(c.xcen_k * sum, S * FoldSet(LAMBDA p, acc : acc + p[2] * v[p], 0, P), 2 * Abs(sum) + 2)
              \/ ~Near(c.ycen_k * sum, S * FoldSet(LAMBDA p, acc : acc + p[1] * v[p], 0, P), 2 * Abs(sum) + 2)) THEN "centroid_is_centre_of_mass_in_image_coordinates"
     \* covariance matrix = second central moments of the values over P (about their centre of mass), in 1/256 px^2:
     \* cov_xx * m00^2 = m02 * m00 - m01^2 etc. (coordinates relative to the box origin).  Clearly regular sources (det >= 2/144)
     \* carry no regularisation; clearly thin ones (det < 1/288) get the same k/12 on both diagonals; a negative determinant
     \* (possible with negative values) is a don't-care
     ELSE IF c.sigma = 0 /\ sum > 0 /\ ~c.nan.cov /\
             (LET ox == bx[1]  oy == bx[3]
                  m01 == FoldSet(LAMBDA p, acc : acc + (p[2] - ox) * v[p], 0, P)   m10 == FoldSet(LAMBDA p, acc : acc + (p[1] - oy) * v[p], 0, P)
                  m02 == FoldSet(LAMBDA p, acc : acc + (p[2] - ox) * (p[2] - ox) * v[p], 0, P)
                  m20 == FoldSet(LAMBDA p, acc : acc + (p[1] - oy) * (p[1] - oy) * v[p], 0, P)
                  m11 == FoldSet(LAMBDA p, acc : acc + (p[2] - ox) * (p[1] - oy) * v[p], 0, P)
                  A == m02 * sum - m01 * m01   B == m20 * sum - m10 * m10   C == m11 * sum - m01 * m10
                  mm == sum * sum
                  small == A >= 0 /\ B >= 0 /\ A < 30000 /\ B < 30000 /\ Abs(C) < 30000 /\ mm < 30000
                  det == A * B - C * C
                  regular == det >= (2 * mm * mm) \div 144 + 1
                  thin == det >= 0 /\ det < (mm * mm) \div 288
                  dx == c.cov[1] * mm - 256 * A   dy == c.cov[3] * mm - 256 * B   dxy == c.cov[2] * mm - 256 * C
                  tol == 3 * mm
              IN small /\ det >= 0 /\ (\/ ~Near(dxy, 0, tol)
                                        \/ (regular /\ (~Near(dx, 0, tol) \/ ~Near(dy, 0, tol)))
                                        \/ (thin /\ (~Near(dx, dy, 2 * tol) \/ dx < (256 * mm) \div 12 - tol)))) THEN "covariance_is_second_central_moment_of_pixel_set"
     \* sums with the sum_method weights (no sigma clip): counted = positive weight, unmasked, finite
     ELSE IF c.sigma = 0 /\ (sh.ang = 0 \/ sh.kind \in {"circle", "cann"}) /\ c.s \in {1, 2, 4} /\
             (LET cnt == [p \in common |-> Count(sh, c.cx, c.cy, p[1], p[2], c.s, Q, "impl")]
                  good == {p \in common : cnt[p] > 0 /\ p \notin bad}  s2 == c.s * c.s IN
              good # {} /\ (~Near(c.sum_k * s2, S * FoldSet(LAMBDA p, acc : acc + cnt[p] * v[p], 0, good), 2 * s2)
                            \/ ~Near(c.sumarea_k * s2, S * FoldSet(LAMBDA p, acc : acc + cnt[p], 0, good), 2 * s2))) THEN "sum_and_area_equal_aperture_photometry"
     ELSE "ok"
PairClause(c) == IF \E k \in 1..Len(c.a) : c.a_nan[k] # c.b_nan[k] \/ (~c.a_nan[k] /\ ~Near(c.a[k], c.b[k], c.tol)) THEN c.rel ELSE "ok"
Init == i = 1
Next == /\ i <= Len(Cases)
        /\ LET cl == IF Cases[i].kind = "pair" THEN PairClause(Cases[i]) ELSE Clause(Cases[i]) IN
           PrintT(<<"V", ToJson([id |-> Cases[i].id, ok |-> (cl = "ok"), clause |-> cl])>>)
        /\ i' = i + 1
TSpec == Init /\ [][Next]_i
=============================================================================
