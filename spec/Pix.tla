-------------------------------- MODULE Pix --------------------------------
(* Shared pixel-lattice theory: 0-indexed pixels <<r, c>>, adjacency, connected components, boxes,      *)
(* raster order, JSON row conversion.  Used by Detect, SegmImage, Peaks, CatMeasure, ...                *)
EXTENDS Integers, Sequences, FiniteSets, FiniteSetsExt, SequencesExt

Abs(x) == IF x < 0 THEN -x ELSE x
Grid(h, w) == (0..h-1) \X (0..w-1)
\* conn = 4 or 8
Adj(p, q, conn) == /\ p # q
                   /\ Abs(p[1] - q[1]) <= 1 /\ Abs(p[2] - q[2]) <= 1
                   /\ (conn = 4 => (p[1] = q[1] \/ p[2] = q[2]))
RECURSIVE Flood(_, _, _)
Flood(seed, S, conn) == LET nxt == seed \cup {q \in S : \E p \in seed : Adj(p, q, conn)}
                        IN IF nxt = seed THEN seed ELSE Flood(nxt, S, conn)
RasterLess(p, q) == p[1] < q[1] \/ (p[1] = q[1] /\ p[2] < q[2])
FirstPixel(S) == CHOOSE p \in S : \A q \in S : p = q \/ RasterLess(p, q)
RECURSIVE Components(_, _)
Components(S, conn) == IF S = {} THEN {}
                       ELSE LET C == Flood({FirstPixel(S)}, S, conn) IN {C} \cup Components(S \ C, conn)
\* declarative characterisation of a component partition
Connected(C, conn) == \A p \in C : Flood({p}, C, conn) = C
IsComponentPartition(P, S, conn) ==
  /\ UNION P = S
  /\ \A A \in P : A # {} /\ Connected(A, conn)
  /\ \A A, B \in P : A # B => (A \cap B = {} /\ ~\E p \in A, q \in B : Adj(p, q, conn))

BoxOf(S) == <<Min({p[1] : p \in S}), Max({p[1] : p \in S}) + 1, Min({p[2] : p \in S}), Max({p[2] : p \in S}) + 1>>
PixSeq(S) == SetToSortSeq(S, RasterLess)
FromRows(rows) == [p \in (0..Len(rows)-1) \X (0..Len(rows[1])-1) |-> rows[p[1] + 1][p[2] + 1]]
ToRows(f, h, w) == [r \in 1..h |-> [c \in 1..w |-> f[<<r-1, c-1>>]]]
=============================================================================
