SPECIFICATION Spec
CONSTANTS
  Eps = {5, 10, 20, 50, 80}
  Pas = {0, 1, 2, 3, 4, 5, 6, 7}
  Laws = {"gauss", "exp", "sersic"}
  Fixes = {"none", "center", "pa", "eps"}
  Modes = {"bilinear", "nearest", "linear_growth", "maxrit", "mean", "median", "linear_geometry"}
  Frames = {"square", "wide", "tall", "nearleft", "nearbottom", "large", "largeleft", "largebottom"}
  Starts = {"near", "perp", "round"}
  Emit = TRUE
CHECK_DEADLOCK FALSE
