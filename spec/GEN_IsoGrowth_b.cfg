SPECIFICATION GSpec
CONSTANTS
  HasMax = FALSE
  KMax = 4
  KMin = 4
  MinZero = TRUE
  KEdge = 1
  KOut = 3
  HasRit = FALSE
  KRit = 0
  Variant = "repaired"
CHECK_DEADLOCK FALSE
INVARIANT GeoShape
INVARIANT NoDivergedGeometry
