SPECIFICATION Spec
CONSTANTS
  Arrays = {"profile", "profile_error", "data_profile", "ee"}
  LazyOnly = {"data_profile", "data_radius", "ee", "ree"}
  ZeroMethods = {}
  Variant = "scaled_first_read"
  MaxDepth = 5
  Emit = FALSE
INVARIANT AllCachedAtCurrentScale
INVARIANT UnnormalizeRestoresRaw
CHECK_DEADLOCK FALSE
