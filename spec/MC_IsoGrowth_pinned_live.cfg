SPECIFICATION Spec
CONSTANTS
  HasMax = TRUE
  KMax = 5
  KMin = 3
  MinZero = TRUE
  KEdge = 2
  KOut = 4
  HasRit = FALSE
  KRit = 0
  Variant = "pinned"
PROPERTY Termination
CHECK_DEADLOCK FALSE
