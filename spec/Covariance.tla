------------------------------- MODULE Covariance -------------------------------
(***************************************************************************)
(* Covariance under integer translation and axis transposition (C03).      *)
(* A case holds the columns measured on a scene (a) and on its transformed *)
(* copy (b): the scene embedded at offset (dx, dy) in a larger zero-padded *)
(* canvas (with mask, error and segmentation map transformed alike), or    *)
(* the transposed scene.  Column kinds:                                    *)
(*   "x", "y"   real pixel positions (fixed point S = 1024)                *)
(*   "ix", "iy" integer pixel indices / bounding-box edges                 *)
(*   "free"     fluxes, areas, shape parameters, statistics                *)
(*   "angle"    orientation in degrees (fixed point), defined modulo 180   *)
(* Translate: x' = x + dx, y' = y + dy, free' = free, angle' = angle.      *)
(* Transpose: every x column equals its partner y column of the original   *)
(* and vice versa, free' = free, angle' = 90 - angle (mod 180).            *)
(* TLC enumerates the transformation space itself (GEN): all offsets and   *)
(* pads up to the bounds, and the transposition.                           *)
(***************************************************************************)
EXTENDS Integers, Sequences, FiniteSets, TLC, Json, IOUtils, SequencesExt
S == 1024
Abs(x) == IF x < 0 THEN -x ELSE x
Cases == JsonDeserialize(IOEnv.TRACE_FILE)
CONSTANTS MaxOff, MaxPad
VARIABLE i
Near(a, b, tol) == Abs(a - b) <= tol
AngEq(a, b) == LET d == (a - b) % (180 * S) IN d <= 64 \/ d >= 180 * S - 64      \* 1/16 degree
ColOK(c, col) ==
  LET n == Len(col.a) IN
  /\ Len(col.b) = n
  /\ \A k \in 1..n :
       IF col.a_nan[k] \/ col.b_nan[k] THEN col.a_nan[k] = col.b_nan[k]
       ELSE IF c.rel = "translate" THEN
              CASE col.kind = "x" -> Near(col.b[k], col.a[k] + S * c.dx, col.tol)
                [] col.kind = "y" -> Near(col.b[k], col.a[k] + S * c.dy, col.tol)
                [] col.kind = "ix" -> col.b[k] = col.a[k] + c.dx
                [] col.kind = "iy" -> col.b[k] = col.a[k] + c.dy
                [] col.kind = "angle" -> AngEq(col.b[k], col.a[k])
                [] OTHER -> Near(col.b[k], col.a[k], col.tol)
            ELSE \* transpose: position-like columns are compared with the partner column of the original
              CASE col.kind \in {"x", "y"} -> Near(col.b[k], c.cols[col.partner].a[k], col.tol)
                [] col.kind \in {"ix", "iy"} -> col.b[k] = c.cols[col.partner].a[k]
                [] col.kind = "angle" -> AngEq(col.b[k], 90 * S - col.a[k])
                [] OTHER -> Near(col.b[k], col.a[k], col.tol)
Clause(c) == IF c.raised THEN "transformed_call_raises"
             ELSE IF ~c.arrays_ok THEN c.api \o ":array_result_is_embedded_original"
             ELSE LET bad == {j \in 1..Len(c.cols) : ~ColOK(c, c.cols[j])} IN
                  IF bad = {} THEN "ok" ELSE c.api \o ":" \o c.cols[CHOOSE j \in bad : TRUE].name
Init == i = 1
Next == /\ i <= Len(Cases)
        /\ LET cl == Clause(Cases[i]) IN PrintT(<<"V", ToJson([id |-> Cases[i].id, ok |-> (cl = "ok"), clause |-> cl])>>)
        /\ i' = i + 1
TSpec == Init /\ [][Next]_i
\* GEN: the transformation space
Transforms == {<<"translate", dx, dy, pl, pr>> : dx \in 0..MaxOff, dy \in 0..MaxOff, pl \in {0}, pr \in 0..MaxPad} \cup {<<"transpose", 0, 0, 0, 0>>}
TList == SetToSeq(Transforms)
PNext == i <= Cardinality(Transforms) /\ PrintT(<<"GEN", ToJson(TList[i])>>) /\ i' = i + 1
PSpec == Init /\ [][PNext]_i
=============================================================================
