----------------------------- MODULE CentroidOps -----------------------------
(* Centroids (C17): exact definitions on integer images and the cutout-window rule of centroid_sources.        *)
EXTENDS Integers, Sequences, FiniteSets, FiniteSetsExt, SequencesExt, TLC, Json, Pix
SumOver(f, S) == FoldSet(LAMBDA p, acc : acc + f[p], 0, S)
\* centre of mass over the unmasked pixels: <<sum(x*v), sum(y*v), sum(v)>>  (x = column, y = row)
ComSums(d, bad) == LET S == (DOMAIN d) \ bad IN
  <<FoldSet(LAMBDA p, acc : acc + p[2] * d[p], 0, S), FoldSet(LAMBDA p, acc : acc + p[1] * d[p], 0, S), SumOver(d, S)>>
CeilDiv(a, b) == -((-a) \div b)
\* astropy.nddata.overlap_slices(large, small, position, mode='partial') along one axis, position = p / Q pixels:
\*   emin = ceil(pos - small/2), emax = ceil(pos + small/2); large slice [max(0,emin), min(n,emax)); small slice offset max(0,-emin)
WinQ == 4
EdgeMin(p, small) == CeilDiv(2 * p - small * WinQ, 2 * WinQ)
EdgeMax(p, small) == CeilDiv(2 * p + small * WinQ, 2 * WinQ)
LargeLo(p, small, n) == Max({0, EdgeMin(p, small)})
LargeHi(p, small, n) == Min({n, EdgeMax(p, small)})
SmallLo(p, small) == Max({0, -EdgeMin(p, small)})
\* D4 action on a position (x, y) in an image of width w and height h (coordinates scaled by 2 to stay integral are not needed:
\* flips map x -> w-1-x)
D4(g, x, y, w, h) == CASE g = "id" -> <<x, y>> [] g = "flipx" -> <<w - 1 - x, y>> [] g = "flipy" -> <<x, h - 1 - y>>
                       [] g = "rot180" -> <<w - 1 - x, h - 1 - y>> [] g = "transpose" -> <<y, x>>
=============================================================================
