SPECIFICATION GSpec
CONSTANTS
  HasMax = TRUE
  KMax = 5
  KMin = 6
  MinZero = TRUE
  KEdge = 1
  KOut = 9
  HasRit = TRUE
  KRit = 2
  Variant = "repaired"
CHECK_DEADLOCK FALSE
INVARIANT GeoShape
INVARIANT NoDivergedGeometry
