SPECIFICATION Spec
CONSTANTS
  N = 4
  NProc = 3
  MaxLabel0 = 7
  Kids = {0, 2}
  Variant = "indexed"
  Emit = TRUE
CHECK_DEADLOCK FALSE
