SPECIFICATION TSpec
INVARIANT Complete
CHECK_DEADLOCK FALSE
