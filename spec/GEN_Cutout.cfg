SPECIFICATION Spec
CONSTANTS
  H = 3
  W = 4
  PosLo = 4
  PosHi = 40
  Sizes = {1, 2, 3, 4}
  Emit = TRUE
CHECK_DEADLOCK FALSE
