-------------------------------- MODULE ApMask --------------------------------
(***************************************************************************)
(* Aperture masks (C01): 'center' / 'subpixel' weights are the fraction of *)
(* (sub)pixel centres inside the shape; the bounding box is minimal.       *)
(* All arithmetic is exact: lengths are integers in units of 1/Q pixel,    *)
(* rotation angles are the "rational" angles whose cosine and sine are     *)
(* c/n and s/n (0, 90, 180 degrees and the 3-4-5 angles), so membership of *)
(* a sub-pixel centre in a rotated ellipse or rectangle is an integer      *)
(* inequality.  A point exactly on the boundary is a tie (don't-care):     *)
(* In(...) is evaluated both strictly and non-strictly and the real weight *)
(* must lie between the two counts.                                        *)
(* Shapes: "circle"(r) "ellipse"(a,b,ang) "rect"(w,h,ang) and the annuli   *)
(* "cann"(rin,rout) "eann"(ain,aout,bin,bout,ang) "rann"(win,wout,hin,hout)*)
(***************************************************************************)
EXTENDS BBoxOps
\* angle table: id -> <<c, s, n>> with cos = c/n, sin = s/n
Ang(k) == CASE k = 0 -> <<1, 0, 1>> [] k = 1 -> <<4, 3, 5>> [] k = 2 -> <<3, 4, 5>> [] k = 3 -> <<0, 1, 1>>
            [] k = 4 -> <<4, -3, 5>> [] k = 5 -> <<-1, 0, 1>> [] k = 6 -> <<-3, 4, 5>>
Sq(x) == x * x
\* membership of the point (dx, dy) (relative to the centre, any length unit L) in the shape with sizes in the same unit
InEllipse(dx, dy, a, b, k, closed) ==
  LET t == Ang(k)  xr == dx * t[1] + dy * t[2]  yr == dy * t[1] - dx * t[2]        \* n * rotated coordinates
      lhs == Sq(b) * Sq(xr) + Sq(a) * Sq(yr)  rhs == Sq(t[3]) * Sq(a) * Sq(b)
  IN IF closed THEN lhs <= rhs ELSE lhs < rhs
InRect(dx, dy, w, h, k, closed) ==
  LET t == Ang(k)  xr == dx * t[1] + dy * t[2]  yr == dy * t[1] - dx * t[2]
  IN IF closed THEN 2 * Abs(xr) <= w * t[3] /\ 2 * Abs(yr) <= h * t[3] ELSE 2 * Abs(xr) < w * t[3] /\ 2 * Abs(yr) < h * t[3]
\* shape record: [kind, p1..p4 (sizes in 1/Q px), ang]
\* mode: "lower" (outer strict, inner closed), "upper" (outer closed, inner strict), "impl" (both strict: what the kernels compute
\* when the arithmetic is exact, i.e. for circles and unrotated shapes with dyadic parameters)
InShape(sh, dx, dy, U, mode) ==          \* dx, dy in units 1/(U*Q) px; sizes scaled by U
  LET co == mode = "upper"   ci == mode = "lower" IN
  CASE sh.kind = "circle"  -> InEllipse(dx, dy, sh.p1 * U, sh.p1 * U, 0, co)
    [] sh.kind = "ellipse" -> InEllipse(dx, dy, sh.p1 * U, sh.p2 * U, sh.ang, co)
    [] sh.kind = "rect"    -> InRect(dx, dy, sh.p1 * U, sh.p2 * U, sh.ang, co)
    [] sh.kind = "cann"    -> InEllipse(dx, dy, sh.p2 * U, sh.p2 * U, 0, co) /\ ~InEllipse(dx, dy, sh.p1 * U, sh.p1 * U, 0, ci)
    [] sh.kind = "eann"    -> InEllipse(dx, dy, sh.p2 * U, sh.p4 * U, sh.ang, co) /\ ~InEllipse(dx, dy, sh.p1 * U, sh.p3 * U, sh.ang, ci)
    [] sh.kind = "rann"    -> InRect(dx, dy, sh.p2 * U, sh.p4 * U, sh.ang, co) /\ ~InRect(dx, dy, sh.p1 * U, sh.p3 * U, sh.ang, ci)
\* number of the s*s sub-pixel centres of pixel <<row, col>> inside the shape centred at (cx, cy) (1/Q px)
Count(sh, cx, cy, row, col, s, Q, mode) ==
  LET U == 2 * s IN
  Cardinality({jk \in (0..(s - 1)) \X (0..(s - 1)) :
      InShape(sh, (col * U + 2 * jk[1] + 1 - s) * Q - cx * U, (row * U + 2 * jk[2] + 1 - s) * Q - cy * U, U, mode)})
\* squared half-extents of the (outer) shape along x and y, as <<numerator, denominator-root>>: extent^2 = num / den^2 (1/Q px)
OuterA(sh) == IF sh.kind \in {"cann", "eann", "rann"} THEN sh.p2 ELSE sh.p1
OuterB(sh) == CASE sh.kind \in {"circle"} -> sh.p1 [] sh.kind = "cann" -> sh.p2 [] sh.kind \in {"ellipse", "rect"} -> sh.p2 [] OTHER -> sh.p4
IsRect(sh) == sh.kind \in {"rect", "rann"}
\* the box index range [lo, hi) along x (axis = 1) or y (axis = 2) and whether the extent falls exactly on a pixel edge (tie)
\* units: 1/(2 Q n) px.  centre c2 = 2 n c ; half pixel = Q n ; extent: rect -> (w|c| + h|s|) (exact), ellipse -> sqrt(4 (a^2 c^2 + b^2 s^2))
ExtSq(sh, axis) == LET t == Ang(IF sh.kind \in {"circle", "cann"} THEN 0 ELSE sh.ang)
                       cc == IF axis = 1 THEN t[1] ELSE t[2]   ss == IF axis = 1 THEN t[2] ELSE t[1]
                   IN IF IsRect(sh) THEN Sq(OuterA(sh) * Abs(cc) + OuterB(sh) * Abs(ss))
                      ELSE 4 * (Sq(OuterA(sh)) * Sq(cc) + Sq(OuterB(sh)) * Sq(ss))
NOf(sh) == Ang(IF sh.kind \in {"circle", "cann"} THEN 0 ELSE sh.ang)[3]
\* lo = floor(c - e + 1/2): the m with  e <= c + 1/2 - m  and  e > c - 1/2 - m
BoxLo(sh, c, axis, Q, R) == CHOOSE m \in R : LET n == NOf(sh)  T1 == 2 * n * c + Q * n - 2 * Q * n * m  T2 == T1 - 2 * Q * n IN
                              T1 >= 0 /\ ExtSq(sh, axis) <= Sq(T1) /\ (T2 < 0 \/ ExtSq(sh, axis) > Sq(T2))
\* hi = ceil(c + e + 1/2): the m with  e <= m - c - 1/2  and  e > m - 1 - c - 1/2
BoxHi(sh, c, axis, Q, R) == CHOOSE m \in R : LET n == NOf(sh)  T1 == 2 * Q * n * m - 2 * n * c - Q * n  T2 == T1 - 2 * Q * n IN
                              T1 >= 0 /\ ExtSq(sh, axis) <= Sq(T1) /\ (T2 < 0 \/ ExtSq(sh, axis) > Sq(T2))
BoxTie(sh, c, axis, Q, R) == \E m \in R : LET n == NOf(sh) IN
                              ExtSq(sh, axis) = Sq(2 * n * c + Q * n - 2 * Q * n * m) \/ ExtSq(sh, axis) = Sq(2 * Q * n * m - 2 * n * c - Q * n)

(* 'exact' weights of circles: brackets from an N x N sub-cell grid.  A sub-cell counts for the lower bound when its farthest  *)
(* corner is inside the circle and for the upper bound unless its nearest point is outside.  Units 1/(2 N Q) px.              *)
ExactBracket(r, cx, cy, row, col, N, Q) ==
  LET c1 == 2 * N * cx   c2 == 2 * N * cy   rr == Sq(2 * N * r)
      X0(k) == (2 * col - 1) * N * Q + 2 * k * Q     Y0(k) == (2 * row - 1) * N * Q + 2 * k * Q
      far(lo, c) == IF Abs(lo - c) > Abs(lo + 2 * Q - c) THEN Abs(lo - c) ELSE Abs(lo + 2 * Q - c)
      near(lo, c) == IF c < lo THEN lo - c ELSE IF c > lo + 2 * Q THEN c - lo - 2 * Q ELSE 0
      cells == (0..(N - 1)) \X (0..(N - 1))
  IN <<Cardinality({kl \in cells : Sq(far(X0(kl[1]), c1)) + Sq(far(Y0(kl[2]), c2)) <= rr}),
       Cardinality({kl \in cells : Sq(near(X0(kl[1]), c1)) + Sq(near(Y0(kl[2]), c2)) < rr})>>
=============================================================================
