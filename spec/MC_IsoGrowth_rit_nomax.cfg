SPECIFICATION Spec
CONSTANTS
  HasMax = FALSE
  KMax = 5
  KMin = 3
  MinZero = TRUE
  KEdge = 2
  KOut = 4
  HasRit = TRUE
  KRit = 2
  Variant = "repaired"
INVARIANT TypeOK
INVARIANT NoCrash
INVARIANT ReturnedOK
PROPERTY Termination
CHECK_DEADLOCK FALSE
