------------------------------ MODULE Trace_Bkg2D ------------------------------
(***************************************************************************)
(* Background2D (C11) on integer images.  The image is partitioned into    *)
(* boxes of (by, bx) pixels starting at the origin; a remainder forms an   *)
(* extra (padded) row / column / corner box that holds only its real       *)
(* pixels.  For each box: good = unmasked finite pixels surviving the      *)
(* sigma clip; npixels_mesh = |good|; the box is excluded iff              *)
(* |good| <= (1 - p/100) * by * bx; otherwise its mesh value is the        *)
(* estimator (median or mean) of the good values.  Excluded meshes are     *)
(* interpolated and must lie within the range of the included ones.  Full  *)
(* maps have the input shape, are finite, equal fill_value on the coverage *)
(* mask and (clipped zoom interpolator) stay within the mesh range.        *)
(* kind "pair": relations (mask-blindness, constant image, shift, scale).  *)
(* Fixed point S = 1024.                                                   *)
(***************************************************************************)
EXTENDS Num, Json, IOUtils, SequencesExt, Pix
Cases == JsonDeserialize(IOEnv.TRACE_FILE)
VARIABLE i
S == 1024
PixSetOf(sq) == {<<sq[j][1], sq[j][2]>> : j \in 1..Len(sq)}
Near(a, b, tol) == a - b <= tol /\ b - a <= tol
CeilDiv(a, b) == -((-a) \div b)
BoxPixels(r, q, by, bx, h, w) == {p \in Grid(h, w) : p[1] \div by = r /\ p[2] \div bx = q}
Clause(c) ==
  LET h == Len(c.data)  w == Len(c.data[1])  by == c.box[1]  bx == c.box[2]
      ny == CeilDiv(h, by)  nx == CeilDiv(w, bx)
      bad == PixSetOf(c.bad)
      v == [p \in Grid(h, w) |-> c.data[p[1] + 1][p[2] + 1]]
      good0(r, q) == BoxPixels(r, q, by, bx, h, w) \ bad
      good(r, q) == Clip(v, good0(r, q), c.sigma, c.maxiters)
      \* ties: a value exactly on a clipping limit, or a good-pixel count exactly at the exclusion threshold (the threshold
      \* (1 - p/100) * by * bx is formed in floating point and may fall on either side)
      tie == \E r \in 0..(ny - 1), q \in 0..(nx - 1) : AnyClipTie(v, good0(r, q), c.sigma, c.maxiters)
                \/ (c.p \notin {0, 50, 100} /\ 100 * Cardinality(Clip(v, good0(r, q), c.sigma, c.maxiters)) = (100 - c.p) * by * bx)
      \* excluded iff ngood <= (1 - p/100) * by * bx   <=>   100 * ngood <= (100 - p) * by * bx
      excl(r, q) == 100 * Cardinality(good(r, q)) <= (100 - c.p) * by * bx
      incl == {rq \in (0..(ny - 1)) \X (0..(nx - 1)) : ~excl(rq[1], rq[2])}
      meshv(r, q) == c.mesh[r + 1][q + 1]
      lo == Min({meshv(rq[1], rq[2]) : rq \in incl})   hi == Max({meshv(rq[1], rq[2]) : rq \in incl})
  IN IF tie THEN "ok"
     ELSE IF incl = {} THEN (IF c.raised THEN "ok" ELSE "all_boxes_excluded_must_raise")
     ELSE IF c.raised THEN "valid_input_raises"
     ELSE IF Len(c.mesh) # ny \/ Len(c.mesh[1]) # nx THEN "mesh_shape_is_ceil_of_shape_over_box"
     ELSE IF \E r \in 0..(ny - 1), q \in 0..(nx - 1) : c.npix[r + 1][q + 1] # Cardinality(good(r, q)) THEN "npixels_mesh_counts_good_pixels_of_each_box"
     \* estimators as rational combinations of the median m2/2 and the mean sum/n of the clipped good pixels:
     \*   MMM and Mode (3, 2):  3 median - 2 mean;   SExtractor: mean if std = 0, median if |mean - median| >= 0.3 std, else 2.5 median - 1.5 mean
     ELSE IF \E rq \in incl : LET g == good(rq[1], rq[2])  n == Cardinality(g)  m2 == Median2(v, g)  sum == SumF(v, g)  val == meshv(rq[1], rq[2])
                                   L == 2 * sum - n * m2            \* 2 n (mean - median)
                                   R == n * SumSqF(v, g) - sum * sum \* n^2 variance
                                   NA(x) == IF x < 0 THEN -x ELSE x
                               IN
               CASE c.estimator = "median" -> ~Near(2 * val, S * m2, 3)
                 [] c.estimator = "mean" -> ~Near(val * n, S * sum, 2 * n)
                 [] c.estimator \in {"mmm", "mode"} -> ~Near(2 * n * val, S * (3 * n * m2 - 4 * sum), 6 * n)
                 [] c.estimator = "biweight" -> FALSE                      \* not re-derived (relations only)
                 [] c.estimator = "sextractor" ->
                      IF R = 0 THEN ~Near(val * n, S * sum, 2 * n)
                      ELSE IF NA(L) >= 4000 \/ R >= 200000000 THEN FALSE                       \* outside 32-bit range: not decided
                      ELSE IF 25 * L * L = 9 * R THEN FALSE                                      \* exactly on the switch: don't care
                      ELSE IF 25 * L * L > 9 * R THEN ~Near(2 * val, S * m2, 3)
                      ELSE ~Near(4 * n * val, S * (5 * n * m2 - 6 * sum), 12 * n)
          THEN "mesh_value_is_estimator_of_clipped_good_pixels"
     ELSE IF \E r \in 0..(ny - 1), q \in 0..(nx - 1) : excl(r, q) /\ (meshv(r, q) < lo - 2 \/ meshv(r, q) > hi + 2) THEN "excluded_mesh_interpolated_within_range"
     ELSE IF \E r \in 0..(ny - 1), q \in 0..(nx - 1) : excl(r, q) /\
               (c.rmsmesh[r + 1][q + 1] < Min({c.rmsmesh[rq[1] + 1][rq[2] + 1] : rq \in incl}) - 2
                \/ c.rmsmesh[r + 1][q + 1] > Max({c.rmsmesh[rq[1] + 1][rq[2] + 1] : rq \in incl}) + 2) THEN "excluded_rms_mesh_interpolated_within_range"
     \* default RMS estimator: population standard deviation of the clipped good pixels (checked for boxes of <= 25 good pixels; 1/32 units)
     ELSE IF \E rq \in incl : LET g == good(rq[1], rq[2])  n == Cardinality(g)  x == c.rmsmesh[rq[1] + 1][rq[2] + 1] \div 32 IN
               c.rmsest = "std" /\ n <= 25 /\ ~Near(x * x * n * n, 1024 * (n * SumSqF(v, g) - SumF(v, g) * SumF(v, g)), (2 * x + 2) * n * n + 1024) THEN "rms_mesh_is_std_of_clipped_good_pixels"
     \* MADStdBackgroundRMS = 1.482602... x median(|x - median|); the harness records the mesh divided by that constant
     ELSE IF c.rmsest = "madstd" /\ \E rq \in incl : LET g == good(rq[1], rq[2])  NA(x) == IF x < 0 THEN -x ELSE x IN
               ~Near(4 * c.madmesh[rq[1] + 1][rq[2] + 1], S * Median2([p \in g |-> NA(2 * v[p] - Median2(v, g))], g), 8) THEN "rms_mesh_is_mad_std_of_clipped_good_pixels"
     ELSE IF ~c.map_finite THEN "maps_finite_everywhere"
     ELSE IF Len(c.bkg) # h \/ Len(c.bkg[1]) # w THEN "maps_have_input_shape"
     ELSE IF \E p \in PixSetOf(c.coverage) : c.bkg[p[1] + 1][p[2] + 1] # c.fill_k \/ c.rms[p[1] + 1][p[2] + 1] # c.fill_k THEN "fill_value_on_coverage_mask"
     ELSE IF c.zoom /\ \E p \in Grid(h, w) \ PixSetOf(c.coverage) : c.bkg[p[1] + 1][p[2] + 1] < lo - 2 \/ c.bkg[p[1] + 1][p[2] + 1] > hi + 2 THEN "zoom_map_within_mesh_range"
     ELSE "ok"
\* kind "filter": the meshes after the median filter.  raw / rawrms are the (validated) interpolated meshes with
\* filter_size = 1; the filtered value of a box is the median of the raw values in the filter window centred on it
\* and clipped to the mesh; with a filter_threshold only boxes whose RAW BACKGROUND value exceeds it are replaced (in
\* both meshes).  The full maps of the filtered run are finite, equal fill on the coverage mask and (zoom) stay in the
\* range of the filtered mesh.
FilterClause(c) ==
  LET ny == Len(c.raw)  nx == Len(c.raw[1])  fy == c.fs[1]  fx == c.fs[2]  hy == fy \div 2  hx == fx \div 2
      G == Grid(ny, nx)
      Win(p) == {w \in G : /\ w[1] >= p[1] - hy /\ w[1] < p[1] - hy + fy /\ w[2] >= p[2] - hx /\ w[2] < p[2] - hx + fx}
      raw == [p \in G |-> c.raw[p[1] + 1][p[2] + 1]]      rawrms == [p \in G |-> c.rawrms[p[1] + 1][p[2] + 1]]
      tieP(p) == c.sel /\ Near(raw[p], c.thr, 2)
      filt(p) == ~c.sel \/ raw[p] > c.thr
      bad(m, src) == \E p \in G : ~tieP(p) /\
                       (IF filt(p) THEN ~Near(2 * m[p[1] + 1][p[2] + 1], Median2(src, Win(p)), 3) ELSE m[p[1] + 1][p[2] + 1] # src[p])
      h == Len(c.bkg)  w == Len(c.bkg[1])
      all == {c.mesh[p[1] + 1][p[2] + 1] : p \in G}
  IN IF c.raised THEN "valid_input_raises"
     ELSE IF Len(c.mesh) # ny \/ Len(c.mesh[1]) # nx \/ Len(c.rmsmesh) # ny \/ Len(c.rmsmesh[1]) # nx THEN "mesh_shape_is_ceil_of_shape_over_box"
     ELSE IF bad(c.mesh, raw) THEN "filtered_mesh_is_window_median_of_raw_mesh"
     ELSE IF bad(c.rmsmesh, rawrms) THEN "filtered_rms_mesh_is_window_median_of_raw_rms_mesh"
     ELSE IF ~c.map_finite THEN "maps_finite_everywhere"
     ELSE IF \E p \in PixSetOf(c.coverage) : c.bkg[p[1] + 1][p[2] + 1] # c.fill_k \/ c.rms[p[1] + 1][p[2] + 1] # c.fill_k THEN "fill_value_on_coverage_mask"
     ELSE IF c.zoom /\ \E p \in Grid(h, w) \ PixSetOf(c.coverage) : c.bkg[p[1] + 1][p[2] + 1] < Min(all) - 2 \/ c.bkg[p[1] + 1][p[2] + 1] > Max(all) + 2 THEN "zoom_map_within_mesh_range"
     ELSE "ok"
PairClause(c) ==
  IF c.raised THEN c.rel
  ELSE IF Len(c.a) # Len(c.b) THEN c.rel
  ELSE IF \E k \in 1..Len(c.a) : ~Near(c.a[k], c.b[k], c.tol) THEN c.rel ELSE "ok"
Init == i = 1
Next == /\ i <= Len(Cases)
        /\ LET cl == IF Cases[i].kind = "pair" THEN PairClause(Cases[i])
                     ELSE IF Cases[i].kind = "filter" THEN FilterClause(Cases[i]) ELSE Clause(Cases[i]) IN
           PrintT(<<"V", ToJson([id |-> Cases[i].id, ok |-> (cl = "ok"), clause |-> cl])>>)
        /\ i' = i + 1
TSpec == Init /\ [][Next]_i
=============================================================================
