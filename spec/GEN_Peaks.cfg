SPECIFICATION Spec
CONSTANTS
  H = 2
  W = 3
  Vals = {0, 1, 2}
  FpKinds = {"box3", "box2", "box13", "cross"}
  Borders = {"none", "b1", "b01", "b10"}
  MaskKinds = {"none", "one"}
  ThrVals = {0, 1}
  Emit = TRUE
  Shard = 0
  NShards = 1
CHECK_DEADLOCK FALSE
