----------------------------- MODULE LazyCatalog -----------------------------
(***************************************************************************)
(* Indexing SourceCatalog / ApertureStats objects (C08).                   *)
(*                                                                         *)
(* Objects: the parent "P" and catalogs created from it by indexing.       *)
(* Per object: the sequence of source ids it describes, the set of         *)
(* property KINDS whose values are cached, and its ordered list of extra   *)
(* property names.  Index(o, f) builds a new object the way __getitem__    *)
(* does: ids sliced, every cached per-source value sliced, always-scalar   *)
(* values dropped, the extra-property registry handed over.                *)
(* REQUIRED                                                                *)
(*   Commutes    : the value of kind k seen through object o is the        *)
(*                 per-source value restricted to o's ids, whether it was  *)
(*                 cached before or after indexing (cacheSrc records where *)
(*                 each cached row came from);                             *)
(*   Independent : add/remove/rename of extras on one object never changes *)
(*                 another object's registry.                              *)
(* Variant "shared_registry" is the pinned code (the list is handed over   *)
(* by reference): TLC must reject it.                                      *)
(***************************************************************************)
EXTENDS Integers, Sequences, FiniteSets, TLC, Json, SequencesExt
CONSTANTS NSrc, Kinds, ScalarKinds, IdxForms, ExtraNames, Variant, MaxDepth, Emit
Objs == {"P", "C", "G"}
VARIABLES ids,       \* [Objs -> sequence of source ids, or <<0>> marker for "does not exist"]
          scalar,    \* [Objs -> BOOLEAN] object describes a single source (no further indexing)
          cache,     \* [Objs -> [subset of Kinds -> sequence of source ids the cached rows belong to]]
          reg,       \* [Objs -> sequence of extra names]  (abstract registries)
          alias,     \* [Objs -> Objs]  which object's registry list this object actually holds (shared_registry variant)
          hist
vars == <<ids, scalar, cache, reg, alias, hist>>
NoObj == <<0>>
Exists(o) == ids[o] # NoObj
Empty == [x \in {} |-> <<>>]

\* effect of an index form on a sequence of ids
Sel(s, f) == CASE f = "int0" -> <<s[1]>>
               [] f = "intlast" -> <<s[Len(s)]>>
               [] f = "slice02" -> SubSeq(s, 1, IF Len(s) < 2 THEN Len(s) ELSE 2)
               [] f = "slice12" -> SubSeq(s, 2, 2)                          \* length-1 slice (not scalar)
               [] f = "stride2" -> [i \in 1..((Len(s) + 1) \div 2) |-> s[2 * i - 1]]
               [] f = "rev" -> [i \in 1..Len(s) |-> s[Len(s) + 1 - i]]
               [] f = "list20" -> IF Len(s) >= 3 THEN <<s[3], s[1]>> ELSE <<s[1]>>
               [] f = "bool" -> SelectSeq(s, LAMBDA x : x % 2 = 1)
               [] f = "getlabel" -> <<s[Len(s)]>>                           \* get_label / get_id of the last source
               [] f = "getlabels" -> IF Len(s) >= 2 THEN <<s[2], s[1]>> ELSE s   \* get_labels / get_ids, reordered
IsScalarForm(f) == f \in {"int0", "intlast", "getlabel"}
FormOK(s, f) == Len(s) >= 1 /\ (f = "slice12" => Len(s) >= 2) /\ Len(Sel(s, f)) >= 1

Snap == [ids |-> ids', scalar |-> scalar', reg |-> [o \in Objs |-> reg'[alias'[o]]]]
Log(ev0) == /\ hist' = Append(hist, [op |-> ev0.op, obj |-> ev0.obj, arg |-> ev0.arg, post |-> Snap])
           /\ ((Emit /\ Len(hist') = MaxDepth) => PrintT(<<"GEN", ToJson(hist')>>))
NextObj(o) == IF o = "P" THEN "C" ELSE "G"
Eval(o, k) == /\ Len(hist) < MaxDepth /\ Exists(o) /\ k \notin DOMAIN cache[o]
              /\ cache' = [cache EXCEPT ![o] = @ @@ (k :> ids[o])]
              /\ UNCHANGED <<ids, scalar, reg, alias>> /\ Log([op |-> "eval", obj |-> o, arg |-> k])
\* (the parent may be indexed AGAIN after other operations: the new slice replaces C, and what was built on the old slice is dropped)
Index(o, f) == /\ Len(hist) < MaxDepth /\ Exists(o) /\ ~scalar[o] /\ o # "G" /\ (~Exists(NextObj(o)) \/ o = "P") /\ FormOK(ids[o], f)
               /\ LET n == NextObj(o)
                      again == Exists(n) IN
                  /\ ids' = [[ids EXCEPT ![n] = Sel(ids[o], f)] EXCEPT !["G"] = IF again THEN NoObj ELSE @]
                  /\ scalar' = [[scalar EXCEPT ![n] = IsScalarForm(f)] EXCEPT !["G"] = IF again THEN FALSE ELSE @]
                  \* cached per-source values are sliced the same way; always-scalar values are not handed over
                  /\ cache' = [[cache EXCEPT ![n] = [k \in (DOMAIN cache[o]) \ ScalarKinds |-> Sel(cache[o][k], f)]] EXCEPT !["G"] = IF again THEN Empty ELSE @]
                  /\ reg' = [[reg EXCEPT ![n] = reg[alias[o]]] EXCEPT !["G"] = IF again THEN <<>> ELSE @]
                  /\ alias' = [[alias EXCEPT ![n] = IF Variant = "shared_registry" THEN alias[o] ELSE n] EXCEPT !["G"] = IF again THEN "G" ELSE @]
               /\ Log([op |-> "index", obj |-> o, arg |-> f])
AddExtra(o, nm) == /\ Len(hist) < MaxDepth /\ Exists(o) /\ nm \notin {reg[alias[o]][i] : i \in 1..Len(reg[alias[o]])}
                   /\ reg' = [reg EXCEPT ![alias[o]] = Append(@, nm)]            \* list.append: in place
                   /\ UNCHANGED <<ids, scalar, cache, alias>> /\ Log([op |-> "add_extra", obj |-> o, arg |-> nm])
RemoveExtra(o, nm) == /\ Len(hist) < MaxDepth /\ Exists(o) /\ nm \in {reg[alias[o]][i] : i \in 1..Len(reg[alias[o]])}
                      \* remove_extra_properties re-binds a fresh list: the object stops sharing
                      /\ reg' = [reg EXCEPT ![o] = SelectSeq(reg[alias[o]], LAMBDA x : x # nm)]
                      /\ alias' = [alias EXCEPT ![o] = o]
                      /\ UNCHANGED <<ids, scalar, cache>> /\ Log([op |-> "remove_extra", obj |-> o, arg |-> nm])
\* get_label / get_id of a source the object does not describe (it exists in the parent): the call must raise and
\* nothing changes
GetAbsent(o, i) == /\ Len(hist) < MaxDepth /\ Exists(o) /\ i \notin {ids[o][j] : j \in 1..Len(ids[o])}
                   /\ UNCHANGED <<ids, scalar, cache, reg, alias>> /\ Log([op |-> "get_absent", obj |-> o, arg |-> ToString(i)])
Init == /\ ids = [o \in Objs |-> IF o = "P" THEN [i \in 1..NSrc |-> i] ELSE NoObj]
        /\ scalar = [o \in Objs |-> FALSE] /\ cache = [o \in Objs |-> Empty]
        /\ reg = [o \in Objs |-> <<>>] /\ alias = [o \in Objs |-> o] /\ hist = <<>>
Next == \/ \E o \in Objs, k \in Kinds : Eval(o, k)
        \/ \E o \in Objs, f \in IdxForms : Index(o, f)
        \/ \E o \in Objs, nm \in ExtraNames : AddExtra(o, nm) \/ RemoveExtra(o, nm)
        \/ \E o \in Objs \ {"P"}, i \in 1..NSrc : GetAbsent(o, i)
Spec == Init /\ [][Next]_vars

\* the rows cached in o for kind k belong to exactly o's sources, in o's order
Commutes == \A o \in Objs : Exists(o) => \A k \in DOMAIN cache[o] : cache[o][k] = ids[o]
\* what an object reports as its extras is its own history of add/remove (tracked in hist), i.e. no object shares a list
Independent == \A o, p \in Objs : (o # p /\ Exists(o) /\ Exists(p)) => alias[o] # alias[p]
=============================================================================
