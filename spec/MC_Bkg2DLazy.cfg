SPECIFICATION Spec
CONSTANTS
  ThrKinds = {"none", "below_min", "selective", "selective_zero"}
  Variant = "delete_after_filter"
  MaxDepth = 8
  Emit = "none"
VIEW View
INVARIANT NoReadRaises
INVARIANT StatsKeptWhileNeeded
CHECK_DEADLOCK FALSE
