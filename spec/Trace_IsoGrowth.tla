---------------------------- MODULE Trace_IsoGrowth ----------------------------
(***************************************************************************)
(* Trace validation for IsoGrowth.tla (C20): every fit_isophote call made  *)
(* by a real Ellipse.fit_image run (exponent of its sma and the stop code  *)
(* it returned, recorded by wrapping the method) must be the next step of  *)
(* the loop machine in its "repaired" (terminating) variant, and the list  *)
(* that fit_image returns must be the machine's list.  The actions are the *)
(* ones of IsoGrowth.tla; the stop codes are bound from the log, so the    *)
(* search is linear.  One verdict per case; a run that was cut off by the  *)
(* call budget is reported as non-terminating.                              *)
(***************************************************************************)
EXTENDS IsoGrowth, Json, IOUtils
Cases == JsonDeserialize(IOEnv.TRACE_FILE)
VARIABLES i, j, geo, gbad
\* GEOMETRY FLOW (as in IsoGrowthGen.tla, here bound to recorded runs): every event carries gs, the name of the geometry (centre, eps, PA by
\* value; 0 = the user's first guess) the fit started from, and ge, the one the returned isophote carried when fit_isophote returned.  geo runs
\* parallel to list; a fit must start from the geometry of the last isophote of the list (gbad remembers the first call that did not), a
\* failed fit is repaired with the geometry of the isophote before it (outward) / of the first isophote of the list (inward), and the returned
\* isophotes must carry the machine's geometries (C.final[n][3]).
tvars == <<i, j, phase, k, list, noiter, geo, gbad>>
C == Cases[i]
NEv == Len(C.calls)
Ev == C.calls[j]
\* iteration counts of EllipseFitter.fit (defaults minit = 10, maxit = 50; the first isophote runs with 2 * minit): a converged fit
\* (code 0) needs at least minit iterations, code 2 means exactly maxit, the non-iterative mode (code 4) and the central pixel none
NiterOK(e, first) == CASE e.code = 0 -> e.niter >= (IF first THEN 20 ELSE 10) /\ e.niter <= 50
                       [] e.code = 2 -> e.niter = 50
                       [] e.code = 4 -> e.niter = 0
                       [] OTHER -> e.niter >= 1 /\ e.niter <= 50
CanOut == j <= NEv /\ phase = "out" /\ Ev.ph = "fit" /\ Ev.k = k /\ ((noiter \/ Rit(C.par, k)) <=> Ev.code = 4) /\ NiterOK(Ev, j = 1)
CanIn == j <= NEv /\ phase = "in" /\ Ev.ph = "fit" /\ Ev.k = k /\ (Rit(C.par, k) <=> Ev.code = 4) /\ NiterOK(Ev, FALSE)
CanCentral == phase = "central" /\ (C.par.MinZero => (j <= NEv /\ Ev.ph = "central" /\ Ev.niter = 0 /\ Ev.code = 0))
StartG == IF list = <<>> THEN 0 ELSE Last(geo)
GeoStep(failed, ref) == /\ geo' = IF list' = <<>> THEN <<>>
                               ELSE IF Len(list') = Len(list) + 1 THEN Append(geo, IF failed THEN ref ELSE Ev.ge)
                               ELSE geo
                        /\ gbad' = IF gbad = 0 /\ Ev.gs # StartG THEN j ELSE gbad
StepOut == CanOut /\ FitOut(C.par, Ev.code, Ev.thin) /\ GeoStep(Ev.code < 0 \/ Ev.code = 1, StartG) /\ j' = j + 1 /\ i' = i
StepIn == CanIn /\ FitIn(C.par, Ev.code) /\ GeoStep(Ev.code < 0, IF geo = <<>> THEN 0 ELSE geo[1]) /\ j' = j + 1 /\ i' = i
StepCentral == /\ CanCentral /\ CentralAndSort(C.par) /\ j' = (IF C.par.MinZero THEN j + 1 ELSE j) /\ i' = i /\ UNCHANGED gbad
               /\ geo' = [n \in 1..Len(list') |-> IF list'[n].k = Central THEN 0 ELSE geo[CHOOSE m \in 1..Len(list) : list[m].k = list'[n].k]]
Over == phase \in {"done", "crash"} \/ (~CanOut /\ ~CanIn /\ ~CanCentral)
Final == [n \in 1..Len(list) |-> <<list[n].k, list[n].code>>]
Clause ==
  IF phase = "crash" THEN "fit_image_raises"
  ELSE IF phase # "done" THEN (IF C.budget_exceeded THEN "fit_image_terminates" ELSE "call_sequence_follows_the_growth_loops")
  ELSE IF j <= NEv THEN (IF C.budget_exceeded THEN "fit_image_terminates" ELSE "calls_after_the_loops_ended")
  ELSE IF C.raised THEN "fit_image_raises"
  ELSE IF Len(C.final) # Len(list) \/ \E n \in 1..Len(list) : C.final[n][1] # list[n].k \/ C.final[n][2] # list[n].code
       THEN "returned_list_is_the_sorted_list_of_fitted_isophotes"
  ELSE IF ~Returned(C.par, list) THEN "returned_list_sorted_contiguous_within_minsma_maxsma"
  ELSE IF gbad # 0 THEN "every_fit_starts_from_the_geometry_of_the_last_isophote_in_the_list"
  ELSE IF \E n \in 1..Len(list) : list[n].k # Central /\ C.final[n][3] # geo[n] THEN "failed_fit_is_repaired_with_the_reference_geometry"
  ELSE "ok"
Verdict == /\ i <= Len(Cases) /\ Over
           /\ PrintT(<<"V", ToJson([id |-> C.id, ok |-> (Clause = "ok"), clause |-> Clause, at |-> j])>>)
           /\ i' = i + 1 /\ j' = 1 /\ phase' = "out" /\ k' = 0 /\ list' = <<>> /\ noiter' = FALSE /\ geo' = <<>> /\ gbad' = 0
TInit == Init /\ i = 1 /\ j = 1 /\ geo = <<>> /\ gbad = 0
TNext == i <= Len(Cases) /\ (StepOut \/ StepIn \/ StepCentral \/ Verdict)
TSpec == TInit /\ [][TNext]_tvars
=============================================================================
