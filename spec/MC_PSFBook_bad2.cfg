SPECIFICATION Spec
CONSTANTS
  N = 4
  Variant = "scatter"
INVARIANT OwnRow
CHECK_DEADLOCK FALSE
