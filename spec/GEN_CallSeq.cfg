SPECIFICATION Spec
CONSTANTS
  Requests = {"a", "b", "c", "d"}
  Leaky = {"b"}
  Variant = "clean"
  MaxDepth = 3
  Emit = TRUE
CHECK_DEADLOCK FALSE
