SPECIFICATION Spec
CONSTANTS
  ThrKinds = {"none", "below_min", "selective", "selective_zero"}
  Variant = "delete_after_filter"
  MaxDepth = 5
  Emit = "transitions"
VIEW View
CHECK_DEADLOCK FALSE
